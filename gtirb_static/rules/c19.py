"""C19 — Interval byte storage and block views stay consistent."""
from __future__ import annotations

import ast
import re
from typing import Dict, List, Optional, Set, Tuple

from ..cfg import CFG
from ..model import AnalysisError, attr_path, dotted, expand_path, local_aliases, unparse, walk_no_nested
from ..report import Check
from ..terms import OutsideFragment, expr_term, function_term, show
from .lookups import _lin, _notifying
from .ownership import ownership

RULES = {
    "R19.1": "initialized_size has no storage of its own: the getter is len(self.contents), the "
             "setter writes only contents (zero padding when larger, slice when smaller)",
    "R19.2": "constructor validation: initialized_size > size raises ValueError before any field "
             "is assigned; defaults come from len(contents); the buffer is a bytearray copy",
    "R19.3": "shrinking size truncates contents (doc/general/ByteInterval.md): the code reached "
             "by 'bi.size = v' shortens contents when v is below the stored length, and still "
             "notifies the section index",
    "R19.4": "block views: address = interval address + offset (None if either is missing); "
             "contents = interval bytes[offset : offset+size]; contains_offset is "
             "offset <= x < offset+size; contains_address delegates to it",
}


def run(chk: Check) -> None:
    chk.explanation = (
        "Effect obligations on the assignment paths of ByteInterval.size / initialized_size and "
        "operand-shape facts of the block views (linear forms of slice bounds and comparison "
        "operands).  Direct edits of contents beyond size (a public, unvalidated attribute) and "
        "arithmetic correctness beyond operand shape are not decided.")
    for k, v in RULES.items():
        chk.rule(k, v)
    repo = chk.repo
    bi = repo.cls("ByteInterval")
    _initialized_size(chk, bi)
    _ctor(chk, bi)
    _size_path(chk, bi)
    _block_views(chk)
    from .c17 import _validation
    sub = chk.sub()
    _validation(sub)
    chk.adopt(sub, lambda o: o.construct.startswith("ByteInterval."), "R19.2")
    from .c02 import _facts, _write_conditions
    schema, pf = _facts(chk)
    sub = chk.sub()
    _write_conditions(sub, schema, pf, ["ByteInterval"])
    chk.adopt(sub, None, "R19.1")


def _initialized_size(chk: Check, bi) -> None:
    p = bi.props.get("initialized_size")
    if p is None or p.getter is None or p.setter is None:
        chk.ob("R19.1", "ByteInterval.initialized_size", False, bi.loc(),
               "initialized_size must be a property with a setter", 1)
        return
    g, s = p.getter, p.setter
    chk.saw(g)
    chk.saw(s)
    try:
        t = function_term(g)
    except OutsideFragment as e:
        t = ("?", str(e))
    want = ("call", ("name", "len"), (("attr", ("self",), "contents"),))
    chk.ob("R19.1", "ByteInterval.initialized_size:getter", t == want, g.loc(),
           "initialized_size must be len(self.contents); it is %s" % show(t) if t[0] != "?" else str(t), 2)
    me = s.self_name
    val = s.param_names()[1]
    stores = []
    for n in walk_no_nested(s.node):
        if isinstance(n, (ast.Assign, ast.AugAssign, ast.AnnAssign, ast.Delete)):
            tgs = n.targets if isinstance(n, (ast.Assign, ast.Delete)) else [n.target]
            for tg in tgs:
                base = tg.value if isinstance(tg, ast.Subscript) else tg
                pth = attr_path(base)
                if pth and pth[0] == me:
                    stores.append((n, pth[1]))
    only_contents = bool(stores) and all(a == "contents" for _, a in stores)
    chk.ob("R19.1", "ByteInterval.initialized_size:setter-writes-only-contents", only_contents, s.loc(),
           "the initialized_size setter writes %s; it may only change contents (a separate counter "
           "could disagree with the stored bytes)" % sorted({a for _, a in stores}), 2)
    cfg = CFG(s.node)
    grow: Set[int] = set()
    shrink: Set[int] = set()
    for n, i in cfg.info.items():
        if i.kind == "test" and isinstance(i.ast, ast.Compare) and len(i.ast.ops) == 1:
            c = i.ast
            l, r = unparse(c.left), unparse(c.comparators[0])
            ln = "len(%s.contents)" % me
            rel = None
            if (l, r) == (val, ln):
                rel = type(c.ops[0]).__name__
            elif (l, r) == (ln, val):
                rel = {"Gt": "Lt", "Lt": "Gt", "GtE": "LtE", "LtE": "GtE"}.get(type(c.ops[0]).__name__)
            if rel is None:
                continue
            for b in cfg.g.successors(n):
                bi_ = cfg.info[b]
                if bi_.kind != "branch":
                    continue
                if rel == "Gt" and bi_.value:
                    grow.add(b)
                if rel == "Lt" and bi_.value:
                    shrink.add(b)
                if rel == "LtE" and not bi_.value:
                    grow.add(b)
                if rel == "GtE" and not bi_.value:
                    shrink.add(b)
    pads = cfg.nodes_where(lambda n: isinstance(n, (ast.AugAssign, ast.Assign)) and
                           "contents" in unparse(n.targets[0] if isinstance(n, ast.Assign) else n.target)
                           and re.search(r"""b['"]\\(0|x00)['"]\s*\*""", unparse(n.value)) is not None)
    cuts = cfg.nodes_where(lambda n: (isinstance(n, ast.Assign) and attr_path(n.targets[0]) == (me, "contents")
                                      and isinstance(n.value, ast.Subscript) and isinstance(n.value.slice, ast.Slice)
                                      and n.value.slice.lower is None and attr_path(n.value.slice.upper) == (val,))
                           or (isinstance(n, ast.Delete) and isinstance(n.targets[0], ast.Subscript)
                               and attr_path(n.targets[0].value) == (me, "contents")))
    ok_pad = bool(grow) and bool(pads) and all(cfg.path_avoiding(b, cfg.exit, pads) is None for b in grow)
    ok_cut = bool(shrink) and bool(cuts) and all(cfg.path_avoiding(b, cfg.exit, cuts) is None for b in shrink)
    chk.ob("R19.1", "ByteInterval.initialized_size:setter-pads-with-zero-bytes", ok_pad, s.loc(),
           "assigning a larger initialized_size must pad contents with zero bytes (b'\\0' * difference)", 3)
    if pads:
        # the pad length is the difference
        okd = False
        for n in walk_no_nested(s.node):
            if isinstance(n, ast.BinOp) and isinstance(n.op, ast.Mult):
                other = n.right if isinstance(n.left, ast.Constant) else n.left
                l = _lin(other, {})
                okd = okd or (l is not None and l[1] == 0 and l[0] == {val: 1, "len(%s.contents)" % me: -1})
        chk.ob("R19.1", "ByteInterval.initialized_size:pad-length", okd, s.loc(),
               "the padding must be exactly value - len(self.contents) bytes", 2)
    chk.ob("R19.1", "ByteInterval.initialized_size:setter-truncates", ok_cut, s.loc(),
           "assigning a smaller initialized_size must truncate contents to contents[:value]", 3)
    # no shadow field anywhere
    for f in chk.repo.all_functions():
        for n in walk_no_nested(f.node):
            if isinstance(n, ast.Attribute) and n.attr in ("_initialized_size", "__initialized_size"):
                chk.ob("R19.1", "%s:shadow-field" % f.qualname, False, f.loc(n),
                       "%s keeps a separate %s: it can disagree with len(contents)" % (f.qualname, n.attr), 1)


def _ctor(chk: Check, bi) -> None:
    init = bi.methods["__init__"]
    chk.saw(init)
    me = init.self_name
    cfg = CFG(init.node)
    ok_br: Set[int] = set()
    rejecting = False
    from .loader import _raises
    for n, i in cfg.info.items():
        if i.kind == "test" and isinstance(i.ast, ast.Compare) and len(i.ast.ops) == 1:
            t = i.ast
            from .c17 import base_name
            l, r = base_name(unparse(t.left)), base_name(unparse(t.comparators[0]))
            op = type(t.ops[0]).__name__
            if (l, r, op) in (("initialized_size", "size", "Gt"), ("size", "initialized_size", "Lt")):
                for b in cfg.g.successors(n):
                    bi_ = cfg.info[b]
                    if bi_.kind == "branch":
                        if bi_.value:
                            rejecting = rejecting or _raises(cfg, b, ("ValueError",))
                        else:
                            ok_br.add(b)
            elif (l, r, op) in (("initialized_size", "size", "LtE"), ("size", "initialized_size", "GtE")):
                for b in cfg.g.successors(n):
                    bi_ = cfg.info[b]
                    if bi_.kind == "branch":
                        if not bi_.value:
                            rejecting = rejecting or _raises(cfg, b, ("ValueError",))
                        else:
                            ok_br.add(b)
    stores = cfg.nodes_where(lambda n: isinstance(n, (ast.Assign, ast.AnnAssign)) and any(
        isinstance(t, ast.Attribute) and attr_path(t.value) == (me,)
        for t in (n.targets if isinstance(n, ast.Assign) else [n.target])))
    ok = bool(ok_br) and rejecting and all(cfg.path_avoiding(cfg.entry, s, ok_br) is None for s in stores)
    chk.ob("R19.2", "ByteInterval.__init__:rejects-more-bytes-than-size", ok, init.loc(),
           "ByteInterval(...) must raise ValueError for initialized_size > size before assigning "
           "any field", 3)
    copies = [n for n in walk_no_nested(init.node) if isinstance(n, ast.Assign)
              and attr_path(n.targets[0]) == (me, "contents")]
    ok = len(copies) == 1 and isinstance(copies[0].value, ast.Call) and \
        attr_path(copies[0].value.func) == ("bytearray",) and attr_path(copies[0].value.args[0]) == ("contents",)
    chk.ob("R19.2", "ByteInterval.__init__:contents-copied-to-bytearray", ok, init.loc(),
           "the stored buffer must be bytearray(contents): a private, mutable copy", 2)
    # size and initialized_size are both applied (order immaterial), contents before either
    # that reads it
    uses = {a: cfg.nodes_where(lambda n, a=a: isinstance(n, ast.Assign) and attr_path(n.targets[0]) == (me, a))
            for a in ("size", "initialized_size", "contents")}
    chk.ob("R19.2", "ByteInterval.__init__:applies-size-and-initialized_size",
           all(uses[a] for a in uses), init.loc(),
           "the constructor must apply size, contents and initialized_size", 1)
    if all(uses[a] for a in uses):
        c = min(uses["contents"])
        ok = all(cfg.dominates(c, x) for x in uses["initialized_size"])
        chk.ob("R19.2", "ByteInterval.__init__:contents-before-initialized_size", ok, init.loc(),
               "initialized_size (which pads/truncates contents) must be applied after contents is set", 1)


def _size_path(chk: Check, bi) -> None:
    repo = chk.repo
    doc = repo.read_text("doc/general/ByteInterval.md")
    norm = re.sub(r"\s+", " ", doc.replace("*", ""))
    has_req = re.search(r"size of a ByteInterval is changed to a value that is less than the size of its contents, "
                        r"its contents must be truncated", norm) is not None
    if not has_req:
        raise AnalysisError("anchor vanished: the 'contents must be truncated' requirement in "
                            "doc/general/ByteInterval.md")
    own = ownership(repo)
    sec = repo.cls("Section")
    key = "ByteInterval.size"
    ia = bi.find_indexed("size")
    prop = bi.find_prop("size")
    if ia is not None and prop is None:
        # the generic descriptor: __set__ writes only the storage attribute and the index
        d = repo.cls("_IndexedAttribute.Descriptor").methods.get("__set__")
        writes = []
        if d is not None:
            chk.saw(d)
            writes = [unparse(n) for n in walk_no_nested(d.node) if isinstance(n, ast.Call)
                      and attr_path(n.func) == ("setattr",)]
        chk.ob("R19.3", key + ":shrink-truncates-contents", False, bi.loc(ia.node),
               "ByteInterval.size is a plain notify-parent attribute: 'bi.size = v' reaches only %s "
               "(%s) and never shortens contents, so after shrinking size below the stored byte "
               "count initialized_size > size and the saved file is rejected by load"
               % (d.qualname if d else "?", "; ".join(writes)), 3)
        return
    if prop is None or prop.setter is None:
        chk.ob("R19.3", key + ":assignable", False, bi.loc(), "ByteInterval.size must be assignable", 1)
        return
    s = prop.setter
    chk.saw(s)
    me = s.self_name
    val = s.param_names()[1]
    cfg = CFG(s.node)
    cuts = cfg.nodes_where(lambda n: (isinstance(n, ast.Assign) and attr_path(n.targets[0]) == (me, "contents")
                                      and isinstance(n.value, ast.Subscript) and isinstance(n.value.slice, ast.Slice)
                                      and n.value.slice.lower is None and attr_path(n.value.slice.upper) == (val,)
                                      and attr_path(n.value.value) == (me, "contents"))
                           or (isinstance(n, ast.Assign) and attr_path(n.targets[0]) == (me, "initialized_size")))
    inplace = cfg.nodes_where(lambda n: isinstance(n, ast.Delete) and isinstance(n.targets[0], ast.Subscript)
                              and attr_path(n.targets[0].value) == (me, "contents"))
    chk.ob("R19.3", key + ":truncation-rebinds", not inplace, s.loc(),
           "the size setter truncates contents in place (del contents[n:]): contents is an assignable "
           "public attribute and may hold immutable bytes or be exported through a memoryview, in which "
           "case the shrink raises after the new size is already stored; truncate like the "
           "initialized_size setter does (contents = contents[:n])", 2)
    not_smaller: Set[int] = set()
    for n, i in cfg.info.items():
        if i.kind == "test" and isinstance(i.ast, ast.Compare) and len(i.ast.ops) == 1:
            c = i.ast
            l, r = unparse(c.left), unparse(c.comparators[0])
            lens = ("len(%s.contents)" % me, "%s.initialized_size" % me)
            rel = None
            if l == val and r in lens:
                rel = type(c.ops[0]).__name__
            elif r == val and l in lens:
                rel = {"Gt": "Lt", "Lt": "Gt", "GtE": "LtE", "LtE": "GtE"}.get(type(c.ops[0]).__name__)
            for b in cfg.g.successors(n):
                bi_ = cfg.info[b]
                if bi_.kind != "branch" or rel is None:
                    continue
                if (rel == "Lt" and not bi_.value) or (rel == "GtE" and bi_.value):
                    not_smaller.add(b)
    # nothing may fail between storing the new size and truncating: a raise in between leaves
    # more stored bytes than the size says (the caller may catch it and carry on)
    stores_sz = cfg.nodes_where(lambda n: isinstance(n, ast.Assign) and any(
        attr_path(t) in ((me, "_size"),) for t in n.targets)) | cfg.nodes_where(
        lambda n: isinstance(n, ast.Call) and attr_path(n.func) == ("setattr",))
    raises = cfg.nodes_where(lambda n: isinstance(n, ast.Raise))
    between = [r_ for r_ in raises for st_ in stores_sz
               if r_ in cfg.reachable(st_) and cfg.path_avoiding(st_, r_, cuts) is not None]
    chk.ob("R19.3", key + ":nothing-fails-between-store-and-truncation", not between,
           s.loc(cfg.info[between[0]].ast) if between else s.loc(),
           "the size setter can raise after the new size is stored and before the contents are truncated "
           "(%s): a caller that catches the error keeps an interval with more stored bytes than its size"
           % (unparse(cfg.info[between[0]].ast)[:50] if between else "-"), 2)
    wit = cfg.path_avoiding(cfg.entry, cfg.exit, cuts | not_smaller)
    chk.ob("R19.3", key + ":shrink-truncates-contents", bool(cuts) and wit is None, s.loc(),
           "a path through the size setter does not truncate contents when the new size is below "
           "the stored byte count (doc/general/ByteInterval.md requires it): %s"
           % (" -> ".join(cfg.describe_path(wit)) if wit else "no truncating write"), 3)
    # still notifies the section index
    problems = _notifying(chk, own, bi, "size", sec, 0)
    chk.ob("R19.3", key + ":still-notifies-section", not problems, s.loc(),
           "ByteInterval.size no longer notifies the section index: %s" % "; ".join(problems), 2)
    g = prop.getter
    if g is not None:
        chk.saw(g)
        rets = [r for r in walk_no_nested(g.node) if isinstance(r, ast.Return) and r.value is not None]
        stored = {attr_path(t)[1] for n in walk_no_nested(s.node) if isinstance(n, ast.Assign)
                  for t in n.targets if attr_path(t) and attr_path(t)[0] == me and len(attr_path(t)) == 2}
        ok = len(rets) == 1 and attr_path(rets[0].value) and attr_path(rets[0].value)[0] == g.self_name \
            and attr_path(rets[0].value)[1] in stored
        chk.ob("R19.3", key + ":getter-reads-what-setter-stores", ok, g.loc(),
               "the size getter must return the attribute the setter stores (%s)" % sorted(stored), 2)


def _block_views(chk: Check) -> None:
    repo = chk.repo
    bb = repo.cls("ByteBlock")
    # address
    p = bb.props.get("address")
    if p is None or p.getter is None:
        chk.ob("R19.4", "ByteBlock.address", False, bb.loc(), "vanished")
    else:
        g = p.getter
        chk.saw(g)
        me = g.self_name
        al = local_aliases(g.node)
        cfg = CFG(g.node)
        rets = [r for r in walk_no_nested(g.node) if isinstance(r, ast.Return) and r.value is not None
                and not (isinstance(r.value, ast.Constant) and r.value.value is None)]
        ok = len(rets) == 1
        if ok:
            l = _lin(rets[0].value, {k: v for k, v in al.items()})
            ok = l is not None and l[1] == 0 and l[0] == {"%s.byte_interval.address" % me: 1, "%s.offset" % me: 1}
        chk.ob("R19.4", "ByteBlock.address:value", ok, g.loc(),
               "ByteBlock.address must be self.byte_interval.address + self.offset, got %s"
               % (unparse(rets[0].value) if rets else "nothing"), 3)
        if rets:
            rn = cfg.node_of(rets[0])
            for path, what in (((me, "byte_interval"), "interval"), ((me, "byte_interval", "address"), "address")):
                nn = own_none(cfg, path, al, False)
                okg = bool(nn) and cfg.path_avoiding(cfg.entry, rn, nn) is None
                chk.ob("R19.4", "ByteBlock.address:none-without-%s" % what, okg, g.loc(),
                       "ByteBlock.address must be None when the %s is missing" % what, 2)
    # contents
    p = bb.props.get("contents")
    if p is None or p.getter is None:
        chk.ob("R19.4", "ByteBlock.contents", False, bb.loc(), "vanished")
    else:
        g = p.getter
        chk.saw(g)
        me = g.self_name
        al = local_aliases(g.node)
        rets = [r for r in walk_no_nested(g.node) if isinstance(r, ast.Return) and r.value is not None]
        sl = [r for r in rets if isinstance(r.value, ast.Subscript) and isinstance(r.value.slice, ast.Slice)]
        ok = len(sl) == 1
        if ok:
            v = sl[0].value
            lo = _lin(v.slice.lower, al) if v.slice.lower is not None else None
            hi = _lin(v.slice.upper, al) if v.slice.upper is not None else None
            base = expand_path(v.value, al)
            ok = base == (me, "byte_interval", "contents") and v.slice.step is None and \
                lo == ({"%s.offset" % me: 1}, 0) and hi == ({"%s.offset" % me: 1, "%s.size" % me: 1}, 0)
        chk.ob("R19.4", "ByteBlock.contents:slice", ok, g.loc(),
               "ByteBlock.contents must be byte_interval.contents[offset : offset + size], got %s"
               % (unparse(sl[0].value) if sl else "no slice"), 3)
        empties = [r for r in rets if isinstance(r.value, ast.Constant) and r.value.value == b""]
        cfg = CFG(g.node)
        okg = False
        if sl:
            nn = own_none(cfg, (me, "byte_interval"), al, False)
            okg = bool(nn) and cfg.path_avoiding(cfg.entry, cfg.node_of(sl[0]), nn) is None and bool(empties)
        chk.ob("R19.4", "ByteBlock.contents:empty-without-interval", okg, g.loc(),
               "ByteBlock.contents must be b'' for a block without an interval", 2)
    # contains_offset
    f = bb.methods.get("contains_offset")
    if f is None:
        chk.ob("R19.4", "ByteBlock.contains_offset", False, bb.loc(), "vanished")
    else:
        chk.saw(f)
        me = f.self_name
        x = f.param_names()[1]
        from ..summaries import Outside, Summary
        lower_incl = upper_excl = False
        got = "nothing"
        ok = False
        try:
            sm = Summary(f.node)
            dnf = sm.truthy_dnf()
            got = " or ".join("(" + " and ".join(
                "%s %s %s" % (unparse(a_) if a_ is not None else "", op, unparse(b_) if b_ is not None else "")
                for a_, op, b_ in sm.constraints(c)) + ")" for c in dnf) or "never true"
            if len(dnf) == 1:
                cons = sm.constraints(dnf[0])
                hi = ({"%s.offset" % me: 1, "%s.size" % me: 1}, 0)
                for a_, op, b_ in cons:
                    if a_ is None or b_ is None:
                        continue
                    la, lb = _lin(a_, {}), _lin(b_, {})
                    if la is None or lb is None:
                        continue
                    # facts are canonical: only  a < b  and  a <= b  occur for order comparisons
                    if la == ({"%s.offset" % me: 1}, 0) and lb == ({x: 1}, 0) and op == "LtE":
                        lower_incl = True
                    if la == ({x: 1}, 0) and lb == hi and op == "Lt":
                        upper_excl = True
                ok = lower_incl and upper_excl and len(cons) == 2
        except Outside as e:
            got = "outside the fragment: %s" % e
        chk.ob("R19.4", "ByteBlock.contains_offset:half-open-range", ok, f.loc(),
               "contains_offset must be true exactly when offset <= x < offset + size (the range the "
               "contents slice covers: lower bound inclusive, upper exclusive); it is true when %s" % got, 3)
    # the range members are the ones ByteBlock defines: a subclass that redefines one of them can
    # disagree with the range the others describe
    for sub_ in chk.repo.subclasses(bb):
        for nm_ in ("contains_offset", "contains_address", "address", "contents", "size", "offset"):
            redefined = nm_ in sub_.methods or nm_ in sub_.props or nm_ in getattr(sub_, "class_assigns", {})
            if redefined:
                where = sub_.methods.get(nm_) or (sub_.props[nm_].getter if nm_ in sub_.props else None)
                chk.ob("R19.4", "%s.%s:not-redefined" % (sub_.qualname, nm_), False,
                       where.loc() if where is not None else sub_.loc(),
                       "%s redefines %s: address, contents, contains_offset and contains_address must "
                       "describe one range [offset, offset + size), which only ByteBlock's own "
                       "definitions are shown to do" % (sub_.qualname, nm_), 2)
    # contains_address
    f = bb.methods.get("contains_address")
    if f is None:
        chk.ob("R19.4", "ByteBlock.contains_address", False, bb.loc(), "vanished")
    else:
        chk.saw(f)
        me = f.self_name
        x = f.param_names()[1]
        al = local_aliases(f.node)
        cfg = CFG(f.node)
        calls = [c for c in walk_no_nested(f.node) if isinstance(c, ast.Call)
                 and attr_path(c.func) == (me, "contains_offset") and len(c.args) == 1]
        ok = len(calls) == 1
        if ok:
            l = _lin(calls[0].args[0], al)
            ok = l is not None and l[1] == 0 and l[0] == {x: 1, "%s.byte_interval.address" % me: -1}
        chk.ob("R19.4", "ByteBlock.contains_address:delegates", ok, f.loc(),
               "contains_address must be contains_offset(address - interval address), got %s"
               % (unparse(calls[0]) if calls else "no delegation"), 3)
        if calls:
            cn = cfg.node_of(calls[0])
            for path, what in (((me, "byte_interval"), "interval"), ((me, "byte_interval", "address"), "address")):
                nn = own_none(cfg, path, al, False)
                okg = bool(nn) and cfg.path_avoiding(cfg.entry, cn, nn) is None
                chk.ob("R19.4", "ByteBlock.contains_address:false-without-%s" % what, okg, f.loc(),
                       "contains_address must be False when the %s is missing" % what, 2)
            rets = [r for r in walk_no_nested(f.node) if isinstance(r, ast.Return)]
            falls = [r for r in rets if isinstance(r.value, ast.Constant) and r.value.value is False]
            chk.ob("R19.4", "ByteBlock.contains_address:false-default", bool(falls), f.loc(),
                   "contains_address must return False (not None) for a block without an address", 1)


def _cmp_atoms(e: ast.AST) -> List[Tuple[ast.AST, str, ast.AST]]:
    out: List[Tuple[ast.AST, str, ast.AST]] = []
    if isinstance(e, ast.BoolOp) and isinstance(e.op, ast.And):
        for v in e.values:
            out.extend(_cmp_atoms(v))
    elif isinstance(e, ast.Compare):
        terms = [e.left] + list(e.comparators)
        for a, op, b in zip(terms, e.ops, terms[1:]):
            out.append((a, type(op).__name__, b))
    return out


def own_none(cfg: CFG, path: Tuple[str, ...], al: Dict[str, ast.AST], want_none: bool) -> Set[int]:
    out: Set[int] = set()
    for n, i in cfg.info.items():
        if i.kind != "test" or not isinstance(i.ast, ast.Compare) or len(i.ast.ops) != 1:
            continue
        c = i.ast
        if not isinstance(c.ops[0], (ast.Is, ast.IsNot)):
            continue
        if not (isinstance(c.comparators[0], ast.Constant) and c.comparators[0].value is None):
            continue
        if expand_path(c.left, al) != path:
            continue
        for s in cfg.g.successors(n):
            si = cfg.info[s]
            if si.kind == "branch":
                none_here = (si.value == isinstance(c.ops[0], ast.Is))
                if none_here == want_none:
                    out.add(s)
    return out
