"""Shared lookup/index facts for C05, C06, C12, C13."""
from __future__ import annotations

import ast
from typing import Any, Dict, List, Optional, Set, Tuple

from ..cfg import CFG
from ..model import (AnalysisError, ClassInfo, FuncInfo, Repo, attr_path, dotted, expand_path,
                     local_aliases, unparse, walk_no_nested)
from ..report import Check
from ..terms import OutsideFragment, function_term, show
from ..types import TypeEnv
from .ownership import Ownership, ownership


class TreeSite:
    """``self.<attr> = LazyIntervalTree[..](self.<values>, <make_interval>)``"""

    def __init__(self, owner: ClassInfo, attr: str, values: str, builder: str, node: ast.AST,
                 init: FuncInfo):
        self.owner = owner
        self.attr = attr
        self.values = values
        self.builder = builder
        self.node = node
        self.init = init


def tree_sites(repo: Repo) -> List[TreeSite]:
    out: List[TreeSite] = []
    for c in repo.classes.values():
        init = c.methods.get("__init__")
        if init is None:
            continue
        for n in walk_no_nested(init.node):
            if not isinstance(n, (ast.Assign, ast.AnnAssign)) or n.value is None:
                continue
            tg = n.targets[0] if isinstance(n, ast.Assign) else n.target
            v = n.value
            if not isinstance(v, ast.Call):
                continue
            fn = v.func.value if isinstance(v.func, ast.Subscript) else v.func
            d = dotted(fn)
            if not d or d[-1] != "LazyIntervalTree":
                continue
            p = attr_path(tg)
            if not p or len(p) != 2 or p[0] != init.self_name or len(v.args) != 2:
                raise AnalysisError("LazyIntervalTree construction in %s is outside the fragment" % c.qualname)
            vals = attr_path(v.args[0])
            b = attr_path(v.args[1])
            if not vals or vals[0] != init.self_name or len(vals) != 2 or not b:
                raise AnalysisError("LazyIntervalTree arguments in %s are outside the fragment" % c.qualname)
            out.append(TreeSite(c, p[1], vals[1], b[-1], n, init))
    return out


def util_function(repo: Repo, name: str) -> FuncInfo:
    return repo.function("util", name)


def builder_reads(f: FuncInfo) -> Set[str]:
    """attributes the interval builder reads from its argument"""
    p = f.param_names()[0]
    al = local_aliases(f.node)
    out: Set[str] = set()
    for n in walk_no_nested(f.node):
        if isinstance(n, ast.Attribute) and isinstance(n.value, ast.Name) and n.value.id == p:
            out.add(n.attr)
    return out


def builder_bias(f: FuncInfo) -> Optional[int]:
    """Interval(b, b + size + k, node): returns k (None if not of that shape)"""
    al = local_aliases(f.node)
    for n in walk_no_nested(f.node):
        if isinstance(n, ast.Call) and (dotted(n.func) or ("",))[-1] == "Interval" and len(n.args) >= 2:
            begin = _lin(n.args[0], al)
            end = _lin(n.args[1], al)
            if begin is None or end is None:
                return None
            diff = dict(end[0])
            for k, v in begin[0].items():
                diff[k] = diff.get(k, 0) - v
            diff = {k: v for k, v in diff.items() if v}
            sizes = [k for k in diff if k.endswith(".size") or k.endswith("size")]
            if len(diff) == 1 and sizes and diff[sizes[0]] == 1:
                return end[1] - begin[1]
            return None
    return None


def _lin(e: ast.AST, al: Dict[str, ast.AST], depth: int = 0) -> Optional[Tuple[Dict[str, int], int]]:
    """linear form {symbol: coeff}, const"""
    if depth > 6:
        return None
    if isinstance(e, ast.Constant) and isinstance(e.value, int):
        return {}, e.value
    if isinstance(e, ast.Name) and e.id in al:
        return _lin(al[e.id], al, depth + 1)
    if isinstance(e, (ast.Name, ast.Attribute)):
        p = expand_path(e, al)
        if p:
            return {".".join(p): 1}, 0
        return None
    if isinstance(e, ast.BinOp) and isinstance(e.op, (ast.Add, ast.Sub)):
        a = _lin(e.left, al, depth + 1)
        b = _lin(e.right, al, depth + 1)
        if a is None or b is None:
            return None
        sgn = 1 if isinstance(e.op, ast.Add) else -1
        d = dict(a[0])
        for k, v in b[0].items():
            d[k] = d.get(k, 0) + sgn * v
        return {k: v for k, v in d.items() if v}, a[1] + sgn * b[1]
    if isinstance(e, ast.UnaryOp) and isinstance(e.op, ast.USub):
        a = _lin(e.operand, al, depth + 1)
        if a is None:
            return None
        return {k: -v for k, v in a[0].items()}, -a[1]
    if isinstance(e, ast.Call):
        return {unparse(e): 1}, 0
    return None


def helper_kind(repo: Repo, name: str, depth: int = 0) -> Dict[str, Any]:
    """classify a util lookup helper by what its (transitive) body does:
    {'sel': 'on'|'at'|None, 'key': 'address'|'offset'|None, 'tree': bool}"""
    f = repo.module("util").functions.get(name)
    out: Dict[str, Any] = {"sel": None, "key": None, "tree": False, "chain": [name]}
    if f is None or depth > 3:
        return out
    on_by_cmp = False
    # the names that hold the normalised query range (whatever they are called)
    rng = {k for k, v in local_aliases(f.node).items()
           if isinstance(v, ast.Call) and attr_path(v.func) == ("get_desired_range",)}

    def mentions_range(e: ast.AST) -> bool:
        return any(isinstance(x, ast.Name) and x.id in rng for x in ast.walk(e)) or \
            any(isinstance(x, ast.Call) and attr_path(x.func) == ("get_desired_range",) for x in ast.walk(e))
    for n in walk_no_nested(f.node):
        if isinstance(n, ast.Name):
            if n.id == "_address_interval":
                out["key"] = "address"
            elif n.id == "_offset_interval":
                out["key"] = "offset"
        if isinstance(n, ast.Attribute) and n.attr == "overlap":
            out["tree"] = True
        if isinstance(n, ast.Compare) and any(isinstance(o, (ast.In, ast.NotIn)) for o in n.ops) \
                and mentions_range(n.comparators[0]):
            out["sel"] = "at"          # (which way round the test is used is scan_at's business)
        if isinstance(n, ast.Call) and attr_path(n.func) in (("max",), ("min",)):
            out["sel"] = out["sel"] or "on"
        if isinstance(n, ast.Attribute) and n.attr in ("end", "length"):
            out["sel"] = out["sel"] or "on"
        if isinstance(n, ast.Compare) and any(isinstance(o, (ast.Lt, ast.LtE, ast.Gt, ast.GtE)) for o in n.ops) \
                and mentions_range(n) and not any(isinstance(o, (ast.In, ast.NotIn)) for o in n.ops):
            on_by_cmp = True
        if isinstance(n, ast.Call):
            p = attr_path(n.func)
            if p and len(p) == 1 and p[0] != name and p[0] in repo.module("util").functions \
                    and p[0].startswith("_nodes"):
                sub = helper_kind(repo, p[0], depth + 1)
                out["sel"] = out["sel"] or sub["sel"]
                out["tree"] = out["tree"] or sub["tree"]
                out["chain"] += sub["chain"]
                if out["key"] is None:
                    out["key"] = sub["key"]
    if out["sel"] is None and on_by_cmp:
        out["sel"] = "on"
    return out


def method_suffix(name: str, stem: str) -> Optional[str]:
    """byte_blocks_on_offset -> ('on', True) encoded as 'on_offset'"""
    if not name.startswith(stem + "_"):
        return None
    s = name[len(stem) + 1:]
    return s if s in ("on", "at", "on_offset", "at_offset") else None


# ---------------------------------------------------------------------------
# rules shared by several properties (each property reports them under its own id)


def index_key_rule(chk: Check, site: TreeSite, own: Ownership, rule: str = "R05.1") -> None:
    """every stored attribute the interval builder reads is a notify-parent
    attribute whose parent getter resolves to the owner of this tree"""
    repo = chk.repo
    bf = util_function(repo, site.builder)
    chk.saw(bf)
    elems: List[ClassInfo] = []
    for rel in own.relations:
        if rel.owner is site.owner and site.values in rel.attrs:
            elems = rel.attrs[site.values]
    if not elems:
        chk.ob(rule, "%s.%s:values" % (site.owner.qualname, site.attr), False, site.init.loc(site.node),
               "the lazy tree of %s is built over self.%s, which is not an owning collection: "
               "rebuild and replay would index different objects" % (site.owner.qualname, site.values), 2)
        return
    chk.ob(rule, "%s.%s:values" % (site.owner.qualname, site.attr), True, site.init.loc(site.node),
           "tree over the owning collection self.%s" % site.values, 2)
    for E in elems:
        for a in sorted(builder_reads(bf)):
            problems = _notifying(chk, own, E, a, site.owner, 0)
            chk.ob(rule, "%s.%s:key(%s.%s)" % (site.owner.qualname, site.attr, E.qualname, a),
                   not problems, E.loc(),
                   "index key attribute %s.%s of the %s index can change without notifying the "
                   "owner: %s" % (E.qualname, a, site.owner.qualname, "; ".join(problems)), 3)


def _notifying(chk: Check, own: Ownership, E: ClassInfo, a: str, owner: ClassInfo, depth: int) -> List[str]:
    if depth > 4:
        return ["recursion"]
    ia = E.find_indexed(a)
    if ia is not None:
        pp = ia.parent_path
        if not pp:
            return ["%s: parent getter %s is not an attribute path of the instance"
                    % (a, unparse(ia.parent_expr))]
        cur: Optional[ClassInfo] = E
        for x in pp:
            ts = own.types.attr_types(cur, x) if cur else []
            cur = ts[0] if ts else None
        if cur is not owner:
            return ["%s notifies %s (via %s), not %s" % (a, cur.qualname if cur else "?", ".".join(pp),
                                                        owner.qualname)]
        return []
    prop = E.find_prop(a)
    if prop is not None and prop.getter is not None:
        chk.saw(prop.getter)
        me = prop.getter.self_name
        reads = {n.attr for n in walk_no_nested(prop.getter.node)
                 if isinstance(n, ast.Attribute) and isinstance(n.value, ast.Name) and n.value.id == me}
        out: List[str] = []
        for r in sorted(reads):
            if r == a:
                continue
            # stored field behind the property
            out.extend(_notifying(chk, own, E, r, owner, depth + 1))
        if prop.setter is not None:
            chk.saw(prop.setter)
            sme = prop.setter.self_name
            for n in walk_no_nested(prop.setter.node):
                if isinstance(n, (ast.Assign, ast.AugAssign, ast.AnnAssign)):
                    for t in (n.targets if isinstance(n, ast.Assign) else [n.target]):
                        p = attr_path(t)
                        if p and len(p) == 2 and p[0] == sme and E.find_indexed(p[1]) is None \
                                and p[1] in reads:
                            out.append("setter of %s stores %s directly" % (a, p[1]))
        return out
    # a stored attribute that is a declared descriptor's storage (``_size`` of ``size``)
    if a.startswith("_") and E.find_indexed(a[1:]) is not None:
        return _notifying(chk, own, E, a[1:], owner, depth + 1)
    return ["%s is a plain attribute (no notify-parent descriptor)" % a]


def notify_protocol(chk: Check, rule: str = "R05.2") -> None:
    """Descriptor.__set__: discard from the parent's index, store, add back"""
    repo = chk.repo
    d = repo.cls("_IndexedAttribute.Descriptor")
    f = d.methods.get("__set__")
    if f is None:
        chk.ob(rule, "_IndexedAttribute.Descriptor.__set__", False, d.loc(),
               "the notify-parent descriptor has no __set__: assignments bypass the indexes")
        return
    chk.saw(f)
    cfg = CFG(f.node)
    ps = f.param_names()
    inst = ps[1]

    def calls(name: str) -> Set[int]:
        return cfg.nodes_where(lambda n: isinstance(n, ast.Call) and isinstance(n.func, ast.Attribute)
                               and n.func.attr == name and len(n.args) == 1
                               and attr_path(n.args[0]) == (inst,))
    D = calls("_index_discard")
    A = calls("_index_add")
    S = cfg.nodes_where(lambda n: isinstance(n, ast.Call) and attr_path(n.func) == ("setattr",)
                        and len(n.args) == 3 and attr_path(n.args[0]) == (inst,))
    key = "_IndexedAttribute.Descriptor.__set__"
    chk.ob(rule, key + ":stores", len(S) == 1, f.loc(), "exactly one setattr(instance, ...) expected", 1)
    if len(S) != 1:
        return
    s = next(iter(S))
    # parent fetched through parent_getter(instance); falsy parent excuses
    falsy: Set[int] = set()
    parent_names = {t.id for a in walk_no_nested(f.node) if isinstance(a, ast.Assign)
                    and isinstance(a.value, ast.Call) and attr_path(a.value.func) == (f.self_name, "parent_getter")
                    for t in a.targets if isinstance(t, ast.Name)}
    for n, i in cfg.info.items():
        if i.kind == "test" and isinstance(i.ast, ast.Name) and i.ast.id in parent_names:
            for b in cfg.g.successors(n):
                if cfg.info[b].kind == "branch" and cfg.info[b].value is False:
                    falsy.add(b)
        if i.kind == "test" and isinstance(i.ast, ast.Compare) and len(i.ast.ops) == 1 and \
                isinstance(i.ast.ops[0], (ast.Is, ast.IsNot)) and isinstance(i.ast.left, ast.Name) \
                and i.ast.left.id in parent_names:
            for b in cfg.g.successors(n):
                if cfg.info[b].kind == "branch" and cfg.info[b].value == isinstance(i.ast.ops[0], ast.Is):
                    falsy.add(b)
    wit = cfg.path_avoiding(cfg.entry, s, D | falsy)
    chk.ob(rule, key + ":discard-before-store", wit is None, f.loc(),
           "the attribute is stored on a path that did not first discard the instance from its "
           "parent's index (the index keeps an entry under the old key): %s"
           % (" -> ".join(cfg.describe_path(wit)) if wit else "-"), 3)
    after = cfg.reachable(s)
    chk.ob(rule, key + ":discard-not-after-store", not (D & (after - {s})), f.loc(),
           "_index_discard runs after the new value is stored: it removes the wrong key", 2)
    wit = cfg.path_avoiding(s, cfg.exit, (A | falsy) - {s})
    a_before = [a for a in A if a not in after]
    chk.ob(rule, key + ":add-after-store", wit is None and not a_before, f.loc(),
           "after storing the attribute a path reaches the exit without adding the instance "
           "back to its parent's index (or adds it before the store): %s"
           % (" -> ".join(cfg.describe_path(wit)) if wit else "-"), 3)
    # between the discard and the re-add nothing may fail: an exception there leaves the instance
    # in its collection but out of the index (the attribute keeps its old value)
    between = set()
    for dn in D:
        between |= cfg.reachable(dn)
    fallible = []
    for n_, inf in cfg.info.items():
        if n_ in between and n_ not in D and n_ not in A and n_ != s and inf.ast is not None \
                and inf.kind in ("stmt", "test") and any(a_ in cfg.reachable(n_) for a_ in A):
            for c_ in (x for x in ast.walk(inf.ast) if isinstance(x, (ast.Call, ast.Raise, ast.Assert))):
                if isinstance(c_, ast.Call) and attr_path(c_.func) in ((f.self_name, "parent_getter"), ("setattr",)):
                    continue
                if isinstance(c_, ast.Call) and isinstance(c_.func, ast.Attribute) and \
                        c_.func.attr in ("_index_add", "_index_discard"):
                    continue
                fallible.append(c_)
    chk.ob(rule, key + ":nothing-fallible-between-discard-and-add", not fallible, f.loc(fallible[0]) if fallible else f.loc(),
           "between _index_discard and _index_add the descriptor runs %s: if that raises, the instance "
           "stays a member of its parent but is gone from the parent's index"
           % (unparse(fallible[0])[:50] if fallible else ""), 2)
    # the parent is obtained from the declared getter
    getter_calls = [n for n in walk_no_nested(f.node) if isinstance(n, ast.Call)
                    and attr_path(n.func) == (f.self_name, "parent_getter")]
    chk.ob(rule, key + ":parent-from-getter", len(getter_calls) >= 1, f.loc(),
           "the parent must be obtained from self.parent_getter(instance)", 1)
    dl = d.methods.get("__delete__")
    ok = dl is not None and any(isinstance(n, ast.Raise) for n in walk_no_nested(dl.node))
    chk.ob(rule, "_IndexedAttribute.Descriptor.__delete__:raises", ok, d.loc(),
           "deleting an indexed attribute must raise (the index would keep a dangling key)", 1)
    truthiness_safe(chk, rule)
    sn = d.methods.get("__set_name__")
    g = d.methods.get("__get__")
    ok = sn is not None and g is not None
    chk.ob(rule, "_IndexedAttribute.Descriptor:get/set_name", ok, d.loc(),
           "descriptor needs __get__ and __set_name__", 1)


def index_forwarders(chk: Check, site: TreeSite, rule: str = "R05.2") -> None:
    """owner._index_add/_index_discard(/_index_add_multiple) forward to the
    add/discard of the very tree the lookups read"""
    for nm, meth in (("_index_add", "add"), ("_index_discard", "discard")):
        f = site.owner.methods.get(nm)
        key = "%s.%s" % (site.owner.qualname, nm)
        if f is None:
            chk.ob(rule, key, False, site.owner.loc(), "%s vanished" % key)
            continue
        chk.saw(f)
        cfg = CFG(f.node)
        arg = f.param_names()[1]
        hits = cfg.nodes_where(lambda n: isinstance(n, ast.Call) and
                               attr_path(n.func) == (f.self_name, site.attr, meth) and
                               len(n.args) == 1 and attr_path(n.args[0]) == (arg,))
        wit = cfg.path_avoiding(cfg.entry, cfg.exit, hits)
        chk.ob(rule, key + ":forwards", wit is None, f.loc(),
               "%s does not forward to self.%s.%s(<arg>) on every path" % (key, site.attr, meth), 2)
    f = site.owner.methods.get("_index_add_multiple")
    if f is not None:
        chk.saw(f)
        ps = f.param_names()
        ok = False
        for n in walk_no_nested(f.node):
            if isinstance(n, ast.For) and isinstance(n.iter, ast.Name) and n.iter.id == ps[-1] \
                    and isinstance(n.target, ast.Name):
                v = n.target.id
                ok = any(isinstance(c, ast.Call) and attr_path(c.func) == (f.self_name, site.attr, "add")
                         and len(c.args) == 1 and attr_path(c.args[0]) == (v,) for c in ast.walk(n)) \
                    and not any(isinstance(s, (ast.If, ast.Break, ast.Continue)) for s in ast.walk(n))
        chk.ob(rule, "%s._index_add_multiple:forwards" % site.owner.qualname, ok, f.loc(),
               "_index_add_multiple must add every new item to self.%s" % site.attr, 2)


def who_reads_tree(chk: Check, site: TreeSite, allowed: Set[str], rule: str) -> int:
    n = 0
    for f in chk.repo.all_functions():
        for a in walk_no_nested(f.node):
            if isinstance(a, ast.Attribute) and a.attr == site.attr and \
                    (f.cls is site.owner or attr_path(a.value) not in ((f.self_name,),)):
                if f.cls is not site.owner and f.cls is not None and \
                        f.cls.qualname == "LazyIntervalTree":
                    continue
                if site.attr == "_interval_index" and f.cls is not None and f.cls.name == "LazyIntervalTree":
                    continue
                n += 1
                ok = f.cls is site.owner and attr_path(a.value) == (f.self_name,)
                chk.ob(rule, "%s:touches(%s)" % (f.qualname, site.attr), ok, f.loc(a),
                       "%s reaches into %s.%s from outside the owning class" %
                       (f.qualname, site.owner.qualname, site.attr), 1)
    return n


def tree_lookup(chk: Check, f: FuncInfo, site: TreeSite, sel: str, key: str, adjusted: bool,
                rule: str) -> None:
    """f returns helper(self.<tree>.get(), <param>[, -self.address]) with the
    helper of the same kind; address variants are empty without an address"""
    chk.saw(f)
    k = f.qualname
    if sel == "at":
        # however it is written, an 'at' lookup cannot be derived from an 'on' lookup: 'on' drops
        # zero-sized members, which 'at' must report
        on_calls = [c for c in walk_no_nested(f.node) if isinstance(c, ast.Call) and isinstance(c.func, ast.Attribute)
                    and (c.func.attr.endswith("_on") or c.func.attr.endswith("_on_offset") or c.func.attr == "nodes_on")]
        on_calls += [c for c in walk_no_nested(f.node) if isinstance(c, ast.Call) and isinstance(c.func, ast.Name)
                     and ("_on_" in c.func.id or c.func.id.endswith("_on"))]
        chk.ob(rule, k + ":at-not-from-on", not on_calls, f.loc(on_calls[0]) if on_calls else f.loc(),
               "%s answers an 'at' query through an 'on' lookup (%s): 'on' selects only members of non-zero "
               "size, so zero-sized members whose address is in the range are lost"
               % (k, unparse(on_calls[0].func) if on_calls else ""), 2)
    try:
        t = function_term(f)
    except OutsideFragment as e:
        # a lookup rewritten as a plain scan is outside this rule, not a violation
        chk.ob(rule, k + ":index-lookup", True, f.loc(), "not an index lookup (%s)" % e, 0)
        return
    guards: Tuple = ()
    if t[0] == "guard":
        guards, t = t[1], t[2]
    if t[0] == "call" and t[1][0] == "attr" and t[1][1] == ("self",) and t[1][2].endswith("_offset") \
            and adjusted and len(t[2]) == 1:
        _pure_shift(chk, f, t, guards, rule)
        return
    if not (t[0] == "call" and t[1][0] == "name"):
        chk.ob(rule, k + ":index-lookup", True, f.loc(), "not a helper call: %s" % show(t), 0)
        return
    hk = helper_kind(chk.repo, t[1][1])
    if not hk["tree"]:
        chk.ob(rule, k + ":index-lookup", True, f.loc(), "helper does not search a tree", 0)
        return
    # an exit in front of the search ("nothing can match") must imply an empty answer
    for c_, v_ in guards:
        if adjusted and c_ == ("cmp", "Is", ("attr", ("self",), "address"), ("none",)) and v_ == ("empty",):
            continue
        verdict, why = _judge_guard(c_, sel, adjusted, f.param_names()[1]) if v_ == ("empty",) else (None, "returns %s" % show(v_))
        chk.ob(rule, k + ":exit-before-search-implies-empty-answer", verdict is True, f.loc(),
               "%s leaves before searching its index under a condition that does not imply an empty answer: %s"
               % (k, why), 3, undecided=verdict is None)
    kw0 = dict(t[3]) if len(t) > 3 else {}
    if hk["key"] is None:
        # the implementation called directly: the key space is the getter it is handed
        for gk in ("interval_getter", "bounds_getter"):
            gv = kw0.get(gk)
            if isinstance(gv, tuple) and gv[0] == "name":
                hk = dict(hk, key={"_address_interval": "address", "_offset_interval": "offset"}.get(gv[1]))
    args = t[2]
    param = f.param_names()[1]
    want_tree = ("call", ("attr", ("attr", ("self",), site.attr), "get"), ())
    ok_tree = len(args) >= 1 and args[0] == want_tree
    chk.ob(rule, k + ":fresh-tree", ok_tree, f.loc(),
           "%s must search the tree returned by self.%s.get() in the same call (never a cached "
           "one); it passes %s" % (k, site.attr, show(args[0]) if args else "nothing"), 2)
    ok_arg = len(args) >= 2 and args[1] == ("param", param)
    chk.ob(rule, k + ":query-argument", ok_arg, f.loc(),
           "%s must pass its own query argument on unchanged" % k, 1)
    chk.ob(rule, k + ":helper-kind", hk["sel"] == sel and hk["key"] == key, f.loc(),
           "%s is a '%s' lookup by %s but calls %s, which selects '%s' by %s"
           % (k, sel, key, t[1][1], hk["sel"], hk["key"]), 3)
    if adjusted:
        want_adj = ("neg", ("attr", ("self",), "address"))
        kw = dict(t[3]) if len(t) > 3 else {}
        adj = args[2] if len(args) > 2 else kw.get("adjustment")
        chk.ob(rule, k + ":adjustment", adj == want_adj, f.loc(),
               "%s searches an offset-keyed tree with addresses: the query must be shifted by "
               "-self.address, got %s" % (k, show(adj) if adj else "no adjustment"), 2)
        g_ok = any(c == ("cmp", "Is", ("attr", ("self",), "address"), ("none",)) and v == ("empty",)
                   for c, v in guards)
        chk.ob(rule, k + ":no-address-guard", g_ok, f.loc(),
               "%s must return nothing when self.address is None" % k, 2)
    else:
        extra = args[2:] if len(args) > 2 else ()
        kw = dict(t[3]) if len(t) > 3 else {}
        zero = kw.get("adjustment") in (("const", 0), ("num", 0), ("int", 0), 0)
        chk.ob(rule, k + ":no-adjustment", not extra and ("adjustment" not in kw or zero), f.loc(),
               "%s must not shift its query" % k, 1)


def _judge_guard(c: tuple, sel: str, adjusted: bool, param: str) -> Tuple[Optional[bool], str]:
    """does the condition imply that a lookup over the owner's members finds nothing?  The owner's
    extent is [self.address, self.address + self.size] (members of size zero may sit at the very
    end, where an 'at' query still finds them).  True sound, False unsound, None not understood."""
    if c[0] == "bool" and c[1] == "Or":
        vs = [_judge_guard(x, sel, adjusted, param) for x in c[2]]
        bad = [v for v in vs if v[0] is False]
        unk = [v for v in vs if v[0] is None]
        return (False, bad[0][1]) if bad else (None, unk[0][1]) if unk else (True, "")
    if c[0] == "bool" and c[1] == "And":
        # (tests that something is known - 'x is not None' - neither help nor hurt)
        rest = [x for x in c[2] if not (x[0] == "cmp" and x[1] == "IsNot" and x[3] == ("none",))]
        if not rest:
            return False, show(c)
        vs = [_judge_guard(x, sel, adjusted, param) for x in rest]
        if any(v[0] is True for v in vs):
            return True, ""
        unk = [v for v in vs if v[0] is None]
        return (None, unk[0][1]) if unk else (False, vs[0][1])
    if c[0] == "not":
        return None, show(c)
    if not adjusted and c == ("cmp", "Is", ("attr", ("self",), "address"), ("none",)):
        return False, "self.address is None whenever one member has no address: the others are still to be found"
    if c[0] == "cmp" and c[1] == "IsNot" and c[3] == ("none",) and not adjusted:
        return False, "%s says nothing about where the members are" % show(c)
    if c[0] != "cmp" or c[1] not in ("Lt", "LtE", "Gt", "GtE") or adjusted:
        return None, show(c)

    class Out(Exception):
        pass

    def lin(t: tuple) -> Tuple[Dict[str, int], int]:
        if t[0] in ("const", "num", "int") and isinstance(t[1], int) and not isinstance(t[1], bool):
            return {}, t[1]
        if t == ("attr", ("self",), "address"):
            return {"ADDR": 1}, 0
        if t == ("attr", ("self",), "size"):
            return {"SIZE": 1}, 0
        if t[0] == "attr" and t[2] in ("start", "stop") and t[1] in (
                ("call", ("name", "get_desired_range"), (("param", param),)), ("param", param)):
            return {t[2].upper(): 1}, 0
        if t[0] == "binop" and t[1] in ("Add", "Sub"):
            a, b = lin(t[2]), lin(t[3])
            sg = 1 if t[1] == "Add" else -1
            d = dict(a[0])
            for k_, v_ in b[0].items():
                d[k_] = d.get(k_, 0) + sg * v_
            return {k_: v_ for k_, v_ in d.items() if v_}, a[1] + sg * b[1]
        raise Out()
    try:
        l_, r_ = lin(c[2]), lin(c[3])
    except Out:
        return None, show(c)
    d = dict(l_[0])
    for k_, v_ in r_[0].items():
        d[k_] = d.get(k_, 0) - v_
    d = {k_: v_ for k_, v_ in d.items() if v_}
    k0 = l_[1] - r_[1]
    op = c[1]
    flip = {"Lt": "Gt", "LtE": "GtE", "Gt": "Lt", "GtE": "LtE"}
    q = "START" if "START" in d else "STOP" if "STOP" in d else None
    if q is None:
        return None, show(c)
    if d[q] == -1:
        d, k0, op = {k_: -v_ for k_, v_ in d.items()}, -k0, flip[op]
    if q == "STOP" and d == {"STOP": 1, "ADDR": -1} and op in ("LtE", "Lt"):
        cc = -k0 if op == "LtE" else -k0 - 1           # STOP <= ADDR + cc
        return cc <= 0, "STOP <= self.address %+d (an empty answer needs +0 or less)" % cc
    if q == "START" and d == {"START": 1, "ADDR": -1, "SIZE": -1} and op in ("GtE", "Gt"):
        cc = -k0 if op == "GtE" else -k0 + 1           # START >= ADDR + SIZE + cc
        need = 1 if sel == "at" else 0
        return cc >= need, "START >= self.address + self.size %+d (an empty answer needs %+d or more: a member " \
                           "of size zero may sit at the very end)" % (cc, need)
    return None, show(c)


def delegation(chk: Check, cls: ClassInfo, name: str, over_ok: List[tuple], rule: str,
               callee: Optional[str] = None) -> None:
    """cls.name(param) == U{ child.<callee or name>(param) | child in <over> }"""
    f = cls.methods.get(name)
    key = "%s.%s" % (cls.qualname, name)
    if f is None:
        chk.ob(rule, key, False, cls.loc(), "%s vanished" % key)
        return
    chk.saw(f)
    callee = callee or name
    def keyed_collection() -> bool:
        # results gathered in a mapping keyed by something other than the result itself: results
        # with equal keys collapse into one
        keyed = [x for x in walk_no_nested(f.node) if isinstance(x, ast.DictComp) or (
            isinstance(x, ast.Call) and (dotted(x.func) or ("",))[-1] in (
                "dict", "SortedDict", "OrderedDict", "defaultdict", "SortedKeyList", "groupby"))]
        if keyed:
            chk.ob(rule, key + ":delegates", False, f.loc(keyed[0]),
                   "%s collects its candidates in a keyed collection (%s): results whose keys are equal "
                   "collapse into one, so the union over the children loses results"
                   % (key, unparse(keyed[0])[:60]), 2)
        return bool(keyed)
    try:
        t = function_term(f)
    except OutsideFragment as e:
        if keyed_collection():
            return
        chk.ob(rule, key + ":delegates", False, f.loc(), "%s is not a union over children (%s)" % (key, e),
               undecided=True)
        return
    if t[0] != "union" and keyed_collection():
        return
    param = f.param_names()[1]
    ok = False
    why = show(t)
    if t[0] == "union":
        over, v, body = t[1], t[2], t[3]
        want_body = ("call", ("attr", ("var", v), callee), (("param", param),))
        over_param = [tuple(("param", param) if x == "$param" else x for x in o) if isinstance(o, tuple) else o
                      for o in over_ok]
        ok = body == want_body and any(_subst(o, param) == over for o in over_ok)
        if body != want_body:
            why = "each child is asked %s instead of .%s(%s)" % (show(body), callee, param)
        elif not ok:
            why = "iterates %s" % show(over)
    chk.ob(rule, key + ":delegates", ok, f.loc(),
           "%s must be the union over its children of the same lookup with the same argument: %s"
           % (key, why), 3, undecided=(t[0] != "union"))


def _subst(o: Any, param: str) -> Any:
    if isinstance(o, tuple):
        return tuple(_subst(x, param) for x in o)
    if o == "$param":
        return ("param", param)
    return o


def kind_filter(chk: Check, cls: ClassInfo, name: str, base: str, klass: str, rule: str,
                also_delegation: Optional[List[tuple]] = None) -> None:
    """cls.name(param) == [ self.base(param) : klass ]"""
    f = cls.methods.get(name)
    key = "%s.%s" % (cls.qualname, name)
    if f is None:
        chk.ob(rule, key, False, cls.loc(), "%s vanished" % key)
        return
    chk.saw(f)
    try:
        t = function_term(f)
    except OutsideFragment as e:
        chk.ob(rule, key + ":filters", False, f.loc(), "%s is outside the fragment (%s)" % (key, e),
               undecided=True)
        return
    param = f.param_names()[1]
    want = ("filter", ("call", ("attr", ("self",), base), (("param", param),)), klass)
    ok = t == want
    if not ok and also_delegation is not None and t[0] == "union":
        delegation(chk, cls, name, also_delegation, rule)
        return
    chk.ob(rule, key + ":filters", ok, f.loc(),
           "%s must be exactly the %s instances of self.%s(%s); it is %s"
           % (key, klass, base, param, show(t)), 3, undecided=(t[0] != "filter"))


def bias_consumers(chk: Check, rule: str, modules: List[str]) -> None:
    """every use of .end / .length() / .span() of an interval or tree built by
    the biased builders subtracts the same bias; .begin is used unbiased"""
    repo = chk.repo
    biases = {}
    for b in ("_address_interval", "_offset_interval"):
        f = util_function(repo, b)
        chk.saw(f)
        k = builder_bias(f)
        biases[b] = k
        if b == "_address_interval":
            cfgb = CFG(f.node)
            alb = local_aliases(f.node)
            mk = cfgb.nodes_where(lambda n: isinstance(n, ast.Call) and (dotted(n.func) or ("",))[-1] == "Interval")
            known: Set[int] = set()
            for tn, i in cfgb.info.items():
                if i.kind == "test" and isinstance(i.ast, ast.Compare) and len(i.ast.ops) == 1 and \
                        isinstance(i.ast.ops[0], (ast.Is, ast.IsNot)) and \
                        (expand_path(i.ast.left, alb) or ("",))[-1] == "address":
                    for bn in cfgb.g.successors(tn):
                        bi = cfgb.info[bn]
                        if bi.kind == "branch" and bi.value == isinstance(i.ast.ops[0], ast.IsNot):
                            known.add(bn)
            okn = bool(known) and bool(mk) and all(cfgb.path_avoiding(cfgb.entry, m_, known) is None for m_ in mk)
            none_ret = any(isinstance(r, ast.Return) and (r.value is None or (
                isinstance(r.value, ast.Constant) and r.value.value is None)) for r in walk_no_nested(f.node))
            chk.ob(rule, "%s:only-addressed-nodes" % b, okn and none_ret, f.loc(),
                   "%s must build an interval exactly for nodes whose address is not None and return "
                   "None for the others" % b, 2)
        chk.ob(rule, "%s:closed-interval" % b, k == 1, f.loc(),
               "%s must encode the closed range [b, b+size] as Interval(b, b+size+1); its bias is %r "
               "(zero-sized nodes would vanish from the tree, or ranges would be one too long)" % (b, k), 3)
    n = 0
    for mn in modules:
        m = repo.module(mn)
        for f in list(m.functions.values()) + [g for c in m.classes.values() for g in c.methods.values()] + \
                [p.getter for c in m.classes.values() for p in c.props.values() if p.getter]:
            for a in walk_no_nested(f.node):
                what = None
                node: ast.AST = a
                if isinstance(a, ast.Attribute) and a.attr == "end" and isinstance(a.ctx, ast.Load):
                    what = "end"
                elif isinstance(a, ast.Call) and isinstance(a.func, ast.Attribute) and \
                        a.func.attr in ("length", "span") and not a.args:
                    what = a.func.attr
                if what is None:
                    continue
                par = getattr(node, "_parent", None)
                if isinstance(par, ast.Attribute) and what == "end":
                    continue
                if what == "end" and isinstance(par, ast.Call) and par.func is node:
                    continue
                n += 1
                chk.saw(f)
                ok = isinstance(par, ast.BinOp) and isinstance(par.op, ast.Sub) and par.left is node \
                    and isinstance(par.right, ast.Constant) and par.right.value == 1
                chk.ob(rule, "%s:unbias(%s)" % (f.qualname, what), ok, f.loc(a),
                       "%s uses .%s of a closed-interval encoding without subtracting the +1 bias "
                       "(%s)" % (f.qualname, what, unparse(par)[:40] if par is not None else "?"), 2)
    chk.floor(rule, "consumers of biased interval ends", n, 2)


def truthiness_safe(chk: Check, rule: str) -> None:
    """The package tests model objects by truthiness (``if parent:``, ``if node.referent:``,
    ``if not self.module:``, ``if not element:``).  No class of the Node hierarchy may
    therefore define __bool__ or __len__: an instance that becomes falsy (size 0, empty)
    silently skips index maintenance / lookups."""
    repo = chk.repo
    node = repo.cls("Node")
    n = 0
    for c in [node] + repo.subclasses(node):
        for nm in ("__bool__", "__len__"):
            n += 1
            chk.ob(rule, "%s.%s:absent" % (c.qualname, nm), nm not in c.methods and nm not in c.class_assigns,
                   c.loc(c.methods[nm].node) if nm in c.methods else c.loc(),
                   "%s defines %s: instances can be falsy, and the package decides 'has a parent / has "
                   "a referent / was found' by truthiness (notify-parent descriptor, symbol index, "
                   "Block.references, Offset decoding)" % (c.qualname, nm), 1)
    chk.extra["truthiness_tested_classes"] = n


def _term_lin(t: tuple) -> Optional[Tuple[Dict[str, int], int]]:
    k = t[0]
    if k == "const" and isinstance(t[1], int):
        return {}, t[1]
    if k in ("attr", "param", "name", "var"):
        return {show(t): 1}, 0
    if k == "call" and t[1] == ("name", "get_desired_range") and len(t[2]) == 1:
        return _term_lin(t[2][0])
    if k == "neg":
        a = _term_lin(t[1])
        return None if a is None else ({x: -v for x, v in a[0].items()}, -a[1])
    if k == "binop" and t[1] in ("Add", "Sub"):
        a, b = _term_lin(t[2]), _term_lin(t[3])
        if a is None or b is None:
            return None
        s = 1 if t[1] == "Add" else -1
        d = dict(a[0])
        for x, v in b[0].items():
            d[x] = d.get(x, 0) + s * v
        return {x: v for x, v in d.items() if v}, a[1] + s * b[1]
    return None


def _norm_range_attr(t: tuple) -> tuple:
    """get_desired_range(addrs).start -> addrs.start"""
    if t[0] == "attr" and t[1][0] == "call" and t[1][1] == ("name", "get_desired_range"):
        return ("attr", t[1][2][0], t[2])
    if isinstance(t, tuple):
        return tuple(_norm_range_attr(x) if isinstance(x, tuple) else x for x in t)
    return t


def _pure_shift(chk: Check, f: FuncInfo, t: tuple, guards: Tuple, rule: str) -> None:
    """self.<lookup>_offset(ARG): ARG must be the query shifted by -self.address, nothing else"""
    k = f.qualname
    sib = t[1][2]
    want_sib = f.name + "_offset"
    chk.ob(rule, k + ":delegates-to-own-offset-variant", sib == want_sib, f.loc(),
           "%s delegates to %s; the offset variant of the same lookup is %s" % (k, sib, want_sib), 2)
    arg = t[2][0]
    # resolve a helper method of the same class
    param = f.param_names()[1]
    if arg[0] == "call" and arg[1][0] == "attr" and arg[1][1] == ("self",) and f.cls is not None:
        h = f.cls.find_method(arg[1][2])
        if h is not None and len(arg[2]) == 1 and arg[2][0] == ("param", param):
            chk.saw(h)
            try:
                ht = function_term(h)
                if ht[0] == "guard":
                    ht = ht[2]
                # rename the helper's parameter to ours
                hp = h.param_names()[1]

                def ren(x):
                    if x == ("param", hp):
                        return ("param", param)
                    if isinstance(x, tuple):
                        return tuple(ren(y) for y in x)
                    return x
                arg = ren(ht)
            except OutsideFragment:
                pass
    arg = _norm_range_attr(arg)
    ok = False
    why = show(arg)
    if arg[0] == "call" and arg[1] == ("name", "range") and len(arg[2]) in (2, 3):
        lo, hi = _term_lin(arg[2][0]), _term_lin(arg[2][1])
        step_ok = len(arg[2]) == 2 or arg[2][2] == ("attr", ("param", param), "step")
        ok = lo == ({"%s.start" % param: 1, "self.address": -1}, 0) and \
            hi == ({"%s.stop" % param: 1, "self.address": -1}, 0) and step_ok and len(arg[2]) == 3
        if lo is None or hi is None:
            why = "a bound is not a linear shift (clamped or otherwise transformed): " + show(arg)
    chk.ob(rule, k + ":query-translated-by-pure-shift", ok, f.loc(),
           "%s answers an address query through the offset lookup; the query must be translated to "
           "range(start - address, stop - address, step) and nothing else (a clamp changes which "
           "members a stepped range has): %s" % (k, why), 3)
    g_ok = any(c == ("cmp", "Is", ("attr", ("self",), "address"), ("none",)) and v == ("empty",)
               for c, v in guards)
    chk.ob(rule, k + ":no-address-guard", g_ok, f.loc(),
           "%s must return nothing when self.address is None" % k, 2)
