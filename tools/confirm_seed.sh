#!/bin/sh
# usage: confirm_seed.sh <patch.diff> <demo.py>
# Confirms in a scratch worktree: (1) repo tests pass with the change (run against the changed
# sources), (2) demo fails with the change, (3) demo passes without it.  Prints one line.
PATCH=$(readlink -f "$1"); DEMO=$(readlink -f "$2")
WT=$(mktemp -d /tmp/wt-conf-XXXXXX); PK=$(mktemp -d /tmp/pk-conf-XXXXXX)
git -C /repo worktree add -q --detach "$WT" HEAD
build() { rm -rf "$PK/gtirb"; cp -r "$WT/python/gtirb" "$PK/gtirb"; cp /venv/lib/python3.12/site-packages/gtirb/proto/*_pb2.py "$PK/gtirb/proto/"; cp /venv/lib/python3.12/site-packages/gtirb/version.py "$PK/gtirb/"; }
build; (cd "$WT" && PYTHONPATH="$PK" timeout 120 /venv/bin/python "$DEMO" >/dev/null 2>&1); clean=$?
git -C "$WT" apply "$PATCH" || { echo "APPLY-FAILED"; exit 2; }
build
tests=$(cd "$WT" && PYTHONPATH="$PK" /venv/bin/python -m pytest -q -p no:cacheprovider python/tests 2>&1 | tail -1)
(cd "$WT" && PYTHONPATH="$PK" timeout 120 /venv/bin/python "$DEMO" >/dev/null 2>&1); mut=$?
echo "demo_clean_rc=$clean demo_mutated_rc=$mut tests='$tests'"
git -C /repo worktree remove --force "$WT"; rm -rf "$PK"
