#!/venv/bin/python
"""Regenerate /verif/MANIFEST.json from the table below (single source)."""
import json
import subprocess
from pathlib import Path

VERIF = Path(__file__).resolve().parent.parent

# property -> (technique, level text, level note, design ref)
BUILT = {
    "C03": ("who-may-write + CFG must-pass-through pairing over the UUID-table primitives",
            "Structural: the per-IR UUID table is touched only by a closed set of primitives, each "
            "of which updates table, back-pointer and store together on every path (guard-aware); "
            "cache methods recurse into exactly the owning collections; every decoder registers "
            "what it returns. Covers every history at once; does not establish the lookup result "
            "for a particular history.",
            "Python semantics of the handled statement kinds; no reflection on model objects; "
            "UUIDs never change while attached (the property's quantifier).", "4/C03"),
    "C04": ("who-may-write, pairing on the CFG, sibling agreement of parent setters, term "
            "normalisation of accessors/aggregates against the derived containment relation",
            "Structural: back-pointers and stores are written only by the owning collections' "
            "primitives, each paired on all paths; the six parent setters delegate to the right "
            "collection; derived accessors and aggregate iterators expand to exactly the "
            "containment chain/paths; constructor arguments are copied; identity semantics kept.",
            "As C03; list-wrapper re-entrancy defects are reported under C16.", "4/C04"),
    "C16": ("contract check of collections.abc mixins (parsed from the interpreter's "
            "_collections_abc.py) against the wrapper classes; hook/validation ordering on the "
            "CFG; re-entrancy through resolved callees",
            "Structural: the documented subclass contracts of the abc mixins (_from_iterable, "
            "abstract methods, primitives) are met by every collection class; variadic update "
            "iterates its arguments; non-mutating operators neither alias nor mutate the store; "
            "ListWrapper hooks do not run before validation and no position survives a "
            "re-entrant hook (three known findings on the pinned tree, see known_findings.txt). "
            "Return values/exception types of each operation vs the built-in are not decided.",
            "collections.abc semantics as in the running interpreter's source; builtin "
            "list/set/dict/SortedDict semantics.", "4/C16"),
    "C07": ("wire-shape abstraction of every codec's encode/decode body (syntax-directed walk) "
            "and comparison of the two directions; count-prefix pairing; parameter tables",
            "Structural: for each of the 11 codec bodies the decoder's wire-shape term equals the "
            "encoder's; every count prefix measures exactly what is written/iterated after it; "
            "integer/float parameter tables and the codec table are consistent; get_by_uuid is "
            "forwarded down every recursive decode; UUIDCodec resolves nodes. Value equality "
            "itself rests on int.to_bytes/struct and is not decided.",
            "int.to_bytes/from_bytes, struct, str.encode semantics; well-formed input (the "
            "property's quantifier).", "4/C07"),
    "C08": ("encoder wire-shape terms compared with a frozen reference table transcribed from "
            "include/gtirb/AuxData.hpp; anchor scan of C++/Java type names",
            "Structural: the wire shape of each of the 20 type-name heads (both directions, class "
            "constants substituted, delegations flattened) equals the reference transcribed from "
            "the documented format (widths, little-endian, IEEE, byte-counted UTF-8 strings, "
            "uint64 counts and variant index, field order); C++/Java type names are all offered. "
            "Cross-decoding by the Java/C++ implementations is NOT decided (would need executing "
            "or modelling them).",
            "the reference table is a transcription (one line per wire type, each citing its "
            "trait); Java/C++ sources are scanned for anchors only.", "4/C08"),
    "C01": ("persisted-state agreement between constructors, writers and readers; boolean-"
            "context (falsy-drop) scan over all writer/reader functions; whole-map AuxData transfer",
            "Structural: every constructor-declared state attribute of the 11 persisted classes is "
            "read by a writer and re-established by a reader (type-resolved receivers); no integer/"
            "string scalar decides presence by truthiness; AuxData maps travel unfiltered. Together "
            "with C02 (field/name/kind agreement) nothing can be dropped on the way out or in. "
            "Round-trip VALUE equality, construction-order independence and byte-identical re-save "
            "are not decided.",
            "constructors declare the persisted state; protobuf runtime fidelity.", "4/C01"),
    "C02": ("schema-typed dataflow over _pb2 message objects: every field read/write attributed to "
            "(Message, field) and compared with proto/*.proto per direction; enum mirror; header "
            "constant folding",
            "Structural: all 62 reachable schema fields are written and read; each written value "
            "derives from the attribute the field mirrors, with the right kind (uuid bytes, enum "
            ".value, presence flags from 'is None'); each read flows to the mirrored constructor "
            "keyword/attribute; the 7 Python enums are bijective with the schema's 102 constants; "
            "header layout matches PROTOBUF.md and version.txt. Each direction is checked against "
            "the schema on its own. Behaviour under the upb vs pure-Python back-ends is not decided.",
            "proto/*.proto is the schema the _pb2 modules are generated from (they are build "
            "products absent from the tree).", "4/C02"),
}

REASON_PENDING = "check not built yet (construction phase); planned, see DESIGN.md section 4"


def main() -> None:
    props = [json.loads(l)["id"] for l in (VERIF / "properties.jsonl").read_text().splitlines() if l.strip()]
    try:
        fixes = subprocess.run(
            ["git", "-C", "/repo", "log", "--format=%H %s"], capture_output=True, text=True
        ).stdout.splitlines()
        fix_commits = [l.split()[0] for l in fixes if l.split(" ", 1)[1].startswith("fix:")]
    except Exception:
        fix_commits = []
    checks = []
    for p in props:
        if p not in BUILT:
            continue
        tech, text, note, ref = BUILT[p]
        checks.append({
            "property_id": p,
            "quick_cmd": "/venv/bin/python -m gtirb_static check %s" % p,
            "thorough_cmd": "/venv/bin/python -m gtirb_static check %s --tier thorough" % p,
            "evidence_file": "/verif/evidence/%s.json" % p,
            "replay_cmd_template": "/venv/bin/python -m gtirb_static replay {path}",
            "engine": "gtirb_static",
            "level_claimed": {"category": "other", "text": text, "design_ref": "DESIGN.md " + ref},
            "level_note": note,
            "technique": "static analysis: " + tech,
        })
    m = {
        "version": 1,
        "setup_cmd": "/venv/bin/python -m gtirb_static selfcheck",
        "hooks": {
            "guard": "GTIRB_VERIF",
            "enable": "none needed: the checks read /repo sources with ast; no instrumentation exists",
            "baseline_off_cmd": "cd /repo && /venv/bin/python -m pytest -ra -q -p no:cacheprovider "
                                "--timeout=900 --continue-on-collection-errors",
            "source_commits": list(reversed(fix_commits)),
            "add_only": True,
        },
        "engines": [{
            "name": "gtirb_static",
            "path": "/verif/gtirb_static",
            "serves_properties": sorted(BUILT),
            "kind_free_text": "repository-specific static analyser over Python ast: class/MRO model "
                              "incl. collections.abc mixins, statement CFG with dominators "
                              "(networkx), proto3 schema parser, schema-typed dataflow, term "
                              "normalisation, wire-shape abstraction, in-memory sensitivity audit",
        }],
        "checks": checks,
        "notes": "All checks are static (no gtirb import, no execution). Exit 0 = every structural "
                 "obligation discharged; 1 = violation not listed in known_findings.txt; 2 = "
                 "ANALYSIS-ERROR. See DESIGN.md.",
        "not_applicable": [{"property_id": p, "reason": REASON_PENDING} for p in props if p not in BUILT],
    }
    (VERIF / "MANIFEST.json").write_text(json.dumps(m, indent=1) + "\n")
    print("MANIFEST.json: %d checks, %d not_applicable, %d fix commits"
          % (len(checks), len(m["not_applicable"]), len(fix_commits)))


if __name__ == "__main__":
    main()
