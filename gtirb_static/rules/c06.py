"""C06 — Interval and section lookups and section extents equal a fresh scan."""
from __future__ import annotations

import ast
from typing import List, Optional

from ..model import AnalysisError, attr_path, local_aliases, unparse, walk_no_nested
from ..report import Check
from ..terms import OutsideFragment, expr_term, function_term, show
from .lookups import (bias_consumers, delegation, helper_kind, index_forwarders, index_key_rule,
                      notify_protocol, tree_lookup, tree_sites)
from .bounds import at_impl, on_impl, scan_at, scan_on
from .ownership import ownership

RULES = {
    "R05.1": "index key subset of notifying attributes (section index: address, size of ByteInterval "
             "notify the section)",
    "R05.2": "notify protocol and index forwarders (shared descriptor)",
    "R05.3": "membership maintains the index",
    "R12.x": "the lazy wrapper behind the index: edit-time capture, in-order replay or rebuild on "
             "every path, queue cleared, client discipline (R12.2-R12.4, shared with C12)",
    "R05.8": "forest integrity ('each exactly once'): every node is in one collection once - the "
             "attach/detach pairing and store routing of C04 (R03.3, R03.5)",
    "R05.6": "bias agreement of the closed-interval encoding",
    "R05.7": "boundary logic of the tree helpers and of the linear scans nodes_on/nodes_at as "
             "difference constraints",
    "R06.1": "Section.byte_intervals_on/at search the fresh section index with the helper of the "
             "same kind and no adjustment; Module/IR versions are same-name unions",
    "R06.2": "sections_on/at of Module and IR scan the sections accessor with nodes_on / nodes_at",
    "R06.3": "extent guard: Section.address and Section.size use the index only when it is "
             "non-empty and holds every interval, under the same condition, else None",
}


def run(chk: Check) -> None:
    chk.explanation = (
        "Same discipline as C05 for the per-section interval index, plus the agreement of the "
        "two extent properties' guards and the delegation of the 10 interval/section lookups.  "
        "The boundary arithmetic of the helpers is not decided.")
    for k, v in RULES.items():
        chk.rule(k, v)
    repo = chk.repo
    own = ownership(repo)
    sites = [s for s in tree_sites(repo) if s.owner.name == "Section"]
    if len(sites) != 1:
        raise AnalysisError("expected one LazyIntervalTree on Section, found %d" % len(sites))
    site = sites[0]
    index_key_rule(chk, site, own, "R05.1")
    notify_protocol(chk, "R05.2")
    index_forwarders(chk, site, "R05.2")
    n = 0
    for prop, rule, construct, ok, loc, msg, facts in own.obs:
        if prop == "C06":
            chk.ob(rule, construct, ok, loc, msg, facts)
            n += 1
    chk.floor("R05.3", "index halves of the interval-set primitives", n, 2)
    bias_consumers(chk, "R05.6", ["util", "section"])
    for prop, rule, construct, ok, loc, msg, facts in own.obs:
        if prop == "C04" and rule in ("R03.3", "R03.5"):
            chk.ob("R05.8", construct, ok, loc, msg, facts)
    from .c12 import _capture, _get, _ownership
    lt = repo.cls("LazyIntervalTree")
    sub = chk.sub()
    _ownership(sub, lt)
    _capture(sub, lt)
    _get(sub, lt)
    chk.adopt(sub)
    from .bounds import range_helpers
    range_helpers(chk, "R05.7")
    on_impl(chk, "R05.7")
    at_impl(chk, "R05.7")
    scan_on(chk, "R05.7")
    scan_at(chk, "R05.7")

    sec = repo.cls("Section")
    mod = repo.cls("Module")
    ir = repo.cls("IR")
    nl = 0
    for s in ("on", "at"):
        f = sec.methods.get("byte_intervals_" + s)
        if f is None:
            chk.ob("R06.1", "Section.byte_intervals_" + s, False, sec.loc(), "lookup vanished")
        else:
            nl += 1
            tree_lookup(chk, f, site, s, "address", False, "R06.1")
        nl += 2
        delegation(chk, mod, "byte_intervals_" + s, [("attr", ("self",), "sections")], "R06.1")
        delegation(chk, ir, "byte_intervals_" + s, [("attr", ("self",), "modules")], "R06.1")
        for c in (mod, ir):
            nl += 1
            g = c.methods.get("sections_" + s)
            key = "%s.sections_%s" % (c.qualname, s)
            if g is None:
                chk.ob("R06.2", key, False, c.loc(), "lookup vanished")
                continue
            chk.saw(g)
            try:
                t = function_term(g)
            except OutsideFragment as e:
                # undecided — unless the function never tests a section's own extent against the
                # query at all (no scan helper of the right kind, no same-named lookup of a child):
                # then the sections it returns were chosen by something else
                scans = [c_ for c_ in ast.walk(g.node) if isinstance(c_, ast.Call) and (
                    (isinstance(c_.func, ast.Name) and helper_kind(repo, c_.func.id)["sel"] == s) or
                    (isinstance(c_.func, ast.Attribute) and c_.func.attr == "sections_" + s))]
                chk.ob("R06.2", key, False, g.loc(),
                       ("outside the fragment: %s" % e) if scans else
                       "%s never compares the extent of a section with the query (no nodes_%s scan, no "
                       "sections_%s of a child): it selects sections by something else (%s)" % (key, s, s, e),
                       2, undecided=bool(scans))
                continue
            param = g.param_names()[1]
            ok = False
            why = show(t)
            if t[0] == "call" and t[1][0] == "name" and len(t[2]) == 2:
                hk = helper_kind(repo, t[1][1])
                ok = hk["sel"] == s and not hk["tree"] and \
                    t[2][0] == ("attr", ("self",), "sections") and t[2][1] == ("param", param)
                why = "calls %s (selects '%s') over %s" % (t[1][1], hk["sel"], show(t[2][0]))
            elif t[0] == "union":
                # same-name union over children is equally fine for the IR
                ok = t[3] == ("call", ("attr", ("var", t[2]), "sections_" + s), (("param", param),)) \
                    and t[1] == ("attr", ("self",), "modules")
            chk.ob("R06.2", key, ok, g.loc(),
                   "%s must select '%s' over all of self.sections with its own argument: %s" % (key, s, why), 3)
    chk.floor("R06.1", "interval/section lookup methods", nl, 7)
    _extent(chk, sec, site)


def _extent(chk: Check, sec, site) -> None:
    guards = {}
    for pname in ("address", "size"):
        p = sec.props.get(pname)
        key = "Section.%s" % pname
        if p is None or p.getter is None:
            chk.ob("R06.3", key, False, sec.loc(), "property vanished")
            continue
        g = p.getter
        chk.saw(g)
        al = local_aliases(g.node)
        from ..summaries import Outside, Summary
        tree = ("call", ("attr", ("attr", ("self",), site.attr), "get"), ())
        len_tree = ("call", ("name", "len"), (tree,))
        len_vals = ("call", ("name", "len"), (("attr", ("self",), site.values),))
        try:
            sm = Summary(g.node)
            vd = sm.value_dnf()
        except Outside as e:
            chk.ob("R06.3", key + ":shape", False, g.loc(), "outside the fragment: %s" % e, 1, undecided=True)
            continue
        values = [k for k in vd if k != "None"]
        if len(values) != 1 or "None" not in vd:
            chk.ob("R06.3", key + ":shape", False, g.loc(),
                   "%s must return the extent where the index is complete and None elsewhere; it "
                   "returns %s" % (key, sorted(vd)), 1)
            continue
        vexpr = sm.value_expr(values[0])
        conjs = vd[values[0]]
        # whatever its spelling, the extent is read off the index over all intervals
        uses_index = vexpr is not None and any(
            (isinstance(x, ast.Attribute) and x.attr == site.attr) or
            (isinstance(x, ast.Name) and x.id in al and any(
                isinstance(y, ast.Attribute) and y.attr == site.attr for y in ast.walk(al[x.id])))
            for x in ast.walk(vexpr))
        if not uses_index:
            chk.ob("R06.3", key + ":value", False, g.loc(),
                   "%s must be read off the interval index (begin() / span() of self.%s.get(), which "
                   "covers every interval); it returns %s" % (key, site.attr, values[0][:60]), 2)
            continue
        complete = nonempty = False
        atoms = set()
        shown = []
        try:
            val = expr_term(vexpr, g, {}, al)
            if len(conjs) == 1:
                for a_, op, b_ in sm.constraints(conjs[0]):
                    ta = expr_term(a_, g, {}, al) if a_ is not None else None
                    tb = expr_term(b_, g, {}, al) if b_ is not None else None
                    shown.append("%s %s %s" % (unparse(a_) if a_ is not None else "", op,
                                               unparse(b_) if b_ is not None else ""))
                    if op == "IsNot" and {repr(ta), repr(tb)} == {repr(tree), repr(("none",))}:
                        continue        # "the tree is there": get() always returns one
                    zero_ = ("const", 0)
                    vals_ = ("attr", ("self",), site.values)
                    if (op == "truthy" and ta in (vals_, len_vals, tree)) or \
                            (op == "Lt" and ta == zero_ and tb == len_vals) or \
                            (op == "NotEq" and {repr(ta), repr(tb)} == {repr(zero_), repr(len_vals)}):
                        continue        # implied by the other two: both lengths are equal and positive
                    atoms.add((repr(ta), op, repr(tb)))
                    if op == "Eq" and {repr(ta), repr(tb)} == {repr(len_tree), repr(len_vals)}:
                        complete = True
                    zero, one = ("const", 0), ("const", 1)
                    if (op == "Lt" and ta == zero and tb == len_tree) or \
                            (op == "LtE" and ta == one and tb == len_tree) or \
                            (op == "NotEq" and {repr(ta), repr(tb)} == {repr(zero), repr(len_tree)}) or \
                            (op == "truthy" and ta == len_tree):
                        nonempty = True
        except OutsideFragment as e:
            chk.ob("R06.3", key + ":shape", False, g.loc(), str(e), 1, undecided=True)
            continue
        guards[pname] = frozenset(atoms)
        chk.ob("R06.3", key + ":guard", complete and nonempty and len(atoms) == 2, g.loc(),
               "%s must use the index only when it is non-empty and len(index) == "
               "len(self.%s) (every interval addressed); it returns the extent when %s"
               % (key, site.values, " and ".join(shown) or "(%d alternatives)" % len(conjs)), 3)
        if pname == "address":
            want = ("call", ("attr", tree, "begin"), ())
            chk.ob("R06.3", key + ":value", val == want, g.loc(),
                   "Section.address must be the lowest interval address (index.begin()), got %s"
                   % values[0], 2)
        else:
            want = ("binop", "Sub", ("call", ("attr", tree, "span"), ()), ("const", 1))
            chk.ob("R06.3", key + ":value", val == want, g.loc(),
                   "Section.size must be index.span() minus the closed-interval bias, got %s"
                   % values[0], 2)
    if len(guards) == 2:
        chk.ob("R06.3", "Section.address~size:same-guard", guards["address"] == guards["size"],
               sec.loc(), "Section.address and Section.size decide 'extent known' under different "
               "conditions: one can be None while the other is not", 2)


def _requires_nonempty(test: ast.AST) -> bool:
    """the test implies len(index) > 0"""
    for n in ast.walk(test):
        if isinstance(n, ast.Compare):
            terms = [n.left] + list(n.comparators)
            for a, op, b in zip(terms, n.ops, terms[1:]):
                if isinstance(a, ast.Constant) and a.value == 0 and isinstance(op, ast.Lt) \
                        and "len(" in unparse(b):
                    return True
                if isinstance(b, ast.Constant) and b.value == 0 and isinstance(op, ast.Gt) \
                        and "len(" in unparse(a):
                    return True
                if isinstance(b, ast.Constant) and b.value == 1 and isinstance(op, ast.GtE) \
                        and "len(" in unparse(a):
                    return True
    return False


def _guard_atoms(test: ast.AST, al) -> frozenset:
    """the guard as a set of pairwise comparison atoms (chains and 'and' flattened,
    aliases expanded, orientation normalised)"""
    atoms = set()

    def txt(e: ast.AST) -> str:
        class Sub(ast.NodeTransformer):
            def visit_Name(self, n):
                if n.id in al:
                    return self.visit(__import__("copy").deepcopy(al[n.id]))
                return n
        return unparse(Sub().visit(__import__("copy").deepcopy(e)))

    def walk(e: ast.AST) -> None:
        if isinstance(e, ast.BoolOp) and isinstance(e.op, ast.And):
            for v in e.values:
                walk(v)
        elif isinstance(e, ast.Compare):
            terms = [e.left] + list(e.comparators)
            for a, op, b in zip(terms, e.ops, terms[1:]):
                x, y, o = txt(a), txt(b), type(op).__name__
                if o == "Gt":
                    x, y, o = y, x, "Lt"
                elif o == "GtE":
                    x, y, o = y, x, "LtE"
                elif o == "Eq" and x > y:
                    x, y = y, x
                atoms.add((x, o, y))
        else:
            atoms.add(("expr", txt(e), ""))
    walk(test)
    return frozenset(atoms)
