#!/bin/sh
# usage: show_normal.sh <patch.diff> <module> [function]  -- print the normal form of a module of the patched tree
set -e
T=$(mktemp -d /tmp/shown-XXXXXX); mkdir -p $T/python; cp -r /repo/python/gtirb $T/python/gtirb
patch -s -p1 -d $T -i "$(readlink -f $1)"
cd /verif; VERIF_REPO=$T /venv/bin/python -m gtirb_static.normalise --show $2 | { if [ -n "${3:-}" ]; then grep -n "def $3" -A${4:-30}; else cat; fi; }
rm -rf $T
