"""C17 — The loader either rejects a file or returns a coherent IR."""
from __future__ import annotations

import ast
from typing import List, Optional, Set

from ..cfg import CFG
from ..model import AnalysisError, attr_path, const_str, dotted, expand_path, local_aliases, unparse, walk_no_nested
from ..report import Check
from .c01 import _is_reader
from .c02 import _facts, _through_enum
from .loader import _raises, from_protobuf_cache, lookup_bindings, reference_sites, stage_order
from .ownership import ownership

RULES = {
    "R17.1": "header checks dominate the parse: every path to ParseFromString/_from_protobuf "
             "passes 'magic != GTIRB -> ValueError' and 'version byte != PROTOBUF_VERSION -> ValueError'",
    "R17.2": "the message version check dominates construction of the IR",
    "R17.3": "every resolved reference is kind-checked (= R09.1)",
    "R17.4": "decoders build only through the public primitives: no decode function writes a "
             "back-pointer, a store or an index (= R03.2 restricted to the load path)",
    "R17.5": "staged decode order (= R09.2)",
    "R17.6": "validating constructors are on the decode path: stored bytes <= size, enum "
             "conversion, UUID conversion, oneofs end in a raise",
    "R17.7": "no partially linked result escapes: no decode function catches an exception and "
             "continues; nothing decoded is reachable from class/module-level state",
}


def run(chk: Check) -> None:
    chk.explanation = (
        "Decides, on the CFG of the loader and of each decoder, that the rejection checks "
        "dominate what they protect and that failures propagate (no handler swallows them), and "
        "re-uses the reference/kind/stage/ownership rules so that a returned IR inherits C03/C04. "
        "Termination on arbitrary payloads, ParseFromString's behaviour on corrupt bytes and "
        "'every saved file is accepted' are not decided.")
    for k, v in RULES.items():
        chk.rule(k, v)
    _header(chk)
    _version(chk)
    n = reference_sites(chk, "R17.3")
    chk.floor("R17.3", "reference resolution sites", n, 5)
    from_protobuf_cache(chk, "R17.3")
    lookup_bindings(chk, "R17.3")
    from .loader import deferred_stage
    deferred_stage(chk, "R17.5")
    stage_order(chk, "R17.5")
    own = ownership(chk.repo)
    k = 0
    for prop, rule, construct, ok, loc, msg, facts in own.obs:
        if rule == "R03.2":
            chk.ob("R17.4", construct, ok, loc, msg, facts)
            k += 1
        if rule == "R03.1" and "class-level" in construct or rule == "R03.1" and "module-level" in construct:
            chk.ob("R17.7", construct, ok, loc, msg, facts)
    chk.floor("R17.4", "back-pointer writes", k, 9)
    for prop, rule, construct, ok, loc, msg, facts in own.obs:
        if rule == "R03.6" or (rule in ("R03.1", "R03.4") and "_add_to_uuid_cache" in construct):
            chk.ob("R17.3", construct, ok, loc,
                   msg + " (duplicate-UUID detection in Node._from_protobuf relies on it)", facts)
    _decoders_use_primitives(chk)
    chk.floor("R17.5", "decoders of nodes with children", register_before_children(chk, "R17.5"), 3)
    _validation(chk)
    _no_swallow(chk)
    _messages_cannot_fail(chk)
    # "can be saved again": every loaded table keeps its bytes and type (C14's loader half)
    # what save writes is loadable: modules go out in list order (references point backwards)
    from .c02 import _facts as _c02_facts, _whole_collections
    schema_, pf_ = _c02_facts(chk)
    sub = chk.sub()
    _whole_collections(sub, schema_, pf_, [m for m in schema_.reachable("IR")] + ["Offset"])
    chk.adopt(sub, lambda o: o.construct.endswith(":list-order"), "R17.5")
    from .c14 import _from_protobuf as _aux_from_protobuf
    sub = chk.sub()
    _aux_from_protobuf(sub, chk.repo.cls("AuxData"))
    chk.adopt(sub, None, "R17.6")


def _header(chk: Check) -> None:
    ir = chk.repo.cls("IR")
    f = ir.methods.get("load_protobuf_file")
    if f is None:
        raise AnalysisError("anchor vanished: IR.load_protobuf_file")
    chk.saw(f)
    cfg = CFG(f.node)
    al = local_aliases(f.node)
    stream = f.param_names()[0]
    reads = sorted([n for n in walk_no_nested(f.node) if isinstance(n, ast.Call)
                    and attr_path(n.func) == (stream, "read")], key=lambda n: n._ord)
    parse = cfg.nodes_where(lambda n: isinstance(n, ast.Call) and isinstance(n.func, ast.Attribute)
                            and n.func.attr in ("ParseFromString", "_from_protobuf", "MergeFromString"))
    chk.ob("R17.1", "IR.load_protobuf_file:parses", bool(parse), f.loc(), "no parse call found", 1)

    def var_of(call: ast.Call) -> Optional[str]:
        st = call
        while st is not None and not isinstance(st, ast.stmt):
            st = getattr(st, "_parent", None)
        if isinstance(st, ast.Assign) and isinstance(st.targets[0], ast.Name):
            return st.targets[0].id
        return None

    def check(label: str, var: Optional[str], const: str, read: Optional[ast.Call] = None) -> None:
        passed: Set[int] = set()
        rejecting = False

        def is_value(e: ast.AST) -> bool:
            # the variable the read was stored in, or the read itself compared in place
            if var is not None and attr_path(e) == (var,):
                return True
            return read is not None and any(x is read for x in ast.walk(e))
        for n, i in cfg.info.items():
            if i.kind != "test" or not isinstance(i.ast, ast.Compare) or len(i.ast.ops) != 1:
                continue
            t = i.ast
            sides = [t.left, t.comparators[0]]
            if not isinstance(t.ops[0], (ast.NotEq, ast.Eq)):
                continue
            if not ((is_value(sides[0]) and attr_path(sides[1]) == (const,)) or
                    (is_value(sides[1]) and attr_path(sides[0]) == (const,))):
                continue
            for b in cfg.g.successors(n):
                bi = cfg.info[b]
                if bi.kind != "branch":
                    continue
                equal = (bi.value == isinstance(t.ops[0], ast.Eq))
                if equal:
                    passed.add(b)
                elif _raises(cfg, b, ("ValueError",)):
                    rejecting = True
        ok = bool(passed) and rejecting and all(cfg.path_avoiding(cfg.entry, p, passed) is None for p in parse)
        chk.ob("R17.1", "IR.load_protobuf_file:%s-check-dominates-parse" % label, ok, f.loc(),
               "a path reaches the protobuf parse without having compared the %s with %s and "
               "raised ValueError on a mismatch (the comparison must be unconditional: not guarded "
               "by truthiness or by another test)" % (label, const), 4)
    mvar = var_of(reads[0]) if reads else None
    vvar = var_of(reads[3]) if len(reads) > 3 else None
    check("magic", mvar, "GTIRB_MAGIC_CHARS", reads[0] if reads else None)
    check("version", vvar, "PROTOBUF_VERSION", reads[3] if len(reads) > 3 else None)
    if len(reads) > 3:
        # the version is decoded from that single byte
        st = reads[3]
        par = getattr(st, "_parent", None)
        ok = isinstance(par, ast.Call) and attr_path(par.func) == ("int", "from_bytes")
        chk.ob("R17.1", "IR.load_protobuf_file:version-decoded", ok, f.loc(reads[3]),
               "the version byte must be decoded with int.from_bytes before the comparison", 1)


def _version(chk: Check) -> None:
    ir = chk.repo.cls("IR")
    f = ir.methods.get("_decode_protobuf")
    if f is None:
        raise AnalysisError("anchor vanished: IR._decode_protobuf")
    chk.saw(f)
    cfg = CFG(f.node)
    proto = f.param_names()[1]
    ctor = cfg.nodes_where(lambda n: isinstance(n, ast.Call) and attr_path(n.func) in (("cls",), ("IR",)))
    passed: Set[int] = set()
    rejecting = False
    for n, i in cfg.info.items():
        if i.kind == "test" and isinstance(i.ast, ast.Compare) and len(i.ast.ops) == 1 and \
                isinstance(i.ast.ops[0], (ast.NotEq, ast.Eq)):
            t = i.ast
            names = {attr_path(t.left), attr_path(t.comparators[0])}
            if names == {(proto, "version"), ("PROTOBUF_VERSION",)}:
                for b in cfg.g.successors(n):
                    bi = cfg.info[b]
                    if bi.kind != "branch":
                        continue
                    if bi.value == isinstance(t.ops[0], ast.Eq):
                        passed.add(b)
                    elif _raises(cfg, b, ("ValueError",)):
                        rejecting = True
    ok = bool(ctor) and bool(passed) and rejecting and \
        all(cfg.path_avoiding(cfg.entry, c, passed) is None for c in ctor)
    chk.ob("R17.2", "IR._decode_protobuf:version-check-dominates-construction", ok, f.loc(),
           "an IR can be constructed from a message whose version field differs from "
           "PROTOBUF_VERSION (the check must raise ValueError and dominate cls(...))", 3)
    # IR._from_protobuf reached only through load_protobuf_file inside the package
    callers = []
    for g in chk.repo.all_functions():
        for c in walk_no_nested(g.node):
            if isinstance(c, ast.Call) and attr_path(c.func) == ("IR", "_from_protobuf"):
                callers.append(g.qualname)
    chk.ob("R17.2", "IR._from_protobuf:callers", set(callers) <= {"IR.load_protobuf_file"} and bool(callers),
           ir.loc(), "IR._from_protobuf is called from %s; only load_protobuf_file (behind the "
           "header checks) may" % callers, 1)


def register_before_children(chk: Check, rule: str) -> int:
    """A decoder of a node that has child nodes enters the new node in the UUID table *before* it
    decodes any child: ``Node._from_protobuf`` detects a UUID that is already taken by looking it
    up, so a child carrying its parent's UUID is only rejected if the parent is already there.
    (Children decoded inside the constructor call — a generator passed to it — are decoded before
    the registration that follows the call.)"""
    repo = chk.repo
    node = repo.cls("Node")
    n = 0
    for c in repo.classes.values():
        if not c.is_subclass_of(node) or c.name == "IR":
            continue            # (IR.__init__ registers the IR itself)
        f = c.methods.get("_decode_protobuf")
        if f is None:
            continue
        # child decoders: <NodeClass>._from_protobuf(...) anywhere below f (closures, generators)
        kids = []
        for x in ast.walk(f.node):
            if isinstance(x, ast.Call) and isinstance(x.func, ast.Attribute) and x.func.attr == "_from_protobuf":
                d = dotted(x.func.value)
                k = repo.resolve_name(f.module, ".".join(d), f.cls) if d else None
                if k is not None and (k is node or k.is_subclass_of(node)):
                    kids.append(x)
        if not kids:
            continue
        chk.saw(f)
        n += 1
        cfg = CFG(f.node)
        made = {t.id for a in walk_no_nested(f.node) if isinstance(a, ast.Assign) and isinstance(a.value, ast.Call)
                and attr_path(a.value.func) in (("cls",), (c.name,)) for t in a.targets if isinstance(t, ast.Name)}
        regs = cfg.nodes_where(lambda y: isinstance(y, ast.Call) and isinstance(y.func, ast.Attribute)
                               and y.func.attr == "_add_to_uuid_cache" and isinstance(y.func.value, ast.Name)
                               and y.func.value.id in made)
        nested = f.nested()

        def sites(x: ast.AST, depth: int = 0) -> List[ast.AST]:
            """the statements of f in which x is evaluated"""
            cur = x
            par = getattr(cur, "_parent", None)
            while par is not None and par is not f.node:
                if isinstance(par, ast.FunctionDef):
                    if depth > 3:
                        return []
                    out: List[ast.AST] = []
                    for y in ast.walk(f.node):
                        if isinstance(y, ast.Call) and isinstance(y.func, ast.Name) and y.func.id == par.name \
                                and par.name in nested:
                            out.extend(sites(y, depth + 1))
                    return out
                cur, par = par, getattr(par, "_parent", None)
            return [x]
        bad = None
        for k in kids:
            for s_ in sites(k):
                try:
                    ns = cfg.node_of(s_)
                except AnalysisError:
                    continue
                if not regs or not any(cfg.dominates(r, ns) and r != ns for r in regs):
                    bad = s_
        chk.ob(rule, "%s:registers-before-decoding-children" % f.qualname, bad is None,
               f.loc(bad) if bad is not None else f.loc(),
               "%s decodes a child node (%s) before the new node is in the UUID table: a child that carries "
               "its parent's UUID is not rejected and replaces the parent in the table"
               % (f.qualname, unparse(bad)[:60] if bad is not None else "-"), 2)
    return n


def _decoders_use_primitives(chk: Check) -> None:
    """no reader writes a wrapper store or an index directly"""
    n = 0
    for f in chk.repo.all_functions():
        if not _is_reader(f):
            continue
        n += 1
        bad = []
        for x in walk_no_nested(f.node):
            if isinstance(x, ast.Attribute) and x.attr in ("_data", "_interval_tree", "_interval_index",
                                                            "_symbol_name_index", "_symbol_referent_index",
                                                            "_nxg", "_interval_events"):
                if f.cls is not None and f.cls.name in ("AuxData", "_LazyDataContainer"):
                    continue
                bad.append(x)
        chk.ob("R17.4", "%s:no-direct-store" % f.qualname, not bad, f.loc(bad[0]) if bad else f.loc(),
               "decoder %s touches %s directly instead of building through the public primitives"
               % (f.qualname, unparse(bad[0]) if bad else ""), 1)
    chk.floor("R17.4", "reader functions", n, 10)


def _validation(chk: Check) -> None:
    repo = chk.repo
    schema, pf = _facts(chk)
    bi = repo.cls("ByteInterval")
    init = bi.methods["__init__"]
    chk.saw(init)
    cfg = CFG(init.node)
    al = local_aliases(init.node)
    me = init.self_name
    # the check: initialized_size > size -> ValueError, before any field assignment
    ok_br: Set[int] = set()
    rejecting = False
    for n, i in cfg.info.items():
        if i.kind == "test" and isinstance(i.ast, ast.Compare) and len(i.ast.ops) == 1:
            t = i.ast
            # names are compared without the version suffix the normal form gives to rebound names
            l, r = base_name(unparse(t.left)), base_name(unparse(t.comparators[0]))
            viol_when_true = (isinstance(t.ops[0], ast.Gt) and (l, r) == ("initialized_size", "size")) or \
                (isinstance(t.ops[0], ast.Lt) and (l, r) == ("size", "initialized_size"))
            fine_when_true = (isinstance(t.ops[0], ast.LtE) and (l, r) == ("initialized_size", "size")) or \
                (isinstance(t.ops[0], ast.GtE) and (l, r) == ("size", "initialized_size"))
            if not (viol_when_true or fine_when_true):
                continue
            for b in cfg.g.successors(n):
                bi_ = cfg.info[b]
                if bi_.kind != "branch":
                    continue
                violating = (bi_.value == viol_when_true) if viol_when_true else (bi_.value != fine_when_true)
                if violating:
                    rejecting = rejecting or _raises(cfg, b, ("ValueError",))
                else:
                    ok_br.add(b)
    stores = cfg.nodes_where(lambda n: isinstance(n, (ast.Assign, ast.AnnAssign)) and any(
        isinstance(t, ast.Attribute) and attr_path(t.value) == (me,)
        for t in (n.targets if isinstance(n, ast.Assign) else [n.target])))
    ok = bool(ok_br) and rejecting and all(cfg.path_avoiding(cfg.entry, s, ok_br) is None for s in stores)
    chk.ob("R17.6", "ByteInterval.__init__:size-check-dominates-fields", ok, init.loc(),
           "ByteInterval.__init__ must reject initialized_size > size with ValueError before any "
           "field is assigned", 3)
    # defaults from len(contents)
    for pname in ("size", "initialized_size"):
        def is_default(n: ast.AST) -> bool:
            if not (isinstance(n, ast.Assign) and isinstance(n.targets[0], ast.Name)
                    and base_name(n.targets[0].id) == pname):
                return False
            v = n.value
            if isinstance(v, ast.IfExp):
                # <p> = len(contents) if <p> is None else <p>
                t_ = v.test
                none_test = isinstance(t_, ast.Compare) and len(t_.ops) == 1 and isinstance(t_.ops[0], ast.Is) \
                    and base_name(unparse(t_.left)) == pname and isinstance(t_.comparators[0], ast.Constant) \
                    and t_.comparators[0].value is None
                if not none_test or base_name(unparse(v.orelse)) != pname:
                    return False
                v = v.body
            return isinstance(v, ast.Call) and attr_path(v.func) == ("len",) and attr_path(v.args[0]) == ("contents",)
        d = cfg.nodes_where(is_default)
        chk.ob("R17.6", "ByteInterval.__init__:default(%s)" % pname, bool(d), init.loc(),
               "%s must default to len(contents)" % pname, 1)
    dec = bi.methods.get("_decode_protobuf")
    if dec is not None:
        chk.saw(dec)
        proto = dec.param_names()[1]
        ctor = [c for c in walk_no_nested(dec.node) if isinstance(c, ast.Call) and attr_path(c.func) == ("cls",)]
        ok = len(ctor) == 1
        if ok:
            kw = {k.arg: k.value for k in ctor[0].keywords}
            ok = attr_path(kw.get("size", ast.Constant(0))) == (proto, "size") and \
                attr_path(kw.get("contents", ast.Constant(0))) == (proto, "contents") and \
                "initialized_size" not in kw
        chk.ob("R17.6", "ByteInterval._decode_protobuf:constructs-validated", ok, dec.loc(),
               "the interval decoder must construct through cls(size=<message size>, "
               "contents=<message contents>) so that stored bytes > size is rejected", 3)
    # oneofs end in a raise: wherever a reader dispatches on the alternatives of Block.value /
    # SymbolicExpression.value (found through the schema-typed HasField tests, not by name), all
    # alternatives are tested and the case "none is set" does not fall through
    for msg, alts in (("Block", ("code", "data")), ("SymbolicExpression", ("addr_const", "addr_addr"))):
        by_func: Dict[str, List] = {}
        for a_ in alts:
            for r in pf.read(msg, a_):
                if r.how == "hasfield":
                    by_func.setdefault(r.f.qualname, []).append(r)
        if not by_func:
            chk.ob("R17.6", "%s.value:oneof" % msg, False, bi.loc(),
                   "no reader dispatches on the alternatives of %s.value" % msg, 1)
            continue
        for fq, rs in sorted(by_func.items()):
            g = rs[0].f
            chk.saw(g)
            c2 = CFG(g.node)
            tested = {const_str(r.node.args[0]) for r in rs if isinstance(r.node, ast.Call) and r.node.args}
            has_tests = {n for n, i in c2.info.items() if i.kind == "test" and isinstance(i.ast, ast.Call)
                         and isinstance(i.ast.func, ast.Attribute) and i.ast.func.attr == "HasField"}
            trues = {b for b in c2.info if c2.info[b].kind == "branch" and c2.info[b].value is True
                     and c2.info[b].test in has_tests}
            # region: one message — the body of the loop over the messages when the dispatch sits in one
            src, dst = c2.entry, c2.exit
            cur = getattr(rs[0].node, "_parent", None)
            while cur is not None and cur is not g.node:
                if isinstance(cur, ast.For) and id(cur) in c2.by_ast:
                    head = c2.by_ast[id(cur)]
                    inb = [s_ for s_ in c2.g.successors(head) if c2.info[s_].kind == "branch" and c2.info[s_].value]
                    if inb:
                        src, dst = inb[0], head
                    break
                cur = getattr(cur, "_parent", None)
            normal_without_alt = c2.path_avoiding(src, dst, trues)
            if normal_without_alt is None and dst != c2.exit:
                normal_without_alt = None if c2.path_avoiding(src, c2.exit, trues | {dst}) is None else \
                    c2.path_avoiding(src, c2.exit, trues | {dst})
            ok = set(alts) <= tested and normal_without_alt is None
            chk.ob("R17.6", fq + ":oneof-exhaustive", ok, g.loc(),
                   "%s must handle every alternative (%s) and raise when none is set; a message with "
                   "an empty oneof would otherwise yield a half-built object" % (fq, ", ".join(alts)), 2)
    # UUIDs go through UUID(bytes=...)
    nf = repo.cls("Node").methods["_from_protobuf"]
    ok = any(isinstance(c, ast.Call) and attr_path(c.func) == ("UUID",) and
             any(k.arg == "bytes" for k in c.keywords) for c in walk_no_nested(nf.node))
    chk.ob("R17.6", "Node._from_protobuf:uuid-validated", ok, nf.loc(),
           "node UUIDs must be built with UUID(bytes=...), which rejects wrong lengths", 1)
    # ... and never made up: a node whose stored identifier is replaced cannot be referred to
    made_up = [(g, c_) for g in repo.all_functions() if _is_reader(g) for c_ in walk_no_nested(g.node)
               if isinstance(c_, ast.Call) and (dotted(c_.func) or ("",))[-1] in ("uuid4", "uuid1", "getnode")]
    chk.ob("R17.6", "readers:no-fresh-uuid", not made_up, made_up[0][0].loc(made_up[0][1]) if made_up else nf.loc(),
           "%s generates a UUID while loading: identifiers come from the file only"
           % (made_up[0][0].qualname if made_up else "-"), 1)
    # enum-typed fields through their Enum
    n = 0
    for m in schema.reachable("IR"):
        for fname, fld in schema.messages[m].fields.items():
            if fld.type not in schema.enums:
                continue
            for r in pf.read(m, fname):
                if r.how != "load":
                    continue
                n += 1
                chk.ob("R17.6", "%s.%s:enum-validated" % (m, fname), _through_enum(chk, pf, schema, r, fld.type),
                       r.loc, "%s.%s is not converted through its Enum: unknown numbers are not rejected"
                       % (m, fname), 2)
    chk.floor("R17.6", "enum-typed field reads", n, 4)


def base_name(text: str) -> str:
    """``size_v1`` -> ``size``: the normal form renames a name that is bound again"""
    import re as _re
    return _re.sub(r"\b(\w+?)_v\d+\b", r"\1", text)


def _no_swallow(chk: Check) -> None:
    n = 0
    for f in chk.repo.all_functions():
        if not (_is_reader(f) or f.name in ("load_protobuf", "load_protobuf_file")):
            continue
        for t in walk_no_nested(f.node):
            if not isinstance(t, ast.Try):
                continue
            for h in t.handlers:
                n += 1
                reraises = bool(h.body) and isinstance(h.body[-1], ast.Raise)
                if reraises and h.body[-1].exc is not None:
                    # re-raising as another class changes which exception a bad file produces
                    caught = []
                    if isinstance(h.type, ast.Tuple):
                        caught = [(dotted(x) or ("",))[-1] for x in h.type.elts]
                    elif h.type is not None:
                        caught = [(dotted(h.type) or ("",))[-1]]
                    e2 = h.body[-1].exc
                    raised = (dotted(e2.func if isinstance(e2, ast.Call) else e2) or ("",))[-1]
                    same_class = isinstance(e2, ast.Call) and isinstance(e2.func, ast.Call)      # type(e)(...)
                    if caught and raised and raised not in caught and not same_class:
                        reraises = False        # (a base class or another class: the rejection type changes)
                    k_ = chk.repo.cls_opt(raised) if raised else None
                    if caught and raised in caught and not same_class and k_ is not None and chk.repo.subclasses(k_):
                        # catching a class with subclasses and raising the class itself turns a
                        # DeserializationError into its base class
                        reraises = False
                d = dotted(h.type) if h.type is not None else None
                # the one tolerated fall-back: unknown symbolic-expression attribute numbers
                # (an int that is not a member of an Enum class of the package is kept as the int):
                # the try body only converts to an Enum class, the handler only keeps the raw value
                def _enum_call(c_: ast.Call) -> bool:
                    dd = dotted(c_.func)
                    k_ = chk.repo.resolve_name(f.module, ".".join(dd), f.cls) if dd else None
                    return k_ is not None and k_.is_subclass_of("enum.Enum")

                def _only(stmts, allow_enum: bool) -> bool:
                    for c_ in [x for s_ in stmts for x in ast.walk(s_) if isinstance(x, ast.Call)]:
                        if isinstance(c_.func, ast.Attribute) and c_.func.attr == "add":
                            continue
                        if allow_enum and _enum_call(c_):
                            continue
                        return False
                    return all(isinstance(s_, (ast.Assign, ast.AnnAssign, ast.Expr, ast.Return)) for s_ in stmts)
                tolerated = (d is not None and d[-1] == "ValueError" and _only(t.body, True)
                             and any(_enum_call(x) for s_ in t.body for x in ast.walk(s_) if isinstance(x, ast.Call))
                             and _only(h.body, False) and _only(t.orelse, False) and not t.finalbody)
                chk.ob("R17.7", "%s:handler(%s)" % (f.qualname, d[-1] if d else "bare"),
                       reraises or tolerated, f.loc(h),
                       "decoder %s catches %s and carries on: a structural fault in the file would "
                       "yield a partially linked IR instead of an exception"
                       % (f.qualname, d[-1] if d else "everything"), 2)
    chk.extra["handlers_in_readers"] = n
    # the lazy AuxData decode is outside load(); Serialization.decode's UnknownCodecError handler
    # is C14's concern.


def _messages_cannot_fail(chk: Check) -> None:
    """the rejection of a bad file must reach the caller as the documented exception: the text of
    the message is built with a *literal* format string.  A format string computed from data of
    the file (a name, a type name) raises TypeError / ValueError itself when that data contains
    a '%' or a brace."""
    n = 0
    for f in chk.repo.all_functions():
        if not (_is_reader(f) or f.name in ("load_protobuf", "load_protobuf_file")):
            continue
        al = local_aliases(f.node)

        def literal(e: ast.AST, depth: int = 0) -> Optional[bool]:
            """True a literal, False computed from other values, None a name whose value is not
            known here (a constant of another module, a class attribute)"""
            if isinstance(e, ast.Constant) and isinstance(e.value, str):
                return True
            if isinstance(e, ast.Name) and e.id in al and depth < 4:
                return literal(al[e.id], depth + 1)
            if isinstance(e, ast.BinOp) and isinstance(e.op, ast.Add):
                a_, b_ = literal(e.left, depth + 1), literal(e.right, depth + 1)
                return False if a_ is False or b_ is False else None if a_ is None or b_ is None else True
            if isinstance(e, (ast.Name, ast.Attribute)):
                root = (attr_path(e) or ("",))[0]
                local_names = set(f.param_names()) | {x.id for x in walk_no_nested(f.node) if isinstance(x, ast.Name)
                                                      and not isinstance(x.ctx, ast.Load)}
                if f.outer is not None:
                    local_names |= set(f.outer.param_names())
                # data of this call (a parameter, a local, their attributes) is computed; a name of the
                # module or of another module may be a constant
                return False if root in local_names or not root else None
            return False
        for r in walk_no_nested(f.node):
            if not isinstance(r, ast.Raise) or r.exc is None:
                continue
            roots: List[ast.AST] = [r.exc]
            # a message built in a local first
            for x in ast.walk(r.exc):
                if isinstance(x, ast.Name) and x.id in al:
                    roots.append(al[x.id])
            for root in roots:
                for x in ast.walk(root):
                    bad = None
                    unknown = False
                    if isinstance(x, ast.BinOp) and isinstance(x.op, ast.Mod):
                        n += 1
                        lv = literal(x.left)
                        if lv is not True:
                            bad, unknown = x, lv is None
                    elif isinstance(x, ast.Call) and isinstance(x.func, ast.Attribute) and x.func.attr == "format":
                        n += 1
                        lv = literal(x.func.value)
                        if lv is not True:
                            bad, unknown = x, lv is None
                    if bad is not None or isinstance(x, (ast.BinOp, ast.Call)) and (
                            isinstance(x, ast.BinOp) and isinstance(x.op, ast.Mod) or
                            isinstance(x, ast.Call) and isinstance(x.func, ast.Attribute) and x.func.attr == "format"):
                        chk.ob("R17.7", "%s:literal-format(%s)" % (f.qualname, unparse(x)[:30]), bad is None, f.loc(x),
                               "%s builds an error message with a format string that is not a literal (%s): data "
                               "of the file containing a format directive makes the formatting itself fail, and "
                               "the caller gets TypeError / ValueError / KeyError instead of the rejection"
                               % (f.qualname, unparse(x.left if isinstance(x, ast.BinOp) else x.func.value)[:60]), 2,
                               undecided=unknown)
    chk.extra["formatted_messages_in_readers"] = n
