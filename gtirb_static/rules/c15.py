"""C15 — AuxData type names parse exactly per the grammar (reduced claim)."""
from __future__ import annotations

import ast
from typing import List, Optional, Set

from ..cfg import CFG
from ..model import AnalysisError, attr_path, const_str, dotted, local_aliases, unparse, walk_no_nested
from ..report import Check

RULES = {
    "R15.1": "the tokeniser loses nothing: the regex is an alternation of one '+'-repetition of "
             "the complement of the delimiter set and the three single-character delimiters, no "
             "groups, no flags, used with findall",
    "R15.2": "only TypeNameError is raised deliberately; the root destructuring is inside a try "
             "whose except ValueError re-raises TypeNameError; TypeNameError is not a ValueError "
             "and is an EncodeError/CodecError; callers do not translate it",
    "R15.4": "bracket matching tracks nesting depth",
    "R15.5": "parsing keeps no state between calls (no module/class-level caches)",
    "R15.6": "no token is silently dropped: parse() either always returns an empty remainder or "
             "every caller (the root included) rejects a non-empty one",
    "R15.3": "guarded destructuring: every sequence destructuring / pop is dominated by a length "
             "test of the same list that exits on empty",
}
DELIMS = {ord("<"), ord(">"), ord(",")}


def run(chk: Check) -> None:
    chk.explanation = (
        "Language equality of the hand-written recursive parser with the grammar over unbounded "
        "strings is NOT decided (it needs execution over a bounded language or a proof about the "
        "recursion).  Decided are the clauses visible in the shape of the code: the tokeniser's "
        "regex AST (re._parser) partitions every input into maximal name runs and delimiters "
        "without dropping characters; exception discipline; guarded destructuring.")
    for k, v in RULES.items():
        chk.rule(k, v)
    repo = chk.repo
    ser = repo.cls("Serialization")
    f = ser.methods.get("_parse_type")
    if f is None:
        raise AnalysisError("anchor vanished: Serialization._parse_type")
    chk.saw(f)
    inner = f.nested()
    for g in inner.values():
        chk.saw(g)
    tn = f.param_names()[0]

    # R15.1 ------------------------------------------------------------------
    import re._parser as sp    # the running interpreter's regex parser, used as a parser only
    calls = [c for c in walk_no_nested(f.node) if isinstance(c, ast.Call)
             and (dotted(c.func) or ("",))[-1] in ("findall", "split", "finditer", "match", "fullmatch", "search")]
    ok = len(calls) == 1 and (dotted(calls[0].func) or ("",))[-1] == "findall"
    chk.ob("R15.1", "Serialization._parse_type:tokenises-with-findall", ok, f.loc(),
           "the tokeniser must be a single re.findall over the whole type name (got %s)"
           % [unparse(c.func) for c in calls], 1)
    if ok:
        c = calls[0]
        pat = const_str(c.args[0]) if c.args else None
        subj = attr_path(c.args[1]) if len(c.args) > 1 else None
        chk.ob("R15.1", "Serialization._parse_type:tokenises-the-argument", subj == (tn,) and len(c.args) == 2
               and not c.keywords, f.loc(c), "findall must scan the type_name argument, without flags", 1)
        rebound = [n for n in walk_no_nested(f.node) if isinstance(n, ast.Name) and n.id == tn
                   and not isinstance(n.ctx, ast.Load)]
        chk.ob("R15.1", "Serialization._parse_type:argument-unchanged", not rebound,
               f.loc(rebound[0]) if rebound else f.loc(),
               "the type name is rewritten before it is tokenised (%s is rebound): which strings are accepted, "
               "and the names in the tree, must be those of the string the caller gave" % tn, 1)
        if pat is None:
            chk.ob("R15.1", "Serialization._parse_type:regex", False, f.loc(c), "regex is not a literal", 1)
        else:
            try:
                p = sp.parse(pat)
            except Exception as e:
                raise AnalysisError("tokeniser regex does not parse: %s" % e)
            items = list(p)
            problems: List[str] = []
            if p.state.groups != 1:
                problems.append("has capture groups (findall would return the groups, not the matches)")
            branches = None
            if len(items) == 1 and str(items[0][0]) == "BRANCH":
                branches = items[0][1][1]
            else:
                problems.append("is not a plain alternation")
            names: List[Set[int]] = []
            lits: Set[int] = set()
            if branches is not None:
                for br in branches:
                    if len(br) == 1 and str(br[0][0]) == "LITERAL":
                        lits.add(br[0][1])
                    elif len(br) == 1 and str(br[0][0]) == "MAX_REPEAT":
                        lo, hi, body = br[0][1]
                        if lo != 1 or str(hi) != "MAXREPEAT":
                            problems.append("name repetition is {%s,%s}, must be '+'" % (lo, hi))
                        if len(body) == 1 and str(body[0][0]) == "IN":
                            cls = body[0][1]
                            neg = any(str(x[0]) == "NEGATE" for x in cls)
                            members = {x[1] for x in cls if str(x[0]) == "LITERAL"}
                            other = [x for x in cls if str(x[0]) not in ("NEGATE", "LITERAL")]
                            if not neg or other:
                                problems.append("name class is not a negated set of literal delimiters "
                                                "(characters outside it would be dropped silently)")
                            names.append(members)
                        elif len(body) == 1 and str(body[0][0]) == "NOT_LITERAL":
                            names.append({body[0][1]})
                        else:
                            problems.append("name branch is not a character class")
                    elif len(br) == 1 and str(br[0][0]) == "IN" and all(str(x[0]) == "LITERAL" for x in br[0][1]):
                        lits |= {x[1] for x in br[0][1]}
                    else:
                        problems.append("unexpected branch %s" % (br,))
                if len(names) != 1:
                    problems.append("needs exactly one name branch")
                elif names[0] != DELIMS:
                    problems.append("name class excludes %s; it must exclude exactly '<', '>' and ','"
                                    % sorted(chr(x) for x in names[0]))
                if lits != DELIMS:
                    problems.append("delimiter literals are %s; must be exactly '<', '>' and ','"
                                    % sorted(chr(x) for x in lits))
            chk.ob("R15.1", "Serialization._parse_type:regex", not problems, f.loc(c),
                   "tokeniser regex %r %s: tokens would not concatenate back to the input, or names "
                   "would not be maximal runs of non-delimiters" % (pat, "; ".join(problems)), 4)

    # R15.2 ------------------------------------------------------------------
    n_raise = 0
    for g in [f] + list(inner.values()):
        for r in walk_no_nested(g.node):
            if isinstance(r, ast.Raise):
                n_raise += 1
                e = r.exc
                d = dotted(e.func if isinstance(e, ast.Call) else e) if e is not None else None
                ok = d is not None and d[-1] == "TypeNameError" and isinstance(e, ast.Call) and \
                    len(e.args) == 1 and not e.keywords and attr_path(e.args[0]) == (tn,)
                chk.ob("R15.2", "%s:raise(%s)" % (g.qualname, d[-1] if d else "bare"), ok, g.loc(r),
                       "%s raises %s: every rejection must be TypeNameError(type_name)"
                       % (g.qualname, unparse(r)[:50]), 1)
    chk.floor("R15.2", "raise statements in the parser", n_raise, 2)
    # the parse tree records the names as written: SubtypeTree keeps its arguments unchanged
    st = repo.cls_opt("SubtypeTree")
    st_init = st.methods.get("__init__") if st is not None else None
    if st_init is not None:
        chk.saw(st_init)
        ps_ = st_init.param_names()[1:]
        for a_ in walk_no_nested(st_init.node):
            if isinstance(a_, (ast.Assign, ast.AnnAssign)) and a_.value is not None:
                tg_ = a_.targets[0] if isinstance(a_, ast.Assign) else a_.target
                p_ = attr_path(tg_)
                if p_ and len(p_) == 2 and p_[0] == st_init.self_name:
                    as_given = isinstance(a_.value, ast.Name) and a_.value.id in ps_
                    chk.ob("R15.3", "SubtypeTree.__init__:%s-as-given" % p_[1], as_given, st_init.loc(a_),
                           "SubtypeTree stores %s as %s, not as the argument it was given: the tree no longer "
                           "records the type name as written (printing it does not give the name back, "
                           "distinct names collapse to one tree)" % (p_[1], unparse(a_.value)[:50]), 1)
    # an empty token list is never a type: the recursive parser rejects it (this is what rejects
    # "", "a<>", a trailing comma and a dangling '<')
    for g in inner.values():
        ps_ = g.param_names()
        if not ps_:
            continue
        tk = ps_[0]
        flow = CFG(g.node)
        empties: Set[int] = set()
        for tn, inf in flow.info.items():
            if inf.kind != "test":
                continue
            t_ = inf.ast
            for b in flow.g.successors(tn):
                bi_ = flow.info[b]
                if bi_.kind != "branch":
                    continue
                if isinstance(t_, ast.Name) and t_.id == tk and bi_.value is False:
                    empties.add(b)
                if isinstance(t_, ast.Compare) and len(t_.ops) == 1 and isinstance(t_.left, ast.Call) and \
                        attr_path(t_.left.func) == ("len",) and attr_path(t_.left.args[0]) == (tk,) and \
                        isinstance(t_.comparators[0], ast.Constant) and t_.comparators[0].value == 0:
                    op = t_.ops[0]
                    empty_when = True if isinstance(op, ast.Eq) else False if isinstance(op, (ast.NotEq, ast.Gt)) else None
                    if empty_when is not None and bi_.value == empty_when:
                        empties.add(b)
        # only the first such test (the one not preceded by a rebinding of the list) is about the input
        firsts = {b for b in empties if flow.dominates(b, b) and not any(
            isinstance(flow.info[x].ast, ast.Assign) and any(
                isinstance(y, ast.Name) and y.id == tk and isinstance(y.ctx, ast.Store) for y in ast.walk(flow.info[x].ast))
            for x in flow.info if flow.info[x].ast is not None and flow.dominates(x, b) and x != b)}
        ok_e = bool(firsts) and all(flow.exit not in flow.reachable(b) for b in firsts)
        chk.ob("R15.2", "%s:empty-input-rejected" % g.qualname, ok_e, g.loc(),
               "%s must raise TypeNameError when it is asked to parse no tokens (an empty parameter "
               "list 'a<>', a trailing comma, the empty string): a path returns normally instead" % g.qualname, 2)
    # acceptance depends on the token sequence alone: every test in the parser is about how many
    # tokens there are or whether a token is one of the three delimiters — never about *which*
    # name a token is, and never about anything outside the function
    chk.rule("R15.7", "every test of the parser is structural: lengths, delimiter comparisons, the "
                      "bracket stack; no lookup of names, no outside state")
    DEL = {"<", ">", ","}
    for g in [f] + list(inner.values()):
        local = set(g.param_names()) | {n_.id for n_ in walk_no_nested(g.node)
                                        if isinstance(n_, ast.Name) and isinstance(n_.ctx, ast.Store)}
        local |= set(f.param_names()) | {n_.id for n_ in walk_no_nested(f.node)
                                         if isinstance(n_, ast.Name) and isinstance(n_.ctx, ast.Store)}
        for t_ in walk_no_nested(g.node):
            test = t_.test if isinstance(t_, (ast.If, ast.While, ast.IfExp)) else None
            if test is None:
                continue
            bad = None
            for x in ast.walk(test):
                if isinstance(x, ast.Call) and not (isinstance(x.func, ast.Name) and x.func.id in ("len", "isinstance")):
                    bad = "calls %s" % unparse(x.func)
                elif isinstance(x, ast.Name) and isinstance(x.ctx, ast.Load) and x.id not in local \
                        and x.id not in ("len", "isinstance", "str", "True", "False", "None"):
                    bad = "reads %s, which is not a local of the parser" % x.id
                elif isinstance(x, ast.Constant) and isinstance(x.value, str) and x.value not in DEL:
                    bad = "compares with the name %r" % x.value
            chk.ob("R15.7", "%s:structural-test(%s)" % (g.qualname, "".join(
                ch for ch in unparse(test) if ch.isalnum())[:30]), bad is None, g.loc(t_),
                "%s decides on '%s', which %s: whether a type name is accepted must depend only on "
                "its bracket/comma structure" % (g.qualname, unparse(test)[:60], bad), 1)
    # "any length and nesting depth": nothing in the parser compares against a size limit, and the
    # recursion carries nothing but tokens and the tree built so far
    chk.rule("R15.6", "the parser has no size or depth limit: no comparison against a constant other "
                      "than 0/1, no counter parameter in the recursion")
    for g in [f] + list(inner.values()):
        for cmp_ in walk_no_nested(g.node):
            if not isinstance(cmp_, ast.Compare):
                continue
            for side in [cmp_.left] + list(cmp_.comparators):
                if isinstance(side, ast.Constant) and isinstance(side.value, int) and \
                        not isinstance(side.value, bool) and abs(side.value) > 1:
                    chk.ob("R15.6", "%s:no-limit(%s)" % (g.qualname, side.value), False, g.loc(cmp_),
                           "%s compares against the limit %s (%s): type names of any length and nesting "
                           "depth must be accepted" % (g.qualname, side.value, unparse(cmp_)[:50]), 1)
        extra = g.param_names()[2:]
        chk.ob("R15.6", "%s:parameters" % g.qualname, not extra or g is f, g.loc(),
               "%s takes %s besides the tokens and the tree: acceptance must depend on the token "
               "sequence alone" % (g.qualname, extra), 1)
    # the root destructuring
    # ``(tree,) = <the parsed roots>``: the one-element destructuring that enforces a single root
    roots = [n for n in walk_no_nested(f.node) if isinstance(n, ast.Assign)
             and isinstance(n.targets[0], (ast.Tuple, ast.List)) and len(n.targets[0].elts) == 1]
    ok = False
    for n in roots:
        cur = getattr(n, "_parent", None)
        while cur is not None and cur is not f.node:
            if isinstance(cur, ast.Try) and n in cur.body:
                for h in cur.handlers:
                    d = dotted(h.type) if h.type is not None else None
                    if d and d[-1] == "ValueError" and h.body and isinstance(h.body[-1], ast.Raise):
                        e = h.body[-1].exc
                        dd = dotted(e.func if isinstance(e, ast.Call) else e) if e is not None else None
                        ok = bool(dd) and dd[-1] == "TypeNameError"
            cur = getattr(cur, "_parent", None)
    chk.ob("R15.2", "Serialization._parse_type:root-destructuring-guarded", ok and len(roots) == 1, f.loc(),
           "the single-root destructuring must sit in a try whose except ValueError re-raises "
           "TypeNameError (several roots such as 'a,b' must be rejected with TypeNameError)", 2)
    tne = repo.cls("TypeNameError")
    mro = [c.name if hasattr(c, "name") else c for c in tne.mro()]
    chk.ob("R15.2", "TypeNameError:not-a-ValueError", "ValueError" not in " ".join(str(x) for x in mro)
           and "external.ValueError" not in mro, tne.loc(),
           "TypeNameError must not derive from ValueError (the root handler would intercept inner "
           "errors) - MRO %s" % mro, 1)
    # the exception's own constructor must not be able to fail on the (arbitrary) name it reports:
    # the name may only appear as a %-argument of a literal format, never inside the format
    for c_ in [tne] + [b for b in tne.mro() if hasattr(b, "methods")]:
        init_ = c_.methods.get("__init__") if hasattr(c_, "methods") else None
        if init_ is None:
            continue
        chk.saw(init_)
        for bo in walk_no_nested(init_.node):
            if isinstance(bo, ast.BinOp) and isinstance(bo.op, ast.Mod):
                lit = isinstance(bo.left, ast.Constant) and isinstance(bo.left.value, str)
                chk.ob("R15.2", "%s:format-is-literal" % init_.qualname, lit, init_.loc(bo),
                       "%s formats its message with a computed format string (%s): a type name "
                       "containing '%%' makes the constructor raise ValueError/TypeError instead of the "
                       "TypeNameError being reported" % (init_.qualname, unparse(bo.left)[:50]), 2)
            if isinstance(bo, ast.Call) and isinstance(bo.func, ast.Attribute) and bo.func.attr == "format" \
                    and not isinstance(bo.func.value, ast.Constant):
                chk.ob("R15.2", "%s:format-is-literal" % init_.qualname, False, init_.loc(bo),
                       "%s formats its message with a computed format string" % init_.qualname, 2)
        break
    chk.ob("R15.2", "TypeNameError:is-EncodeError-CodecError", "EncodeError" in mro and "CodecError" in mro,
           tne.loc(), "TypeNameError must stay an EncodeError/CodecError - MRO %s" % mro, 1)
    # parse trees come from the parser and from nowhere else: SubtypeTree(...) is constructed only
    # inside _parse_type (a tree built directly from a name skips the grammar for that name)
    for g_ in chk.repo.all_functions():
        inside_parser = False
        h_ = g_
        while h_ is not None:
            if h_.name == "_parse_type":
                inside_parser = True
            h_ = h_.outer
        if inside_parser or g_.module.name not in ("serialization", "auxdata"):
            continue
        for c in walk_no_nested(g_.node):
            if isinstance(c, ast.Call) and (dotted(c.func) or ("",))[-1] == "SubtypeTree":
                chk.saw(g_)
                chk.ob("R15.2", "%s:tree-built-outside-the-parser" % g_.qualname, False, g_.loc(c),
                       "%s builds a parse tree itself (%s): a type name reaches the codecs without having "
                       "been checked against the grammar" % (g_.qualname, unparse(c)[:50]), 2)
    for nm in ("encode", "decode"):
        m = ser.methods.get(nm)
        if m is None:
            continue
        chk.saw(m)
        # the tree handed to the codecs is the parser's result for the given name, on every path
        cfg_m = CFG(m.node)
        tn_param = [p_ for p_ in m.param_names() if "type" in p_][:1]
        parses = cfg_m.nodes_where(lambda y: isinstance(y, ast.Call) and isinstance(y.func, ast.Attribute)
                                   and y.func.attr == "_parse_type" and len(y.args) == 1
                                   and attr_path(y.args[0]) == tuple(tn_param))
        uses = cfg_m.nodes_where(lambda y: isinstance(y, ast.Call) and isinstance(y.func, ast.Attribute)
                                 and y.func.attr in ("_encode_tree", "_decode_tree"))
        wit_ = None
        for u_ in uses:
            if u_ in parses:
                continue
            wit_ = wit_ or cfg_m.path_avoiding(cfg_m.entry, u_, parses)
        chk.ob("R15.2", "Serialization.%s:parses-before-dispatch" % nm, bool(parses) and bool(uses) and wit_ is None,
               m.loc(), "Serialization.%s reaches the codec dispatch on a path that did not parse its type "
               "name (%s)" % (nm, " -> ".join(cfg_m.describe_path(wit_)) if wit_ else "no parse/dispatch call found"), 2)
        for c in walk_no_nested(m.node):
            if isinstance(c, ast.Call) and isinstance(c.func, ast.Attribute) and c.func.attr == "_parse_type":
                cur = getattr(c, "_parent", None)
                caught = False
                prev: ast.AST = c
                while cur is not None and cur is not m.node:
                    if isinstance(cur, ast.Try) and any(prev is s or any(x is prev for x in ast.walk(s))
                                                        for s in cur.body):
                        caught = True
                    prev, cur = cur, getattr(cur, "_parent", None)
                chk.ob("R15.2", "Serialization.%s:does-not-translate-TypeNameError" % nm, not caught, m.loc(c),
                       "Serialization.%s parses the type name inside a try: a malformed name could "
                       "surface as another exception" % nm, 1)

    # R15.3 ------------------------------------------------------------------
    n_d = 0
    for g in inner.values():
        cfg = CFG(g.node)
        for n in walk_no_nested(g.node):
            lst = None
            if isinstance(n, ast.Assign) and isinstance(n.targets[0], (ast.Tuple, ast.List)) and \
                    isinstance(n.value, ast.Name) and any(isinstance(e, ast.Starred) for e in n.targets[0].elts):
                lst = n.value.id
                need = sum(1 for e in n.targets[0].elts if not isinstance(e, ast.Starred))
            elif isinstance(n, ast.Expr) and isinstance(n.value, ast.Call) and \
                    isinstance(n.value.func, ast.Attribute) and n.value.func.attr == "pop" and \
                    isinstance(n.value.func.value, ast.Name):
                lst = n.value.func.value.id
            if lst is None:
                continue
            n_d += 1
            nn = cfg.node_of(n)
            nonempty: Set[int] = set()
            for tnode, i in cfg.info.items():
                # truthiness of the list itself: ``if tokens:`` / ``if not tokens:``
                if i.kind == "test" and isinstance(i.ast, ast.Name) and i.ast.id == lst:
                    for b in cfg.g.successors(tnode):
                        if cfg.info[b].kind == "branch" and cfg.info[b].value is True:
                            nonempty.add(b)
                    continue
                if i.kind != "test" or not isinstance(i.ast, ast.Compare) or len(i.ast.ops) != 1:
                    continue
                t = i.ast
                if not (isinstance(t.left, ast.Call) and attr_path(t.left.func) == ("len",)
                        and attr_path(t.left.args[0]) == (lst,)
                        and isinstance(t.comparators[0], ast.Constant) and t.comparators[0].value == 0):
                    continue
                for b in cfg.g.successors(tnode):
                    bi = cfg.info[b]
                    if bi.kind != "branch":
                        continue
                    op = t.ops[0]
                    ne = (isinstance(op, ast.Eq) and bi.value is False) or \
                        (isinstance(op, (ast.NotEq, ast.Gt)) and bi.value is True)
                    if ne:
                        nonempty.add(b)
            # rebinding of the list between the test and the use invalidates the test
            rebinds = cfg.nodes_where(lambda x: isinstance(x, ast.Assign) and any(
                lst in [y.id for y in ast.walk(t) if isinstance(y, ast.Name)] for t in x.targets)) - {nn}
            ok = bool(nonempty) and cfg.path_avoiding(cfg.entry, nn, nonempty) is None
            if ok:
                # no rebinding on a path from the establishing branch to the use
                for b in nonempty:
                    for r in rebinds:
                        if r in cfg.reachable(b) and nn in cfg.reachable(r) and not cfg.dominates(r, b):
                            # the rebinding must itself be followed by a fresh test
                            if cfg.path_avoiding(r, nn, nonempty - {b}) is not None and \
                                    not any(cfg.dominates(b2, nn) and b2 in cfg.reachable(r) for b2 in nonempty):
                                ok = False
            if not ok and isinstance(n, ast.Expr):
                ok = _pop_under_loop_invariant(g, n, lst)
            chk.ob("R15.3", "%s:%s" % (g.qualname, "".join(ch for ch in unparse(n) if ch.isalnum() or ch in "*,=_.")[:40]),
                   ok, g.loc(n),
                   "%s destructures/pops '%s' without a dominating non-empty test: an implicit "
                   "ValueError/IndexError would escape instead of TypeNameError" % (g.qualname, lst), 2)
    # constant-index subscripts of a local token list: guarded by a length test of that list,
    # or evaluated only after an earlier operand of the same boolean expression
    for g in inner.values():
        cfgx = CFG(g.node)
        for n in walk_no_nested(g.node):
            if isinstance(n, ast.Subscript) and isinstance(n.value, ast.Name) and isinstance(n.ctx, ast.Load) \
                    and isinstance(n.slice, (ast.Constant, ast.UnaryOp)) and n.value.id not in g.param_names():
                lst = n.value.id
                try:
                    nn = cfgx.node_of(n)
                except AnalysisError:
                    continue
                # first operand of its test?
                cur: ast.AST = n
                par = getattr(cur, "_parent", None)
                first = True
                while par is not None and not isinstance(par, ast.stmt):
                    if isinstance(par, ast.BoolOp) and par.values and not any(
                            x is cur or any(y is cur for y in ast.walk(x)) for x in par.values[:1]):
                        first = False
                    cur, par = par, getattr(par, "_parent", None)
                nonempty = set()
                for tn, i in cfgx.info.items():
                    if i.kind == "test" and isinstance(i.ast, ast.Compare) and "len(%s)" % lst in unparse(i.ast):
                        for b in cfgx.g.successors(tn):
                            nonempty.add(b)
                guarded = bool(nonempty) and cfgx.path_avoiding(cfgx.entry, nn, nonempty) is None
                guarded = guarded or _appended_by_left_loop(g, n, lst)
                n_d += 1
                chk.ob("R15.3", "%s:%s" % (g.qualname, "".join(ch for ch in unparse(n) if ch.isalnum() or ch in "_[]-")),
                       guarded or not first, g.loc(n),
                       "%s indexes the token list '%s' (%s) before anything established that it is "
                       "non-empty: a name that ends right after '<' raises IndexError instead of "
                       "TypeNameError" % (g.qualname, lst, unparse(n)), 2)
    chk.floor("R15.3", "destructuring / pop sites", n_d, 2)
    bracket_matching(chk, "R15.4")
    _remainder(chk, f, inner)
    for g_ in inner.values():
        names_are_not_delimiters(chk, "R15.7", g_)
    from .purity import codec_state
    codec_state(chk, "R15.5")


def names_are_not_delimiters(chk: Check, rule: str, g) -> None:
    """a token becomes the name of a tree node only where it is known not to be one of the three
    delimiters: the tests that dominate ``SubtypeTree(tok, ...)`` exclude '<', '>' and ',' for
    ``tok`` (tested under its own name or as ``L[0]`` of the list it was unpacked from; against a
    display, a string or a constant set bound in an enclosing scope)"""
    cfg = CFG(g.node)
    DEL = {"<", ">", ","}
    scopes = []
    cur = g
    while cur is not None:
        scopes.append(cur)
        cur = cur.outer

    def container(e: ast.AST, depth: int = 0) -> Optional[Set[str]]:
        try:
            v = ast.literal_eval(e)
            if isinstance(v, str):
                return set(v)
            return {x for x in v if isinstance(x, str)}
        except Exception:
            pass
        if isinstance(e, ast.Call) and isinstance(e.func, ast.Name) and e.func.id in ("frozenset", "set", "tuple", "list") \
                and len(e.args) == 1 and not e.keywords:
            return container(e.args[0], depth + 1)
        if isinstance(e, ast.Name) and depth < 3:
            for sc in scopes:
                binds = [x for x in walk_no_nested(sc.node) if isinstance(x, (ast.Assign, ast.AnnAssign)) and x.value is not None
                         and any(isinstance(t_, ast.Name) and t_.id == e.id
                                 for t_ in (x.targets if isinstance(x, ast.Assign) else [x.target]))]
                if len(binds) == 1:
                    return container(binds[0].value, depth + 1)
                if binds:
                    return None
            m_ = g.module
            for st in m_.tree.body:
                if isinstance(st, ast.Assign) and any(isinstance(t_, ast.Name) and t_.id == e.id for t_ in st.targets):
                    return container(st.value, depth + 1)
        return None
    n_sites = 0
    for n in walk_no_nested(g.node):
        tok = None
        if isinstance(n, ast.Call) and (dotted(n.func) or ("",))[-1] == "SubtypeTree" and n.args \
                and isinstance(n.args[0], ast.Name):
            tok = n.args[0].id
        if tok is None:
            continue
        n_sites += 1
        # other spellings of the token: L[0] when ``tok, *rest = L``
        same: List[str] = [tok]
        for x in walk_no_nested(g.node):
            if isinstance(x, ast.Assign) and len(x.targets) == 1 and isinstance(x.targets[0], (ast.Tuple, ast.List)) \
                    and x.targets[0].elts and isinstance(x.targets[0].elts[0], ast.Name) and x.targets[0].elts[0].id == tok \
                    and isinstance(x.value, ast.Name):
                same.append("%s[0]" % x.value.id)
            if isinstance(x, ast.Assign) and len(x.targets) == 1 and isinstance(x.targets[0], ast.Name) \
                    and x.targets[0].id == tok and isinstance(x.value, ast.Subscript):
                same.append(unparse(x.value))
        in_comp = any(isinstance(c_, (ast.GeneratorExp, ast.ListComp, ast.SetComp, ast.DictComp)) and any(n is y for y in ast.walk(c_))
                      for c_ in walk_no_nested(g.node))
        excluded: Set[str] = set()
        unknown = in_comp

        def learn(t: ast.AST, v: bool) -> None:
            nonlocal unknown
            if isinstance(t, ast.UnaryOp) and isinstance(t.op, ast.Not):
                learn(t.operand, not v)
                return
            if isinstance(t, ast.BoolOp):
                if (isinstance(t.op, ast.Or) and not v) or (isinstance(t.op, ast.And) and v):
                    for x in t.values:
                        learn(x, v)
                return
            if not (isinstance(t, ast.Compare) and len(t.ops) == 1):
                return
            l_, r_ = unparse(t.left), unparse(t.comparators[0])
            op = t.ops[0]
            if isinstance(op, (ast.In, ast.NotIn)) and l_ in same:
                if isinstance(op, ast.In) != v:
                    cs = container(t.comparators[0])
                    if cs is None:
                        unknown = True
                    else:
                        excluded.update(cs & DEL)
            elif isinstance(op, (ast.Eq, ast.NotEq)) and (l_ in same or r_ in same):
                other = t.comparators[0] if l_ in same else t.left
                c0 = const_str(other)
                if c0 in DEL and isinstance(op, ast.Eq) != v:
                    excluded.add(c0)
        try:
            for t, v in cfg.facts_at(cfg.node_of(n)):
                learn(t, v)
        except AnalysisError:
            continue
        missing = sorted(DEL - excluded)
        chk.ob(rule, "%s:name-is-not-a-delimiter(%s)" % (g.qualname, unparse(n)[:30]), not missing, g.loc(n),
               "%s makes the token %s the name of a type although nothing rules out that it is %s: a string "
               "with a delimiter in a name position is accepted" % (g.qualname, tok, " or ".join(repr(m_) for m_ in missing)), 3,
               undecided=bool(missing) and unknown)
    chk.extra["name_sites_in_parse"] = n_sites


def _is_empty_test(t: ast.AST, lst: str) -> bool:
    """``len(lst) == 0`` / ``not lst``"""
    if isinstance(t, ast.UnaryOp) and isinstance(t.op, ast.Not) and attr_path(t.operand) == (lst,):
        return True
    return isinstance(t, ast.Compare) and len(t.ops) == 1 and isinstance(t.ops[0], ast.Eq) and \
        isinstance(t.left, ast.Call) and attr_path(t.left.func) == ("len",) and t.left.args and \
        attr_path(t.left.args[0]) == (lst,) and isinstance(t.comparators[0], ast.Constant) and t.comparators[0].value == 0


def _enclosing_loop(n: ast.AST, fn: ast.AST) -> Optional[ast.For]:
    cur = getattr(n, "_parent", None)
    while cur is not None and cur is not fn:
        if isinstance(cur, (ast.For, ast.While)):
            return cur if isinstance(cur, ast.For) else None
        cur = getattr(cur, "_parent", None)
    return None


def _pop_under_loop_invariant(g, n: ast.Expr, lst: str) -> bool:
    """``lst.pop()`` once per iteration of a loop that starts with ``lst`` non-empty (a non-empty
    list display bound right before it, nothing else binds it) and ends every iteration with
    ``if <lst is empty>: break``: the list is non-empty at the start of every iteration"""
    loop = _enclosing_loop(n, g.node)
    if loop is None or not loop.body:
        return False
    last = loop.body[-1]
    closing = isinstance(last, ast.If) and not last.orelse and _is_empty_test(last.test, lst) \
        and len(last.body) == 1 and isinstance(last.body[0], ast.Break)
    if not closing:
        # ... or the pop itself is directly followed by ``if <lst is empty>: ...; break``
        par = getattr(n, "_parent", None)
        for fld in ("body", "orelse"):
            blk = getattr(par, fld, None)
            if isinstance(blk, list) and n in blk:
                i_ = blk.index(n)
                nxt = blk[i_ + 1] if i_ + 1 < len(blk) else None
                closing = isinstance(nxt, ast.If) and not nxt.orelse and _is_empty_test(nxt.test, lst) \
                    and bool(nxt.body) and isinstance(nxt.body[-1], ast.Break)
    if not closing:
        return False
    if any(isinstance(x, ast.Continue) for x in ast.walk(loop)):
        return False
    pops = [x for x in ast.walk(loop) if isinstance(x, ast.Call) and isinstance(x.func, ast.Attribute)
            and x.func.attr in ("pop", "clear", "remove") and attr_path(x.func.value) == (lst,)]
    if len(pops) != 1 or any(isinstance(x, (ast.For, ast.While)) for b in loop.body for x in ast.walk(b)):
        return False
    binds = [x for x in walk_no_nested(g.node) if isinstance(x, ast.Assign) and any(attr_path(t) == (lst,) for t in x.targets)]
    if len(binds) != 1 or not (isinstance(binds[0].value, ast.List) and binds[0].value.elts):
        return False
    # bound before the loop, in the same block
    par = getattr(loop, "_parent", None)
    for fld in ("body", "orelse", "finalbody"):
        blk = getattr(par, fld, None)
        if isinstance(blk, list) and loop in blk and binds[0] in blk and blk.index(binds[0]) < blk.index(loop):
            between = blk[blk.index(binds[0]) + 1:blk.index(loop)]
            return not any(isinstance(x, ast.Name) and x.id == lst for b in between for x in ast.walk(b))
    return False


def _appended_by_left_loop(g, n: ast.Subscript, lst: str) -> bool:
    """``lst[-1]`` after ``for ...: ...; lst.append(x); ...; break`` / ``else: <raise>``: the loop was
    left by ``break``, so its body ran and appended"""
    st: Optional[ast.AST] = n
    while st is not None and not isinstance(st, ast.stmt):
        st = getattr(st, "_parent", None)
    if st is None:
        return False
    par = getattr(st, "_parent", None)
    for fld in ("body", "orelse", "finalbody"):
        blk = getattr(par, fld, None)
        if not (isinstance(blk, list) and st in blk):
            continue
        prev = blk[:blk.index(st)]
        loops = [x for x in prev if isinstance(x, ast.For)]
        if not loops:
            return False
        loop = loops[-1]
        after = prev[prev.index(loop) + 1:]
        if any(isinstance(x, ast.Name) and x.id == lst and not isinstance(x.ctx, ast.Load) for b in after for x in ast.walk(b)):
            return False
        if not loop.orelse or not isinstance(loop.orelse[-1], (ast.Raise, ast.Return)):
            return False
        # an unconditional top-level append in the body, before every break
        for i, b in enumerate(loop.body):
            if isinstance(b, ast.Expr) and isinstance(b.value, ast.Call) and isinstance(b.value.func, ast.Attribute) \
                    and b.value.func.attr == "append" and attr_path(b.value.func.value) == (lst,):
                if not any(isinstance(x, ast.Break) for b2 in loop.body[:i] for x in ast.walk(b2)):
                    return not any(isinstance(x, ast.Call) and isinstance(x.func, ast.Attribute)
                                   and x.func.attr in ("pop", "clear", "remove") and attr_path(x.func.value) == (lst,)
                                   for x in ast.walk(loop))
        return False
    return False


def bracket_matching(chk: Check, rule: str) -> None:
    """The extent of a parameter list must be found with nesting awareness: the code that
    handles an opening '<' has to look at both '<' and '>' tokens of the remainder (depth
    counting / a stack / recursion per '<').  Matching the first or the last '>' mis-splits
    siblings that have parameters of their own."""
    ser = chk.repo.cls("Serialization")
    f = ser.methods.get("_parse_type")
    if f is None:
        raise AnalysisError("anchor vanished: Serialization._parse_type")
    inner = f.nested()
    g = inner.get("parse")
    if g is None:
        raise AnalysisError("anchor vanished: the nested parse() of Serialization._parse_type")
    chk.saw(g)
    opens = [n for n in walk_no_nested(g.node) if isinstance(n, ast.If) and isinstance(n.test, ast.Compare)
             and len(n.test.ops) == 1 and isinstance(n.test.ops[0], ast.Eq)
             and const_str(n.test.comparators[0]) == "<"]
    if not opens:
        raise AnalysisError("parse(): no branch handling an opening '<' found")
    br = opens[0]
    aware = False
    how = "no loop over the remaining tokens that distinguishes '<' from '>'"
    for lp in ast.walk(br):
        if not isinstance(lp, (ast.For, ast.While)):
            continue
        seen = {"<": False, ">": False}
        updates = 0
        for n in ast.walk(lp):
            if isinstance(n, ast.Compare) and len(n.ops) == 1 and isinstance(n.ops[0], (ast.Eq, ast.NotEq)):
                s = const_str(n.comparators[0]) or const_str(n.left)
                if s in seen:
                    seen[s] = True
            if isinstance(n, ast.Call) and isinstance(n.func, ast.Attribute) and n.func.attr in ("append", "pop"):
                updates += 1
            if isinstance(n, ast.AugAssign) and isinstance(n.op, (ast.Add, ast.Sub)):
                updates += 1
        if all(seen.values()) and updates >= 2:
            aware = True
    if not aware:
        # recursion per '<' is the other nesting-aware scheme
        rec = [c for c in ast.walk(br) if isinstance(c, ast.Call) and attr_path(c.func) == ("parse",)]
        cmp_open = [n for n in ast.walk(br) if isinstance(n, ast.Compare) and n is not br.test
                    and any(const_str(x) == "<" for x in [n.left] + list(n.comparators))]
        aware = bool(rec) and bool(cmp_open)
    chk.ob(rule, "Serialization._parse_type:bracket-matching-tracks-depth", aware, g.loc(br),
           "the closing '>' of a parameter list is not located with nesting awareness (%s): a type "
           "such as tuple<sequence<string>,sequence<int8_t>> is split at the wrong bracket and "
           "rejected or mis-parsed" % how, 3)


def _remainder(chk: Check, f, inner) -> None:
    g = inner.get("parse")
    if g is None:
        return
    rets = [r for r in walk_no_nested(g.node) if isinstance(r, ast.Return) and r.value is not None]
    always_empty = True
    for r in rets:
        v = r.value
        if isinstance(v, ast.Call) and attr_path(v.func) == ("parse",):
            continue      # tail call: inherits the callee's remainder
        if not (isinstance(v, ast.Tuple) and len(v.elts) == 2):
            always_empty = False
            continue
        second = v.elts[1]
        if not ((isinstance(second, (ast.List, ast.Tuple)) and not second.elts)):
            always_empty = False
    if always_empty:
        chk.ob("R15.6", "Serialization._parse_type:no-dropped-tokens", True, g.loc(),
               "parse() never returns leftover tokens", 2)
        return
    # otherwise every call site must look at the remainder
    unchecked = []
    for h in [f, g]:
        for c in walk_no_nested(h.node):
            if isinstance(c, ast.Call) and attr_path(c.func) == ("parse",):
                par = getattr(c, "_parent", None)
                if isinstance(par, ast.Return):
                    continue
                ok = False
                if isinstance(par, ast.Assign) and isinstance(par.targets[0], ast.Tuple) and \
                        len(par.targets[0].elts) == 2 and isinstance(par.targets[0].elts[1], ast.Name):
                    rem = par.targets[0].elts[1].id
                    ok = any(isinstance(t, ast.Compare) and rem in unparse(t) and "len(" in unparse(t)
                             for t in walk_no_nested(h.node)) or \
                        any(isinstance(t, ast.If) and rem in unparse(t.test) for t in walk_no_nested(h.node))
                if not ok:
                    unchecked.append(c)
    chk.ob("R15.6", "Serialization._parse_type:no-dropped-tokens", not unchecked,
           (f.loc(unchecked[0]) if unchecked else g.loc()),
           "parse() can return unparsed tokens and a caller (%s) ignores them: trailing junk such as "
           "'a<b>>' is accepted and dropped" % (unparse(getattr(unchecked[0], "_parent", unchecked[0]))[:60]
                                                  if unchecked else ""), 2)
