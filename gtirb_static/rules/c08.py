"""C08 — AuxData bytes follow the shared wire format of the other GTIRB APIs."""
from __future__ import annotations

import re
from typing import Dict, List

from ..model import AnalysisError
from ..report import Check
from ..wireshape import ShapeError
from .codecs import codec_facts
from .purity import no_result_caches, value_passthrough, codec_state, encode_stream

RULES = {
    "R08.1": "the encoder's wire-shape term of every type-name head equals the reference "
             "transcribed from the 'Serialization Format' comment and the auxdata_traits "
             "specialisations of include/gtirb/AuxData.hpp (decoder conformance follows with R07.1)",
    "R08.2": "strings are UTF-8 on both sides and the count prefix is a byte count",
    "R08.4": "Serialization.encode writes the codecs' bytes straight into the caller's stream, "
             "and nothing else",
    "R08.5": "no hidden state on the codec path: the bytes are a function of (type, value) only",
    "R08.3": "anchors: every type name the C++ traits and the Java codecs produce is a key of "
             "the Python codec table (exemption: 'byte', C++ only)",
}

U64 = ("int", 8, "little", False)
SEQ = [("count", "elements"), ("loop", "counted", (("tree", ("sub", 0, 1)),))]
# one line per wire type; the trait it was transcribed from in AuxData.hpp
REFERENCE: Dict[str, List[tuple]] = {
    "Addr": [U64],                                    # auxdata_traits<Addr>: uint64 LE
    "uint64_t": [U64],                                # is_endian_type: fixed width LE
    "uint32_t": [("int", 4, "little", False)],
    "uint16_t": [("int", 2, "little", False)],
    "uint8_t": [("int", 1, "little", False)],
    "int64_t": [("int", 8, "little", True)],
    "int32_t": [("int", 4, "little", True)],
    "int16_t": [("int", 2, "little", True)],
    "int8_t": [("int", 1, "little", True)],
    "bool": [("raw", 1, "byte")],                     # auxdata_traits<bool>: one byte
    "float": [("struct", "<f")],                      # IEEE binary32 LE
    "double": [("struct", "<d")],                     # IEEE binary64 LE
    "string": [("count", "bytes"), ("raw", "counted", "text:utf-8")],   # size() then bytes
    "UUID": [("raw", 16, "uuid")],                    # 16 raw bytes
    "Offset": [("raw", 16, "uuid"), U64],             # ElementId then Displacement
    "sequence": SEQ,                                  # uint64 count then elements
    "set": SEQ,
    "mapping": [("count", "elements"),
                ("loop", "counted", (("tree", ("sub", 0, 2)), ("tree", ("sub", 1, 2))))],
    "tuple": [("loop", "types", (("tree", ("each",)),))],          # fields in order
    "variant": [U64, ("tree", ("indexed", "the-index-on-the-wire"))],  # uint64 index, alternative
}


def run(chk: Check) -> None:
    chk.explanation = (
        "The encode-side wire-shape term of each type-name head (resolved through the codec "
        "table, class constants substituted, delegations flattened) is compared with a frozen "
        "reference transcribed from the format definition; type names produced by the C++ "
        "traits and the Java codecs are scanned as anchors.  Executing or modelling the Java/C++ "
        "implementations (the cross-decoding clause) is outside this technique and not decided.")
    for k, v in RULES.items():
        chk.rule(k, v)
    cf = codec_facts(chk.repo)
    loc = cf.ser.loc(cf.table_node) if cf.table_node is not None else cf.ser.loc()
    n = 0
    for head, ref in REFERENCE.items():
        c = cf.table.get(head)
        if c is None:
            chk.ob("R08.1", "wire[%s]" % head, False, loc,
                   "no codec registered for the wire type %r" % head, 1)
            continue
        n += 1
        for direction in ("encode", "decode"):
            try:
                ev, problems, sh = cf.norm_shape(c, direction, concrete=True)
            except ShapeError as ex:
                raise AnalysisError("codec %s is outside the wire-shape fragment: %s" % (c.qualname, ex))
            f = cf.provider(c, direction)
            chk.saw(f)
            want = list(ref)
            if direction == "decode" and head in ("float", "double"):
                pass
            ok = ev == want and not (direction == "encode" and problems)
            chk.ob("R08.1", "wire[%s].%s" % (head, direction), ok, f.loc(),
                   "%s (%s.%s) has wire shape %s; the format prescribes %s%s"
                   % (head, c.qualname, direction, _s(ev), _s(want),
                      "; " + "; ".join(problems) if problems else ""), 3)
        if head in ("float", "double"):
            bs = cf.class_const(c, "bytesize")
            chk.ob("R08.1", "wire[%s]:width" % head, bs == {"float": 4, "double": 8}[head], c.loc(),
                   "%s reads %r bytes" % (head, bs), 1)
    chk.floor("R08.1", "wire types with a codec", n, 14)
    # the count prefix itself is the uint64 codec
    u = chk.repo.cls("Uint64Codec")
    ev, _, _ = cf.norm_shape(u, "encode", concrete=True)
    chk.ob("R08.1", "count-prefix:uint64-le", ev == [U64], u.loc(),
           "count prefixes are written with Uint64Codec, whose shape is %s" % _s(ev), 2)

    # R08.2
    sc = cf.table.get("string")
    if sc is not None:
        for direction in ("encode", "decode"):
            ev, problems, _ = cf.norm_shape(sc, direction)
            texts = [e for e in ev if e[0] == "raw" and str(e[2]).startswith("text:")]
            ok = len(texts) == 1 and texts[0][2] == "text:utf-8" and not problems
            chk.ob("R08.2", "string.%s:utf-8" % direction, ok, cf.provider(sc, direction).loc(),
                   "string %s must use UTF-8 and a byte count (%s %s)" % (direction, _s(ev), problems), 2)
    _anchors(chk, cf)
    from .c14 import _to_protobuf, _typestate
    sub = chk.sub()
    _typestate(sub, chk.repo.cls("AuxData"))
    _to_protobuf(sub, chk.repo.cls("AuxData"))
    chk.adopt(sub, None, "R08.4")
    from .c07 import _tree_dispatch
    sub = chk.sub()
    _tree_dispatch(sub, cf)
    chk.adopt(sub, None, "R08.4")
    from .c15 import bracket_matching
    from .c14 import _unknown
    sub = chk.sub()
    bracket_matching(sub, "R08.4")
    _unknown(sub)
    chk.adopt(sub, None, "R08.4")
    encode_stream(chk, "R08.4")
    codec_state(chk, "R08.5", ("auxdata", "serialization"))
    no_result_caches(chk, "R08.5")
    value_passthrough(chk, "R08.5")
    from .purity import stream_discipline
    stream_discipline(chk, "R08.5")


def _s(ev) -> str:
    return repr(ev).replace("'", "")


def _anchors(chk: Check, cf) -> None:
    repo = chk.repo
    hpp = repo.read_text("include/gtirb/AuxData.hpp")
    cpp = re.findall(r'type_name\(\)\s*\{\s*return\s*"([^"]+)"', hpp)
    jdir = repo.root / "java/com/grammatech/gtirb/auxdatacodec"
    if not jdir.is_dir():
        raise AnalysisError("anchor vanished: java auxdatacodec directory")
    java: List[str] = []
    for p in sorted(jdir.glob("*.java")):
        txt = p.read_text(errors="replace")
        java += re.findall(r'getTypeName\(\)\s*\{\s*return\s*"([^"]+)"', txt)
    chk.floor("R08.3", "C++ type_name literals", len(cpp), 9)
    chk.floor("R08.3", "Java getTypeName literals", len(java), 6)
    keys = set(cf.table)
    for src, names in (("C++", cpp), ("Java", java)):
        for nm in sorted(set(names)):
            head = nm.rstrip("<")
            if head == "byte":
                continue     # C++ only; not part of the property's grammar
            if head in ("int", "uint"):
                ok = all("%s%d_t" % (head, w) in keys for w in (8, 16, 32, 64))
            else:
                ok = head in keys
            chk.ob("R08.3", "%s-name[%s]" % (src, head), ok, "include/gtirb/AuxData.hpp:1"
                   if src == "C++" else "java/com/grammatech/gtirb/auxdatacodec:1",
                   "the %s implementation produces the type name %r, for which the Python codec "
                   "table has no entry" % (src, head), 1)
    # second witness for the byte-count rule
    sj = jdir / "StringCodec.java"
    if sj.is_file():
        t = sj.read_text(errors="replace")
        ok = bool(re.search(r"getBytes\(", t)) and bool(re.search(r"\w+\.length\b", t))
        chk.extra["java_string_codec_counts_bytes"] = ok
