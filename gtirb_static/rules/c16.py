"""C16 — Owning collections behave like the built-in list, set and dict."""
from __future__ import annotations

import ast
from typing import Dict, List, Optional, Set, Tuple

from ..abc_model import AbcModel
from ..cfg import CFG
from ..model import (ClassInfo, FuncInfo, attr_path, dotted, expand_path, local_aliases,
                     unparse, walk_no_nested)
from ..report import Check
from ..types import TypeEnv
from .ownership import MUTATORS, direct_store_mutations, ownership

RULES = {
    "R16.1": "_from_iterable contract of collections.abc.Set: either overridden, or __init__ "
             "accepts exactly one positional iterable of elements",
    "R16.2": "a var-positional parameter of iterables is iterated or splatted into a variadic "
             "callee, never into a unary constructor",
    "R16.3": "abstract methods implemented; non-mutating operations do not alias or mutate the "
             "store; __ior__ returns self; pop on empty raises KeyError; every API method routes "
             "through the primitives",
    "R16.4a": "ListWrapper: no ownership hook runs before a store operation that can still fail "
              "for the given arguments has been validated",
    "R16.4b": "ListWrapper: no position computed before a re-entrant hook is used on the store "
              "after it",
    "R16.6": "item operations hand the caller's index to the wrapped list unchanged (negative "
             "and out-of-range indexes then behave as the built-in's)",
    "R16.7": "every method an owning collection resolves reaches the store only through the "
             "ownership primitives / hooks (shared with C04: R03.3, R03.5)",
    "R16.8": "operators a wrapper defines itself compute the built-in's result: forward op is "
             "self._data <op> other, reflected op is other <op> self._data; only commutative "
             "operators may alias their reflected form",
    "R16.4c": "pairing: in a list mutator every _add hook is followed by the store of that element "
              "before another _add hook can run (CFG: no store-free path from a hook to a hook)",
    "R16.9": "a caller-supplied iterable is materialised (list(v)) before ownership hooks that can "
             "re-enter the collection run over it",
    "R16.5": "the symbolic-expression mapping stores into a SortedDict mutated only by "
             "__setitem__/__delitem__",
}

UNARY_CTORS = {"set", "frozenset", "list", "tuple", "sorted", "bytearray", "bytes"}


def run(chk: Check) -> None:
    chk.explanation = (
        "The wrappers take most of their behaviour from collections.abc mixins; the mixins' "
        "documented structural contracts on the subclass (parsed from the interpreter's own "
        "_collections_abc.py) are checked against the class definitions, plus hook/validation "
        "ordering in ListWrapper on the CFG and re-entrancy through the resolved call graph.  "
        "Return values and exception types of every operation are not decided.")
    for k, v in RULES.items():
        chk.rule(k, v)
    repo = chk.repo
    abc = AbcModel()
    chk.extra["abc_source"] = abc.path
    types = TypeEnv(repo)
    wrappers: List[Tuple[ClassInfo, str]] = []
    for c in repo.classes.values():
        for a in ("abc.MutableSet", "abc.MutableSequence", "abc.MutableMapping"):
            if c.is_subclass_of(a):
                wrappers.append((c, a))
    chk.floor("R16.3", "collection classes", len(wrappers), 6)

    for c, a in wrappers:
        _from_iterable(chk, abc, c, a)
        _varargs(chk, c)
        _completeness(chk, abc, c, a)
    _list_hooks(chk, types)
    _symexpr_dict(chk, abc)
    _index_unchanged(chk)
    _operators(chk)
    _int_bounds(chk)
    _delegation_table(chk)
    _materialised(chk, types)
    own = ownership(repo)
    k = 0
    for prop, rule, construct, ok, loc, msg, facts in own.obs:
        if rule == "R03.5" or (rule == "R03.3" and ("hook" in construct or prop == "C04")):
            chk.ob("R16.7", construct, ok, loc, msg, facts)
            k += 1
    chk.floor("R16.7", "routing / pairing obligations", k, 21)


# ---------------------------------------------------------------------------


def _from_iterable(chk: Check, abc: AbcModel, c: ClassInfo, a: str) -> None:
    if a != "abc.MutableSet":
        return
    key = "%s._from_iterable" % c.qualname
    prov = c.find_method("_from_iterable")
    users = abc.users_of(a, "_from_iterable")
    # operators the class itself (or a repo base) overrides no longer depend on the mixin
    affected = [u for u in users if c.find_method(u) is None]
    if prov is not None:
        chk.saw(prov)
        ok = prov.is_classmethod
        chk.ob("R16.1", key, ok, prov.loc(),
               "%s resolves _from_iterable to %s, which is not a classmethod" % (c.qualname, prov.qualname), 2)
        return
    init = c.find_method("__init__")
    if init is None:
        chk.ob("R16.1", key, True, c.loc(), "no __init__: object() default", 0)
        return
    chk.saw(init)
    args = init.node.args
    pos = (args.posonlyargs + args.args)[1:]
    n_required = len(pos) - len(args.defaults)
    first = pos[0].arg if pos else (args.vararg.arg if args.vararg else None)
    ok = n_required <= 1 and first is not None
    why = ""
    if ok and pos:
        # the first positional parameter must be consumed as the iterable of elements
        me = init.self_name
        for n in walk_no_nested(init.node):
            if isinstance(n, (ast.Assign, ast.AnnAssign)):
                tg = n.targets if isinstance(n, ast.Assign) else [n.target]
                if isinstance(n.value, ast.Name) and n.value.id == first and any(
                        isinstance(t, ast.Attribute) and attr_path(t.value) == (me,) for t in tg):
                    ok = False
                    why = "first positional parameter '%s' is stored as an attribute, not iterated" % first
    if not ok and not why:
        why = "__init__ needs %d positional argument(s) before the elements" % n_required
    chk.ob("R16.1", key, ok, init.loc(),
           "%s inherits Set._from_iterable (= cls(it)) but %s cannot be called with one iterable "
           "of elements (%s); mixins depending on it: %s"
           % (c.qualname, init.qualname, why, ", ".join(affected)), 3)


def _varargs(chk: Check, c: ClassInfo) -> None:
    for f in c.methods.values():
        va = f.node.args.vararg
        if va is None:
            continue
        chk.saw(f)
        bad: List[ast.AST] = []
        for n in walk_no_nested(f.node):
            if isinstance(n, ast.Starred) and isinstance(n.value, ast.Name) and n.value.id == va.arg:
                call = getattr(n, "_parent", None)
                if isinstance(call, ast.Call):
                    d = dotted(call.func)
                    if d and len(d) == 1 and d[0] in UNARY_CTORS:
                        # mirroring the builtin's own arity is fine only in __init__ of a mapping
                        bad.append(call)
        # a loop over the arguments visits every argument: no return / break inside it
        for lp in walk_no_nested(f.node):
            if isinstance(lp, ast.For) and isinstance(lp.iter, ast.Name) and lp.iter.id == va.arg:
                exits = [x for x in ast.walk(lp) if isinstance(x, (ast.Return, ast.Break))]
                chk.ob("R16.2", "%s:visits-every-argument" % f.qualname, not exits, f.loc(exits[0]) if exits else f.loc(lp),
                       "%s leaves the loop over its arguments early (%s): the remaining arguments are "
                       "silently ignored" % (f.qualname, type(exits[0]).__name__.lower() if exits else ""), 1)
        is_map_init = f.name == "__init__" and c.is_subclass_of("abc.MutableMapping")
        chk.ob("R16.2", "%s(*%s)" % (f.qualname, va.arg), not bad or is_map_init,
               f.loc(bad[0]) if bad else f.loc(),
               "%s splats its var-positional parameter into the unary constructor %s: calling "
               "it with zero or several iterables raises TypeError instead of taking their union"
               % (f.qualname, unparse(bad[0])[:40] if bad else ""), 2)


def _completeness(chk: Check, abc: AbcModel, c: ClassInfo, a: str) -> None:
    for nm in abc.abstract_names(a):
        prov = c.find_method(nm)
        chk.ob("R16.3", "%s:abstract(%s)" % (c.qualname, nm), prov is not None, c.loc(),
               "%s does not implement the abstract method %s of %s" % (c.qualname, nm, a), 1)
    api = abc.api(a)
    names = set(api) | {"update", "extend", "append", "remove", "clear", "pop"}
    for k in c.mro_classes():
        names |= {m for m in k.methods if not m.startswith("_") or m.startswith("__")}
    names -= {"__init__", "__subclasshook__", "__class_getitem__", "__repr__", "__str__"}
    me_store = "_data" if any("_data" in unparse(k.node) for k in c.mro_classes()) else None
    for nm in sorted(names):
        prov = c.find_method(nm)
        if prov is None:
            m = abc.resolve(a, nm)
            if m is None:
                continue
            # an abc mixin: touches the object only through other API methods (E2)
            chk.ob("R16.3", "%s.%s:mixin" % (c.qualname, nm), True, c.loc(),
                   "abc mixin %s.%s routes through %s" % (m.cls, nm, sorted(m.primitives())), 1)
            continue
        chk.saw(prov)
        key = "%s.%s" % (c.qualname, nm)
        # aliasing: returning the store itself
        for r in walk_no_nested(prov.node):
            if isinstance(r, ast.Return) and r.value is not None and me_store and \
                    attr_path(r.value) == (prov.self_name, me_store):
                chk.ob("R16.3", key + ":returns-store", False, prov.loc(r),
                       "%s returns the wrapped store itself: callers could mutate it behind the "
                       "ownership hooks" % prov.qualname, 2)
        if nm in ("__or__", "__and__", "__sub__", "__xor__", "__ror__", "__rand__", "__rsub__",
                  "__rxor__", "__eq__", "__le__", "__lt__", "__ge__", "__gt__", "isdisjoint",
                  "__contains__", "__iter__", "__len__", "__getitem__", "index", "count",
                  "__reversed__", "keys", "items", "values", "get"):
            muts = direct_store_mutations(prov, "_data")
            calls = [n for n in walk_no_nested(prov.node) if isinstance(n, ast.Call)
                     and isinstance(n.func, ast.Attribute) and n.func.attr in MUTATORS
                     and attr_path(n.func.value) == (prov.self_name,)]
            chk.ob("R16.3", key + ":pure", not muts and not calls, prov.loc(),
                   "non-mutating operation %s mutates the collection (%s)"
                   % (prov.qualname, unparse((muts + calls)[0])[:40] if muts or calls else ""), 2)
        if nm in ("__ior__", "__iand__", "__isub__", "__ixor__", "__iadd__"):
            rets = [r for r in walk_no_nested(prov.node) if isinstance(r, ast.Return)]
            ok = bool(rets) and all(r.value is not None and attr_path(r.value) == (prov.self_name,)
                                    for r in rets)
            cfg = CFG(prov.node)
            # falling off the end returns None
            fall = [p for p in cfg.g.predecessors(cfg.exit)
                    if not isinstance(cfg.info[p].ast, ast.Return)]
            chk.ob("R16.3", key + ":returns-self", ok and not fall, prov.loc(),
                   "in-place operator %s must return self on every path" % prov.qualname, 2)
        if nm == "pop" and a == "abc.MutableSet":
            _pop_keyerror(chk, prov, key)


def _pop_keyerror(chk: Check, f: FuncInfo, key: str) -> None:
    """every ``next(...)`` on the store iterator sits in a try whose
    StopIteration handler raises KeyError"""
    ok = True
    found = False
    for n in walk_no_nested(f.node):
        if isinstance(n, ast.Call) and attr_path(n.func) == ("next",) and len(n.args) == 1:
            found = True
            cur = getattr(n, "_parent", None)
            good = False
            while cur is not None and cur is not f.node:
                if isinstance(cur, ast.Try):
                    for h in cur.handlers:
                        d = dotted(h.type) if h.type is not None else None
                        if d and d[-1] == "StopIteration":
                            for r in ast.walk(h):
                                if isinstance(r, ast.Raise) and r.exc is not None:
                                    e = r.exc.func if isinstance(r.exc, ast.Call) else r.exc
                                    dd = dotted(e)
                                    if dd and dd[-1] == "KeyError":
                                        good = True
                cur = getattr(cur, "_parent", None)
            ok = ok and good
    if found:
        chk.ob("R16.3", key + ":empty-raises-KeyError", ok, f.loc(),
               "%s lets StopIteration escape on an empty set; set.pop raises KeyError" % f.qualname, 2)


# ---------------------------------------------------------------------------


def _list_hooks(chk: Check, types: TypeEnv) -> None:
    repo = chk.repo
    lw = repo.cls("ListWrapper")
    subs = repo.subclasses(lw)
    # which hooks can re-enter a mutator of a ListWrapper?
    reentrant: Dict[str, List[str]] = {}
    for hook in ("_add", "_remove"):
        for s in [lw] + subs:
            f = s.methods.get(hook)
            if f is None:
                continue
            chk.saw(f)
            for n in walk_no_nested(f.node):
                if isinstance(n, ast.Call) and isinstance(n.func, ast.Attribute) \
                        and n.func.attr in MUTATORS:
                    for t in types.expr_types(n.func.value, f):
                        if t is lw or t.is_subclass_of(lw):
                            reentrant.setdefault(hook, []).append(
                                "%s -> %s.%s" % (f.qualname, unparse(n.func.value), n.func.attr))
                            chk.call_sites += 1
    chk.extra["reentrant_hooks"] = reentrant
    n_mut = 0
    for c in [lw] + subs:
        for f in c.methods.values():
            if f.name in ("__init__", "_add", "_remove"):
                continue
            muts = direct_store_mutations(f, "_data")
            if not muts:
                continue
            n_mut += 1
            chk.saw(f)
            cfg = CFG(f.node)
            al = local_aliases(f.node)
            me = f.self_name or "self"
            hooks: List[Tuple[str, int, ast.Call]] = []
            for n in walk_no_nested(f.node):
                if isinstance(n, ast.Call):
                    p = attr_path(n.func)
                    if p and len(p) == 2 and p[0] == me and p[1] in ("_add", "_remove"):
                        hooks.append((p[1], cfg.node_of(n), n))
            # ---- (a) fallible store operation after hooks, not validated before them
            for m in muts:
                if not isinstance(m, ast.Assign):
                    continue
                tgt = m.targets[0]
                if not isinstance(tgt, ast.Subscript):
                    continue
                idx = tgt.slice
                may_be_slice = _may_be_slice(f, idx)
                if not may_be_slice:
                    chk.ob("R16.4a", "%s:%s" % (f.qualname, _k(m)), True, f.loc(m),
                           "integer item assignment cannot fail after the range check", 1)
                    continue
                mn = cfg.node_of(m)
                before = [h for h in hooks if mn in cfg.reachable(h[1])]
                validated = _length_validation_before(cfg, f, [h[1] for h in before], m)
                chk.ob("R16.4a", "%s:hooks-before-validation" % f.qualname,
                       not before or validated, f.loc(m),
                       "%s runs the ownership hooks (%s) before %s, which still raises ValueError "
                       "for an extended slice whose length differs from the number of values: the "
                       "failed operation leaves elements detached but listed"
                       % (f.qualname, ", ".join(sorted({h[0] for h in before})), unparse(m)[:40]), 3)
            # ---- (c) an element is stored before the next ownership hook runs
            store_nodes = {cfg.node_of(m) for m in muts}
            add_nodes = [hn for hname, hn, _h in hooks if hname == "_add"]
            for hn in add_nodes:
                batched = False
                for s_ in cfg.g.successors(hn):
                    for other in add_nodes:
                        if s_ == other and s_ not in store_nodes:
                            batched = True
                        elif s_ not in store_nodes and cfg.path_avoiding(s_, other, store_nodes) is not None:
                            batched = True
                chk.ob("R16.4c", "%s:add-hook-then-store-per-element" % f.qualname, not batched, f.loc(),
                       "%s can run the _add ownership hook for a second element before the first one "
                       "is stored: the hook detaches an element from its current list (by value), so "
                       "an element named twice — or a hook that raises — leaves elements that claim "
                       "this owner, are in its UUID table, and are listed nowhere" % f.qualname, 3)
            # ---- (b) positions computed before a re-entrant hook, used after it
            for hname, hn, h in hooks:
                if hname not in reentrant:
                    continue
                stale: List[ast.AST] = []
                for m in muts:
                    mn = cfg.node_of(m)
                    if mn == hn or mn not in cfg.reachable(hn):
                        continue
                    pos = _position_exprs(m)
                    for pe in pos:
                        if _computed_before(cfg, f, pe, hn):
                            stale.append(m)
                            break
                chk.ob("R16.4b", "%s:index-live-across-hook(%s)" % (f.qualname, hname), not stale,
                       f.loc(stale[0]) if stale else f.loc(h),
                       "%s uses a position computed before self.%s(...) on the store afterwards "
                       "(%s); the hook can re-enter a mutator of the same list (%s), so the "
                       "position may be stale"
                       % (f.qualname, hname, unparse(stale[0])[:40] if stale else "",
                          "; ".join(reentrant.get(hname, []))[:120]), 3)
    chk.floor("R16.4", "ListWrapper store mutators", n_mut, 2)


def _k(m: ast.AST) -> str:
    return "".join(ch for ch in unparse(m) if ch.isalnum() or ch in "._[]=")[:40]


def _may_be_slice(f: FuncInfo, idx: ast.AST) -> bool:
    """the index is a parameter the function itself tests with
    isinstance(<p>, slice), and this use is not on the not-a-slice branch"""
    if not isinstance(idx, ast.Name) or idx.id not in f.param_names():
        return False
    tests = [n for n in walk_no_nested(f.node) if isinstance(n, ast.Call)
             and attr_path(n.func) == ("isinstance",) and len(n.args) == 2
             and isinstance(n.args[0], ast.Name) and n.args[0].id == idx.id
             and (dotted(n.args[1]) or ("",))[-1] == "slice"]
    if not tests:
        return False
    # on the orelse branch of such a test the index is known not to be a slice
    cur: Optional[ast.AST] = idx
    while cur is not None and cur is not f.node:
        par = getattr(cur, "_parent", None)
        if isinstance(par, ast.If) and any(t is par.test for t in tests):
            if cur in par.orelse:
                return False
        cur = par
    return True


def _length_validation_before(cfg: CFG, f: FuncInfo, hook_nodes: List[int], m: ast.AST) -> bool:
    """a comparison of two len(...) values whose failing branch raises, on
    every path before the first hook"""
    for n, i in cfg.info.items():
        if i.kind != "test" or i.ast is None:
            continue
        lens = [c for c in ast.walk(i.ast) if isinstance(c, ast.Call) and attr_path(c.func) == ("len",)]
        if len(lens) < 2 and not (len(lens) == 1 and isinstance(i.ast, ast.Compare)):
            continue
        raises = False
        for s in cfg.g.successors(n):
            reach = cfg.reachable(s)
            if cfg.exit not in reach and cfg.raise_exit in reach:
                raises = True
        if raises and all(cfg.dominates(n, hn) for hn in hook_nodes):
            return True
    return False


def _position_exprs(m: ast.AST) -> List[ast.AST]:
    if isinstance(m, ast.Assign) and isinstance(m.targets[0], ast.Subscript):
        return [m.targets[0].slice]
    if isinstance(m, ast.Delete) and isinstance(m.targets[0], ast.Subscript):
        return [m.targets[0].slice]
    if isinstance(m, ast.Call) and m.func.attr in ("insert", "pop", "__setitem__", "__delitem__") \
            and m.args:  # type: ignore[attr-defined]
        return [m.args[0]]
    return []


def _computed_before(cfg: CFG, f: FuncInfo, pe: ast.AST, hook_node: int) -> bool:
    """every name in the position expression is a parameter or was last bound
    on a path before the hook (i.e. not rebound after it)"""
    names = [n.id for n in ast.walk(pe) if isinstance(n, ast.Name)]
    if not names:
        return False
    params = set(f.param_names())
    after = cfg.reachable(hook_node) - {hook_node}
    for nm in names:
        if nm in params:
            continue
        rebinds = cfg.nodes_where(lambda x: isinstance(x, (ast.Assign, ast.AnnAssign, ast.AugAssign))
                                  and any(isinstance(t, ast.Name) and t.id == nm
                                          for t in (x.targets if isinstance(x, ast.Assign) else [x.target])))
        if rebinds and all(r in after for r in rebinds):
            return False
    return True


# ---------------------------------------------------------------------------


def _symexpr_dict(chk: Check, abc: AbcModel) -> None:
    repo = chk.repo
    c = repo.cls("ByteInterval._SymbolicExprDict")
    init = c.methods.get("__init__")
    ok = False
    loc = c.loc()
    if init is not None:
        chk.saw(init)
        for n in walk_no_nested(init.node):
            tgt = val = None
            if isinstance(n, ast.AnnAssign):
                tgt, val = n.target, n.value
            elif isinstance(n, ast.Assign) and len(n.targets) == 1:
                tgt, val = n.targets[0], n.value
            if tgt is not None and attr_path(tgt) == (init.self_name, "_data"):
                loc = init.loc(n)
                ok = isinstance(val, ast.Call) and (dotted(val.func) or ("",))[-1] == "SortedDict" \
                    and not val.args
        # the base constructor (plain dict) must not run afterwards
        for n in walk_no_nested(init.node):
            if isinstance(n, ast.Call) and isinstance(n.func, ast.Attribute) and \
                    n.func.attr == "__init__" and isinstance(n.func.value, ast.Call) and \
                    attr_path(n.func.value.func) == ("super",):
                ok = False
    chk.ob("R16.5", "ByteInterval._SymbolicExprDict:sorted-store", ok, loc,
           "the symbolic-expression mapping must keep its items in a fresh SortedDict (range "
           "lookups use irange; iteration is by offset)", 2)
    for k in c.mro_classes():
        for f in k.methods.values():
            if f.name == "__init__":
                continue
            muts = direct_store_mutations(f, "_data")
            if muts:
                chk.saw(f)
                chk.ob("R16.5", "%s:store-mutation" % f.qualname,
                       f.name in ("__setitem__", "__delitem__"), f.loc(muts[0]),
                       "%s mutates the sorted store directly; only __setitem__/__delitem__ may"
                       % f.qualname, 2)


def _index_unchanged(chk: Check) -> None:
    repo = chk.repo
    lw = repo.cls("ListWrapper")
    n = 0
    for c in [lw] + repo.subclasses(lw):
        for nm in ("__getitem__", "__setitem__", "__delitem__", "insert", "pop"):
            f = c.methods.get(nm)
            if f is None:
                continue
            chk.saw(f)
            ps = f.param_names()
            if len(ps) < 2:
                continue
            idx = ps[1]
            n += 1
            rebound = [x for x in walk_no_nested(f.node)
                       if isinstance(x, (ast.Assign, ast.AugAssign, ast.AnnAssign)) and any(
                           isinstance(t, ast.Name) and t.id == idx
                           for t in (x.targets if isinstance(x, ast.Assign) else [x.target]))]
            chk.ob("R16.6", "%s:index-parameter-unchanged" % f.qualname, not rebound,
                   f.loc(rebound[0]) if rebound else f.loc(),
                   "%s rewrites its index argument (%s) before applying it to the wrapped list: "
                   "negative or out-of-range indexes no longer behave like list's (e.g. slice(-1, 0) "
                   "is empty, so del x[-1] / pop() remove nothing)"
                   % (f.qualname, unparse(rebound[0])[:50] if rebound else ""), 2)
            # the operation on the store uses that parameter itself
            uses = []
            for x in walk_no_nested(f.node):
                if isinstance(x, ast.Subscript) and attr_path(x.value) == (f.self_name, "_data") and \
                        isinstance(getattr(x, "_parent", None), (ast.Assign, ast.Delete, ast.Return)) and \
                        not isinstance(x.ctx, ast.Load) or (
                            isinstance(x, ast.Subscript) and attr_path(x.value) == (f.self_name, "_data")
                            and isinstance(getattr(x, "_parent", None), ast.Return)):
                    uses.append(x)
            if uses:
                ok = all(attr_path(u.slice) == (idx,) for u in uses)
                chk.ob("R16.6", "%s:store-op-uses-argument" % f.qualname, ok, f.loc(uses[0]),
                       "%s applies %s to the wrapped list instead of the caller's index"
                       % (f.qualname, [unparse(u.slice) for u in uses]), 2)
    chk.floor("R16.6", "ListWrapper item operations", n, 3)


_OPS = {"__or__": ast.BitOr, "__and__": ast.BitAnd, "__sub__": ast.Sub, "__xor__": ast.BitXor}
_COMMUTATIVE = {"__or__", "__and__", "__xor__"}


def _operators(chk: Check) -> None:
    repo = chk.repo
    sw = repo.cls("SetWrapper")
    n = 0
    for c in [sw] + repo.subclasses(sw):
        for nm, op in _OPS.items():
            for refl in (False, True):
                name = ("__r" + nm[2:]) if refl else nm
                f = c.methods.get(name)
                alias = c.class_assigns.get(name)
                if alias is not None and isinstance(alias, ast.Name):
                    n += 1
                    ok = alias.id == nm and nm in _COMMUTATIVE
                    chk.ob("R16.8", "%s.%s:alias(%s)" % (c.qualname, name, alias.id), ok, c.loc(),
                           "%s.%s is an alias of %s: %s is not commutative, so 'plain - wrapper' (and the "
                           "mixins built on it, e.g. &= with another wrapper) compute the reversed "
                           "difference" % (c.qualname, name, alias.id, nm), 2)
                if f is None:
                    continue
                n += 1
                chk.saw(f)
                o = f.param_names()[1] if len(f.param_names()) > 1 else "other"
                rets = [r for r in walk_no_nested(f.node) if isinstance(r, ast.Return) and r.value is not None]
                ok = len(rets) == 1 and isinstance(rets[0].value, ast.BinOp) and isinstance(rets[0].value.op, op)
                if ok:
                    l, r = attr_path(rets[0].value.left), attr_path(rets[0].value.right)
                    want = ((o,), (f.self_name, "_data")) if refl else ((f.self_name, "_data"), (o,))
                    ok = (l, r) == want or (nm in _COMMUTATIVE and (r, l) == want)
                chk.ob("R16.8", "%s.%s:body" % (c.qualname, name), ok, f.loc(),
                       "%s.%s must return %s; it returns %s" % (
                           c.qualname, name,
                           ("other %s self._data" if refl else "self._data %s other") % op.__name__,
                           unparse(rets[0].value) if rets else "nothing"), 2)
    chk.extra["set_operators_defined"] = n


def _materialised(chk: Check, types: TypeEnv) -> None:
    repo = chk.repo
    lw = repo.cls("ListWrapper")
    for c in [lw] + repo.subclasses(lw):
        for f in c.methods.values():
            if f.name in ("__init__", "_add", "_remove"):
                continue
            me = f.self_name
            cfg = None
            for lp in walk_no_nested(f.node):
                if not (isinstance(lp, ast.For) and isinstance(lp.iter, ast.Name)):
                    continue
                hooks = [x for x in ast.walk(lp) if isinstance(x, ast.Call) and attr_path(x.func) == (me, "_add")]
                if not hooks:
                    continue
                chk.saw(f)
                it = lp.iter.id
                binds = [a for a in walk_no_nested(f.node) if isinstance(a, ast.Assign)
                         and any(isinstance(t, ast.Name) and t.id == it for t in a.targets)]
                fresh = bool(binds) and all(
                    isinstance(b.value, (ast.List, ast.Tuple)) or
                    (isinstance(b.value, ast.Call) and attr_path(b.value.func) in (("list",), ("tuple",)))
                    for b in binds)
                chk.ob("R16.9", "%s:iterates-a-copy(%s)" % (f.qualname, it), fresh, f.loc(lp),
                       "%s runs the re-entrant ownership hook over '%s', which is not always a fresh "
                       "list/tuple copy of the caller's iterable (%s): assigning another owner's live "
                       "list moves modules out of it while it is being iterated, skipping every other one"
                       % (f.qualname, it, "; ".join(unparse(b.value)[:40] for b in binds) or "unbound"), 2)


def _int_bounds(chk: Check) -> None:
    """a hand-written bounds test for an integer index must accept exactly -len <= i < len"""
    from .bounds import Outside, _constraint, _lin, _tight, NEG
    repo = chk.repo
    lw = repo.cls("ListWrapper")
    f = lw.methods.get("__setitem__")
    if f is None:
        return
    chk.saw(f)
    idx = f.param_names()[1]
    al = local_aliases(f.node)

    def sym(e: ast.AST):
        # i, i.__index__(), a local bound to either -> I ; len(self) / len(self._data) -> LEN
        if isinstance(e, ast.Name) and e.id == idx:
            return {"I": 1}, 0
        if isinstance(e, ast.Name) and e.id in al:
            try:
                return _lin(al[e.id], sym)       # a local bound once stands for its (linear) value
            except Outside:
                return None
        if isinstance(e, ast.Call) and isinstance(e.func, ast.Attribute) and e.func.attr == "__index__" \
                and not e.args:
            return sym(e.func.value)
        if isinstance(e, ast.Call) and attr_path(e.func) == ("len",) and len(e.args) == 1 and \
                attr_path(e.args[0]) in ((f.self_name,), (f.self_name, "_data")):
            return {"LEN": 1}, 0
        return None
    raises = [r for r in walk_no_nested(f.node) if isinstance(r, ast.Raise) and r.exc is not None
              and "IndexError" in unparse(r.exc)]
    if not raises:
        chk.ob("R16.6", "ListWrapper.__setitem__:int-bounds", True, f.loc(),
               "no hand-written bounds test (the wrapped list validates)", 0)
        return
    # the condition under which the IndexError is NOT raised
    r = raises[0]
    par = getattr(r, "_parent", None)
    cons = []
    ok = False
    why = ""
    try:
        # what is known to hold where the index is first used as an integer (guards in any
        # spelling: elif chain, guard clause with raise, nested ifs)
        from ..cfg import CFG as _CFG
        flow = _CFG(f.node)
        uses = [st for st in walk_no_nested(f.node)
                if isinstance(st, (ast.Assign, ast.AugAssign, ast.AnnAssign, ast.Expr))
                and any(isinstance(c, ast.Call) and isinstance(c.func, ast.Attribute) and c.func.attr == "__index__"
                        and attr_path(c.func.value) == (idx,) for c in ast.walk(st))]
        if not uses:
            raise Outside("the index is never used as an integer")
        guards = []
        for t, v in flow.facts_at(flow.node_of(uses[0])):
            if isinstance(t, ast.Call) and attr_path(t.func) == ("isinstance",):
                continue
            guards.append((t, v))
        if not guards:
            raise Outside("the integer index is used unguarded although an IndexError is raised by hand")
        for t, keep_when in guards:
            parts = [t]
            for p_ in parts:
                if not isinstance(p_, ast.Compare):
                    raise Outside("not a comparison: %s" % unparse(p_))
                terms = [p_.left] + list(p_.comparators)
                if not keep_when and len(p_.ops) > 1:
                    raise Outside("the integer path runs where the chain %s is false" % unparse(p_))
                for a, op, b in zip(terms, p_.ops, terms[1:]):
                    on = type(op).__name__
                    if on not in NEG:
                        raise Outside("operator in %s" % unparse(p_))
                    if not keep_when:
                        on = NEG[on]
                    la, lb = _lin(a, sym), _lin(b, sym)
                    # move everything to  I (+/-) LEN  form:  x - y <= c  with y possibly "-LEN"
                    d = dict(la[0])
                    for k_, v_ in lb[0].items():
                        d[k_] = d.get(k_, 0) - v_
                    d = {k_: v_ for k_, v_ in d.items() if v_}
                    k0 = la[1] - lb[1]
                    cons.append((tuple(sorted(d.items())), on, k0))
        want = {((("I", 1), ("LEN", -1)), "Lt", 0), ((("I", 1), ("LEN", 1)), "GtE", 0),
                ((("I", -1), ("LEN", -1)), "LtE", 0), ((("I", -1), ("LEN", 1)), "Gt", 0)}
        norm = set()
        for d_, on, k0 in cons:
            norm.add((d_, on, k0))
        upper = any(x in norm for x in [((("I", 1), ("LEN", -1)), "Lt", 0), ((("I", -1), ("LEN", 1)), "Gt", 0)])
        lower = any(x in norm for x in [((("I", 1), ("LEN", 1)), "GtE", 0), ((("I", -1), ("LEN", -1)), "LtE", 0)])
        ok = upper and lower and len(norm) == 2
        why = "accepts %s" % sorted(norm)
    except Outside as e:
        ok = False
        why = str(e)
    chk.ob("R16.6", "ListWrapper.__setitem__:int-bounds", ok, f.loc(r),
           "the bounds test for an integer index must accept exactly -len <= i < len (like list); %s"
           % why, 3)


_DELEGATES = {
    ("SetWrapper", "__contains__"): ("cmp", "In", ("param", 1), "$store"),
    ("SetWrapper", "__iter__"): "$store",
    ("SetWrapper", "__len__"): ("call", ("name", "len"), ("$store",)),
    ("SetWrapper", "add"): ("call", ("attr", "$store", "add"), (("param", 1),)),
    ("SetWrapper", "discard"): ("call", ("attr", "$store", "discard"), (("param", 1),)),
    ("ListWrapper", "__getitem__"): ("index", "$store", ("param", 1)),
    ("ListWrapper", "__len__"): ("call", ("name", "len"), ("$store",)),
    ("DictWrapper", "__getitem__"): ("index", "$store", ("param", 1)),
    ("DictWrapper", "__iter__"): "$store",
    ("DictWrapper", "__len__"): ("call", ("name", "len"), ("$store",)),
}


_OBSERVERS = {"__contains__", "__iter__", "__reversed__", "__len__", "index", "count", "get", "keys", "items",
              "values", "isdisjoint", "copy"}


def _observer_overrides(chk: Check) -> None:
    """an observer the abc mixins would provide (index, count, in, reversed, get, the views), or
    an inherited read primitive, that a wrapper defines itself must be the same-named operation
    of the wrapped store on the same arguments: anything else answers differently from the
    built-in collection for some argument"""
    repo = chk.repo
    roots = [repo.cls("SetWrapper"), repo.cls("ListWrapper"), repo.cls("DictWrapper")]
    for c in sorted({k for r in roots for k in [r] + repo.subclasses(r)}, key=lambda k: k.qualname):
        for nm in sorted(_OBSERVERS & set(c.methods)):
            if (c.name, nm) in _DELEGATES or any((r.name, nm) in _DELEGATES and c.is_subclass_of(r) for r in roots):
                continue            # the abstract primitives: compared with the table above
            f = c.methods[nm]
            chk.saw(f)
            me = f.self_name
            a = f.node.args
            ps = [x.arg for x in a.posonlyargs + a.args][1:]
            body = [s_ for s_ in f.node.body if not (isinstance(s_, ast.Expr) and isinstance(s_.value, ast.Constant))]
            ok = False
            got = unparse(body[0])[:60] if body else "-"
            if len(body) == 1 and isinstance(body[0], ast.Return) and body[0].value is not None:
                v = body[0].value
                store = (me, "_data")
                if isinstance(v, ast.Call) and isinstance(v.func, ast.Attribute) and v.func.attr == nm \
                        and attr_path(v.func.value) == store and all(
                            k.arg is not None and attr_path(k.value) == (k.arg,) for k in v.keywords):
                    # (the normal form may spell trailing arguments as name=name)
                    args = [attr_path(x) if not isinstance(x, ast.Starred) else ("*",) + (attr_path(x.value) or ())
                            for x in v.args] + [(k.arg,) for k in v.keywords]
                    want = [(p_,) for p_ in ps] + ([("*", a.vararg.arg)] if a.vararg else [])
                    ok = args == want and not a.kwarg and not a.kwonlyargs
                elif nm == "__contains__" and isinstance(v, ast.Compare) and len(v.ops) == 1 and \
                        isinstance(v.ops[0], ast.In) and attr_path(v.left) == tuple(ps[:1]) and \
                        attr_path(v.comparators[0]) == store:
                    ok = True
                elif nm in ("__iter__", "__reversed__", "__len__") and isinstance(v, ast.Call) and \
                        isinstance(v.func, ast.Name) and v.func.id == nm.strip("_") and len(v.args) == 1 \
                        and attr_path(v.args[0]) == store and not ps:
                    ok = True
            chk.ob("R16.3", "%s.%s:observer-is-the-store's" % (c.qualname, nm), ok, f.loc(),
                   "%s defines %s itself; it must be exactly self._data.%s(<its parameters, unchanged>) — "
                   "it is %s" % (c.qualname, nm, nm, got), 2)


def _write_overrides(chk: Check) -> None:
    """a subclass that redefines the storing primitive of DictWrapper / ListWrapper must still
    store the given value under the given key on every path that returns normally (the caller
    reads back the object it stored)"""
    repo = chk.repo
    for root, meth in (("DictWrapper", "__setitem__"), ("DictWrapper", "__delitem__")):
        for c in repo.subclasses(repo.cls(root)):
            f = c.methods.get(meth)
            if f is None:
                continue
            chk.saw(f)
            me = f.self_name
            ps = f.param_names()[1:]
            cfg = CFG(f.node)

            def is_store(n: ast.AST) -> bool:
                if meth == "__setitem__":
                    if isinstance(n, ast.Assign) and len(n.targets) == 1 and isinstance(n.targets[0], ast.Subscript) \
                            and attr_path(n.targets[0].value) == (me, "_data") \
                            and attr_path(n.targets[0].slice) == tuple(ps[:1]) and attr_path(n.value) == tuple(ps[1:2]):
                        return True
                else:
                    if isinstance(n, ast.Delete) and len(n.targets) == 1 and isinstance(n.targets[0], ast.Subscript) \
                            and attr_path(n.targets[0].value) == (me, "_data") \
                            and attr_path(n.targets[0].slice) == tuple(ps[:1]):
                        return True
                for x in ast.walk(n):
                    if isinstance(x, ast.Call) and isinstance(x.func, ast.Attribute) and x.func.attr == meth and \
                            isinstance(x.func.value, ast.Call) and attr_path(x.func.value.func) == ("super",) and \
                            [attr_path(a_) for a_ in x.args] == [(p_,) for p_ in ps]:
                        return True
                return False
            stores = cfg.nodes_where(is_store)
            wit = cfg.path_avoiding(cfg.entry, cfg.exit, stores)
            chk.ob("R16.3", "%s.%s:stores-on-every-path" % (c.qualname, meth), wit is None, f.loc(),
                   "a path through %s.%s returns without %s: %s"
                   % (c.qualname, meth, "storing the value under the key" if meth == "__setitem__" else "deleting the key",
                      " -> ".join(cfg.describe_path(wit)) if wit else "-"), 2)


def _store_bound_once(chk: Check) -> None:
    """the wrapped store is made once, by the constructor (a subclass may hand the base a store of
    another kind - the symbolic-expression mapping is a SortedDict): no other method binds
    ``self._data`` again.  Rebinding replaces a store of the right kind by a plain one and
    leaves every alias of the old store behind"""
    repo = chk.repo
    roots = [repo.cls("SetWrapper"), repo.cls("ListWrapper"), repo.cls("DictWrapper")]
    n = 0
    for c in {k for r in roots for k in [r] + repo.subclasses(r)}:
        for mname, f in c.methods.items():
            if mname == "__init__":
                continue
            me = f.self_name or "self"
            for x in walk_no_nested(f.node):
                tg = []
                if isinstance(x, ast.Assign):
                    tg = [t for t in x.targets]
                elif isinstance(x, (ast.AnnAssign, ast.AugAssign)):
                    tg = [x.target]
                elif isinstance(x, ast.Delete):
                    tg = list(x.targets)
                flat = [y for t in tg for y in ([t] if not isinstance(t, (ast.Tuple, ast.List)) else t.elts)]
                for t in flat:
                    if attr_path(t) == (me, "_data"):
                        n += 1
                        chk.saw(f)
                        chk.ob("R16.7", "%s.%s:store-bound-once" % (c.qualname, mname), False, f.loc(x),
                               "%s.%s binds self._data again (%s): the store the constructor made - of the kind the "
                               "collection needs - is replaced" % (c.qualname, mname, unparse(x)[:50]), 1)
    chk.extra["store_rebinds"] = n


def _list_write_overrides(chk: Check) -> None:
    """a subclass of ListWrapper that redefines a storing primitive still performs it through the
    inherited one on every path that returns normally, and turns away nothing the built-in list
    accepts: in particular a slice whose step is written out as 1 is a plain slice (it may grow or
    shrink the list), only steps other than 1 need replacements of equal length"""
    repo = chk.repo
    root = repo.cls("ListWrapper")
    for c in repo.subclasses(root):
        for meth in ("__setitem__", "__delitem__", "insert"):
            f = c.methods.get(meth)
            if f is None:
                continue
            chk.saw(f)
            ps = f.param_names()[1:]
            cfg = CFG(f.node)

            def is_super(n: ast.AST) -> bool:
                for x in ast.walk(n):
                    if isinstance(x, ast.Call) and isinstance(x.func, ast.Attribute) and x.func.attr == meth and \
                            isinstance(x.func.value, ast.Call) and attr_path(x.func.value.func) == ("super",) and \
                            [attr_path(a_) for a_ in x.args] == [(p_,) for p_ in ps] and not x.keywords:
                        return True
                return False
            stores = cfg.nodes_where(is_super)
            wit = cfg.path_avoiding(cfg.entry, cfg.exit, stores)
            chk.ob("R16.3", "%s.%s:stores-on-every-path" % (c.qualname, meth), wit is None, f.loc(),
                   "a path through %s.%s returns without performing the operation through ListWrapper.%s: %s"
                   % (c.qualname, meth, meth, " -> ".join(cfg.describe_path(wit)) if wit else "-"), 2)
            idx = ps[0] if ps else None
            # the raises the override adds, with the tests around them
            parents: Dict[int, ast.AST] = {}
            for n in ast.walk(f.node):
                for ch in ast.iter_child_nodes(n):
                    parents[id(ch)] = n
            for r in [n for n in walk_no_nested(f.node) if isinstance(n, ast.Raise)]:
                tests: List[Tuple[ast.AST, bool]] = []
                cur: ast.AST = r
                while id(cur) in parents:
                    par = parents[id(cur)]
                    if isinstance(par, ast.If):
                        tests.append((par.test, any(cur is b_ for b_ in par.body)))
                    cur = par

                def ev(t: ast.AST, s_: object) -> Optional[bool]:
                    """the test when the index is a slice whose step is s_ (None: not decided by that)"""
                    if isinstance(t, ast.UnaryOp) and isinstance(t.op, ast.Not):
                        v_ = ev(t.operand, s_)
                        return None if v_ is None else not v_
                    if isinstance(t, ast.BoolOp):
                        vs = [ev(x, s_) for x in t.values]
                        if isinstance(t.op, ast.And):
                            return False if any(v_ is False for v_ in vs) else True if all(v_ is True for v_ in vs) else None
                        return True if any(v_ is True for v_ in vs) else False if all(v_ is False for v_ in vs) else None
                    if isinstance(t, ast.Call) and attr_path(t.func) == ("isinstance",) and len(t.args) == 2 \
                            and attr_path(t.args[0]) == (idx,) and (dotted(t.args[1]) or ("",))[-1] == "slice":
                        return True
                    if isinstance(t, ast.Compare) and len(t.ops) == 1 and attr_path(t.left) == (idx, "step"):
                        rhs = t.comparators[0]
                        vals: Optional[List[object]] = None
                        if isinstance(rhs, ast.Constant):
                            vals = [rhs.value]
                        elif isinstance(rhs, (ast.Tuple, ast.List, ast.Set)) and all(isinstance(e_, ast.Constant) for e_ in rhs.elts):
                            vals = [e_.value for e_ in rhs.elts]
                        if vals is None:
                            return None
                        op = t.ops[0]
                        if isinstance(op, (ast.Is, ast.Eq)):
                            return s_ == vals[0] and type(s_) is type(vals[0])
                        if isinstance(op, (ast.IsNot, ast.NotEq)):
                            return not (s_ == vals[0] and type(s_) is type(vals[0]))
                        if isinstance(op, ast.In):
                            return any(s_ == v_ and type(s_) is type(v_) for v_ in vals)
                        if isinstance(op, ast.NotIn):
                            return not any(s_ == v_ and type(s_) is type(v_) for v_ in vals)
                    return None
                mentions_step = any(attr_path(x) == (idx, "step") for t_, _v in tests for x in ast.walk(t_))
                verdict: Optional[bool] = None         # True: cannot fire for a plain slice
                if mentions_step:
                    fires = []
                    for s_ in (None, 1):
                        vs = [ev(t_, s_) if pol else (None if ev(t_, s_) is None else not ev(t_, s_)) for t_, pol in tests]
                        fires.append(False if any(v_ is False for v_ in vs) else
                                     True if any(v_ is True and any(attr_path(x) == (idx, "step") for x in ast.walk(t_))
                                                 for v_, (t_, _p) in zip(vs, tests)) else None)
                    if all(x is False for x in fires):
                        verdict = True
                    elif any(x is True for x in fires):
                        verdict = False
                chk.ob("R16.4", "%s.%s:rejects-only-what-list-rejects" % (c.qualname, meth), verdict is True, f.loc(r),
                       "%s.%s raises on its own%s: the built-in list treats a slice whose step is None or 1 as a "
                       "plain slice, which takes a replacement of any length"
                       % (c.qualname, meth, " for a slice with step 1 (or no step)" if verdict is False else
                          " under a condition that is not understood"), 2, undecided=verdict is None)


def _delegation_table(chk: Check) -> None:
    """the abstract-method primitives of the three wrappers are the same-named operation of
    the wrapped store, nothing more"""
    from ..terms import OutsideFragment, function_term, show
    repo = chk.repo
    n = 0
    for (cname, meth), want in _DELEGATES.items():
        c = repo.cls(cname)
        f = c.methods.get(meth)
        if f is None:
            chk.ob("R16.3", "%s.%s:delegates" % (cname, meth), False, c.loc(), "primitive vanished", 1)
            continue
        chk.saw(f)
        n += 1
        ps = f.param_names()

        def subst(t):
            if t == "$store":
                return ("attr", ("self",), "_data")
            if isinstance(t, tuple) and len(t) == 2 and t[0] == "param" and isinstance(t[1], int):
                return ("param", ps[t[1]]) if t[1] < len(ps) else t
            if isinstance(t, tuple):
                return tuple(subst(x) for x in t)
            return t
        try:
            got = function_term(f)
        except OutsideFragment as e:
            got = ("?", str(e))
        w = subst(want)
        ok = got == w or (w[0] == "cmp" and got == ("cmpchain", (w[1],), (w[2], w[3])))
        chk.ob("R16.3", "%s.%s:delegates" % (cname, meth), ok, f.loc(),
               "%s.%s must be exactly %s; it is %s" % (cname, meth, show(w) if w[0] != "cmp" else "v in self._data",
                                                       show(got) if got[0] != "?" else got[1]), 2)
    # subclasses: a read primitive redefined further down must still be that delegation (the
    # mixins — get, in, pop with a default, the views — are built on it and on its exceptions)
    read_prims = {"__getitem__", "__contains__", "__iter__", "__len__"}
    for (cname, meth), want in _DELEGATES.items():
        if meth not in read_prims:
            continue
        for sub_ in repo.subclasses(repo.cls(cname)):
            f2 = sub_.methods.get(meth)
            if f2 is None:
                continue
            chk.saw(f2)
            ps2 = f2.param_names()

            def subst2(t):
                if t == "$store":
                    return ("attr", ("self",), "_data")
                if isinstance(t, tuple) and len(t) == 2 and t[0] == "param" and isinstance(t[1], int):
                    return ("param", ps2[t[1]]) if t[1] < len(ps2) else t
                if isinstance(t, tuple):
                    return tuple(subst2(x) for x in t)
                return t
            try:
                got2 = function_term(f2)
            except OutsideFragment as e:
                got2 = ("?", str(e))
            w2 = subst2(want)
            ok2 = got2 == w2 or (w2[0] == "cmp" and got2 == ("cmpchain", (w2[1],), (w2[2], w2[3])))
            chk.ob("R16.3", "%s.%s:delegates" % (sub_.qualname, meth), ok2, f2.loc(),
                   "%s redefines %s, which must stay exactly the wrapped store's operation (same result, "
                   "same exception for a missing key): it is %s"
                   % (sub_.qualname, meth, show(got2) if got2[0] != "?" else got2[1]), 2)
    _observer_overrides(chk)
    _write_overrides(chk)
    _list_write_overrides(chk)
    _store_bound_once(chk)
    # operators are the mixins' business: a collection class that defines one itself must be in the
    # table of operators whose bodies are checked (R16.8)
    ops = {"__ior__", "__iand__", "__ixor__", "__isub__", "__iadd__", "__imul__", "__and__", "__xor__", "__sub__",
           "__rand__", "__rxor__", "__rsub__", "__ror__", "__or__", "__le__", "__lt__", "__ge__", "__gt__", "__eq__",
           "__ne__", "isdisjoint"}
    checked_ops = {("SetWrapper", n_) for n_ in _OPS} | {("SetWrapper", "__r" + n_[2:]) for n_ in _OPS} | \
        {("SetWrapper", "__ior__")}
    roots = [repo.cls("SetWrapper"), repo.cls("ListWrapper"), repo.cls("DictWrapper")]
    cfg_cls = repo.cls_opt("CFG")
    for c_ in {k for r in roots for k in [r] + repo.subclasses(r)} | ({cfg_cls} if cfg_cls else set()):
        for nm_ in sorted(ops & set(c_.methods)):
            root_name = next((r.name for r in roots if c_ is r or c_.is_subclass_of(r)), c_.name)
            allowed = (root_name, nm_) in checked_ops and c_.name == root_name
            chk.ob("R16.8", "%s.%s:operator-from-mixin" % (c_.qualname, nm_), allowed, c_.methods[nm_].loc(),
                   "%s defines %s itself: the set/sequence/mapping operators come from the collections.abc "
                   "mixins (snapshot of the operand, de-duplication, one add/discard per element), which "
                   "are built on the checked primitives; a hand-written one is not covered by them"
                   % (c_.qualname, nm_), 1)
        # ... the same for an operator bound by a class-level assignment (__le__ = issubset)
        for st_ in c_.node.body:
            tgs_ = st_.targets if isinstance(st_, ast.Assign) else [st_.target] if isinstance(st_, ast.AnnAssign) \
                and st_.value is not None else []
            for tg_ in tgs_:
                if isinstance(tg_, ast.Name) and tg_.id in ops:
                    chk.ob("R16.8", "%s.%s:operator-from-mixin" % (c_.qualname, tg_.id), False,
                           c_.loc(st_),
                           "%s binds %s to another callable: the set/sequence/mapping operators come from the "
                           "collections.abc mixins (NotImplemented / TypeError for an operand that is not a "
                           "set, snapshot of the operand), which are built on the checked primitives"
                           % (c_.qualname, tg_.id), 1)
    # __setitem__/__delitem__ of DictWrapper
    dw = repo.cls("DictWrapper")
    for meth, kind in (("__setitem__", ast.Assign), ("__delitem__", ast.Delete)):
        f = dw.methods.get(meth)
        if f is None:
            continue
        chk.saw(f)
        ps = f.param_names()
        body = [s_ for s_ in f.node.body if not (isinstance(s_, ast.Expr) and isinstance(s_.value, ast.Constant))]
        ok = len(body) == 1 and isinstance(body[0], kind)
        if ok:
            t = body[0].targets[0]
            ok = isinstance(t, ast.Subscript) and attr_path(t.value) == (f.self_name, "_data") and \
                attr_path(t.slice) == (ps[1],)
            if ok and kind is ast.Assign:
                ok = attr_path(body[0].value) == (ps[2],)
        chk.ob("R16.3", "DictWrapper.%s:delegates" % meth, ok, f.loc(),
               "DictWrapper.%s must be the same operation on self._data with the same key%s"
               % (meth, " and value" if kind is ast.Assign else ""), 2)
    chk.floor("R16.3", "wrapper primitives compared with the store operation", n, 6)
