"""Boundary logic of the lookup helpers as difference constraints.

The helpers touch their integer inputs only through linear expressions and
comparisons, so the set of nodes they keep is a conjunction of difference
constraints over four symbols: B (first address/offset of the node), E (one
past its last byte, B + size), START and STOP (the query range).  The keep
condition extracted from the code (library fact of IntervalTree.overlap plus
the helper's own filters, with the closed-interval bias substituted) is
tightened and compared with the constraint set the property states.  This is
a normal-form comparison of comparison expressions; nothing is executed.
"""
from __future__ import annotations

import ast
import re
from typing import Dict, List, Optional, Set, Tuple

from ..cfg import CFG
from ..model import AnalysisError, FuncInfo, Repo, attr_path, dotted, expand_path, local_aliases, unparse, walk_no_nested
from ..report import Check
from .lookups import builder_bias, util_function

Lin = Tuple[Dict[str, int], int]
# a constraint  x - y <= c  is ((x, y), c)
Con = Tuple[Tuple[str, str], int]

REF_ON: Dict[Tuple[str, str], int] = {("B", "STOP"): -1, ("START", "E"): -1}
ZERO = "SIZE!=0"


class Outside(Exception):
    pass


def _lin(e: ast.AST, sym) -> Lin:
    if isinstance(e, ast.Constant) and isinstance(e.value, int) and not isinstance(e.value, bool):
        return {}, e.value
    if isinstance(e, ast.BinOp) and isinstance(e.op, (ast.Add, ast.Sub)):
        a, b = _lin(e.left, sym), _lin(e.right, sym)
        s = 1 if isinstance(e.op, ast.Add) else -1
        d = dict(a[0])
        for k, v in b[0].items():
            d[k] = d.get(k, 0) + s * v
        return {k: v for k, v in d.items() if v}, a[1] + s * b[1]
    if isinstance(e, ast.UnaryOp) and isinstance(e.op, ast.USub):
        a = _lin(e.operand, sym)
        return {k: -v for k, v in a[0].items()}, -a[1]
    r = sym(e)
    if r is None:
        raise Outside("term %s" % unparse(e))
    return r


def _constraint(left: Lin, op: str, right: Lin) -> List[Con]:
    """constraints equivalent to  left <op> right  (integers)"""
    d = dict(left[0])
    for k, v in right[0].items():
        d[k] = d.get(k, 0) - v
    d = {k: v for k, v in d.items() if v}
    k0 = left[1] - right[1]            # sum(d) + k0  <op> 0
    pos = [k for k, v in d.items() if v == 1]
    neg = [k for k, v in d.items() if v == -1]
    if len(d) != 2 or len(pos) != 1 or len(neg) != 1:
        raise Outside("comparison is not a difference of two quantities: %s" % d)
    x, y = pos[0], neg[0]              # x - y + k0 <op> 0
    if op == "Lt":
        return [((x, y), -k0 - 1)]
    if op == "LtE":
        return [((x, y), -k0)]
    if op == "Gt":
        return [((y, x), k0 - 1)]
    if op == "GtE":
        return [((y, x), k0)]
    raise Outside("operator %s" % op)


NEG = {"Lt": "GtE", "LtE": "Gt", "Gt": "LtE", "GtE": "Lt"}


def _tight(cs: List[Con]) -> Dict[Tuple[str, str], int]:
    out: Dict[Tuple[str, str], int] = {}
    for k, c in cs:
        out[k] = min(out.get(k, c), c)
    return out


class Transformed(Exception):
    """the code computes something recognisably different from what the rule requires"""


def quick_rejects(chk: Check, rule: str, f: FuncInfo, key: str, at: bool, bias: int) -> None:
    """an exit in front of the overlap loop ("nothing can match") is sound only under a condition
    that implies an empty answer: the tree is empty, the query ends at or before the smallest key
    (STOP <= tree.begin()), or it starts behind every node — for 'at' START >= tree.end(), for
    'on' START >= tree.end() - bias (stored intervals are one longer than their nodes, so a
    zero-sized node sits at tree.end() - bias and is found by 'at' but not by 'on').  Decided by
    linear arithmetic over the guards that lead to the exit."""
    al = local_aliases(f.node)
    ps = f.param_names()
    tree = ps[0]
    loops = [n for n in walk_no_nested(f.node) if isinstance(n, ast.For) and isinstance(n.iter, ast.Call)
             and isinstance(n.iter.func, ast.Attribute) and n.iter.func.attr == "overlap"]
    if len(loops) != 1:
        return
    lp = loops[0]
    inside = {id(x) for x in ast.walk(lp)}
    rets = [r for r in walk_no_nested(f.node) if isinstance(r, ast.Return) and id(r) not in inside]
    if not rets:
        return
    rng_names = {k for k, v in al.items() if isinstance(v, ast.Call) and attr_path(v.func) == ("get_desired_range",)}

    def sym(e: ast.AST, depth: int = 0) -> Optional[Lin]:
        p_ = attr_path(e)
        if p_ and len(p_) == 2 and p_[0] in rng_names and p_[1] in ("start", "stop"):
            return {p_[1].upper(): 1}, 0
        if p_ == ("adjustment",):
            return {"ADJ": 1}, 0
        if isinstance(e, ast.Call) and isinstance(e.func, ast.Attribute) and attr_path(e.func.value) == (tree,) \
                and not e.args and e.func.attr in ("begin", "end"):
            return {"TB" if e.func.attr == "begin" else "TE": 1}, 0
        if isinstance(e, ast.Name) and e.id in al and depth < 4:
            try:
                return _lin(al[e.id], lambda x: sym(x, depth + 1))
            except Outside:
                return None
        return None
    adjusted = "adjustment" in ps

    def atom(t: ast.AST, val: bool) -> Tuple[Optional[bool], str]:
        """(sound reject?, description): True sound, False a bound test that does not imply an
        empty answer, None not understood"""
        while isinstance(t, ast.UnaryOp) and isinstance(t.op, ast.Not):
            t, val = t.operand, not val
        if attr_path(t) == (tree,):
            return (True, "empty tree") if not val else (None, "tree not empty")
        if isinstance(t, ast.Call) and not t.args and not t.keywords and attr_path(t.func) == (tree, "is_empty"):
            return (True, "empty tree") if val else (None, "tree not empty")
        if isinstance(t, ast.Compare) and len(t.ops) == 1 and isinstance(t.left, ast.Call) and \
                attr_path(t.left.func) == ("len",) and t.left.args and attr_path(t.left.args[0]) == (tree,) and \
                isinstance(t.comparators[0], ast.Constant) and t.comparators[0].value == 0 and \
                isinstance(t.ops[0], (ast.Eq, ast.NotEq)):
            return (True, "empty tree") if (isinstance(t.ops[0], ast.Eq) == val) else (None, "tree not empty")
        if not (isinstance(t, ast.Compare) and len(t.ops) == 1):
            return None, unparse(t)[:50]
        op = type(t.ops[0]).__name__
        if op not in NEG:
            return None, unparse(t)[:50]
        if not val:
            op = NEG[op]
        try:
            l_, r_ = _lin(t.left, sym), _lin(t.comparators[0], sym)
        except Outside:
            return None, unparse(t)[:50]
        d = dict(l_[0])
        for k_, v_ in r_[0].items():
            d[k_] = d.get(k_, 0) - v_
        d = {k_: v_ for k_, v_ in d.items() if v_}
        k0 = l_[1] - r_[1]
        flip = {"Lt": "Gt", "LtE": "GtE", "Gt": "Lt", "GtE": "LtE"}
        q = "START" if "START" in d else "STOP" if "STOP" in d else None
        if q is None:
            return None, unparse(t)[:50]
        if d[q] == -1:
            d, k0, op = {k_: -v_ for k_, v_ in d.items()}, -k0, flip[op]
        want_adj = {"ADJ": 1} if adjusted else {}
        if q == "START" and d == dict({"START": 1, "TE": -1}, **want_adj) and op in ("GtE", "Gt"):
            c = -k0 if op == "GtE" else -k0 + 1          # START >= TE + c
            need = 0 if at else -bias
            return c >= need, "START >= tree.end() %+d (an empty answer needs %+d or more)" % (c, need)
        if q == "STOP" and d == dict({"STOP": 1, "TB": -1}, **want_adj) and op in ("LtE", "Lt"):
            c = -k0 if op == "LtE" else -k0 - 1          # STOP <= TB + c
            return c <= 0, "STOP <= tree.begin() %+d (an empty answer needs +0 or less)" % c
        return None, unparse(t)[:50]
    cfg = CFG(f.node)
    for r in rets:
        try:
            rn = cfg.node_of(r)
        except AnalysisError:
            continue
        # every way into the exit through the guards directly in front of it
        paths: List[List[Tuple[ast.AST, bool]]] = []

        def back(n: int, acc: List[Tuple[ast.AST, bool]], seen: Set[int]) -> None:
            preds = [p_ for p_ in cfg.g.predecessors(n) if p_ not in seen]
            went = False
            for p_ in preds:
                i_ = cfg.info[p_]
                if i_.kind == "branch" and i_.ast is not None:
                    went = True
                    back(i_.test if i_.test is not None else p_, acc + [(i_.ast, bool(i_.value))], seen | {p_})
                elif i_.kind in ("test", "join"):
                    went = True
                    back(p_, acc, seen | {p_})
            if not went or len(preds) > sum(1 for p_ in preds if cfg.info[p_].kind in ("branch", "test", "join")):
                paths.append(acc)
        back(rn, [], {rn})
        worst: Optional[bool] = True
        why = ""
        for pth in paths:
            vs = [atom(t_, v_) for t_, v_ in pth]
            if any(v_[0] is True for v_ in vs):
                continue
            bad = [v_ for v_ in vs if v_[0] is False]
            if bad:
                worst, why = False, bad[0][1]
                break
            worst, why = None, "; ".join(v_[1] for v_ in vs) or "unconditional exit"
        chk.ob(rule, key + ":exit-before-search-implies-empty-answer", worst is True, f.loc(r),
               "%s leaves before searching the tree under a condition that does not imply an empty answer: %s"
               % (key, why), 3, undecided=worst is None)


def on_impl(chk: Check, rule: str, fname: str = "_nodes_on_interval_tree_impl") -> None:
    repo = chk.repo
    f = util_function(repo, fname)
    chk.saw(f)
    key = "util.%s" % fname
    _b = builder_bias(util_function(repo, "_offset_interval"))
    quick_rejects(chk, rule, f, key, False, _b if _b is not None else 1)
    biases = {builder_bias(util_function(repo, b)) for b in ("_address_interval", "_offset_interval")}
    if len(biases) != 1 or None in biases:
        chk.ob(rule, key + ":bias", False, f.loc(), "interval builders disagree on the closed-interval bias", 1)
        return
    bias = biases.pop()
    try:
        cons, zero, facts = _extract_tree_helper(f, bias, want_yield_on=True)
    except Transformed as e:
        chk.ob(rule, key + ":prefilter-is-the-query", False, f.loc(), "%s: %s" % (key, e), 2)
        return
    except Outside as e:
        raise AnalysisError("%s is outside the boundary-logic fragment: %s" % (key, e))
    got = _tight(cons)
    ok = all(got.get(k, 10 ** 9) == v for k, v in REF_ON.items()) and \
        all(k in REF_ON or _implied(k, c, REF_ON) for k, c in got.items())
    chk.ob(rule, key + ":intersects-half-open", ok, f.loc(),
           "'on' must keep exactly the nodes with B < STOP and B+size > START (byte range [B, B+size) "
           "intersects the query [START, STOP)); the code keeps %s" % _show(got), facts)
    chk.ob(rule, key + ":excludes-zero-sized", zero, f.loc(),
           "'on' must exclude zero-sized nodes (a node of size 0 occupies no byte)", 2)


def _implied(k: Tuple[str, str], c: int, ref: Dict[Tuple[str, str], int]) -> bool:
    """extra constraints are fine only if they follow from the reference (E >= B)"""
    if k == ("B", "E"):
        return c >= 0
    return False


def _show(cs: Dict[Tuple[str, str], int]) -> str:
    return ", ".join("%s - %s <= %d" % (x, y, c) for (x, y), c in sorted(cs.items())) or "everything"


def _extract_tree_helper(f: FuncInfo, bias: int, want_yield_on: bool):
    """returns (constraints of the keep condition, zero-size excluded?, facts)"""
    al = local_aliases(f.node)
    ps = f.param_names()
    tree, addrs = ps[0], ps[1]
    getter = [p for p in ps if "getter" in p]
    adj = [p for p in ps if p == "adjustment"]
    rng_names = {k for k, v in al.items() if isinstance(v, ast.Call) and attr_path(v.func) == ("get_desired_range",)}
    loops = [n for n in walk_no_nested(f.node) if isinstance(n, ast.For) and isinstance(n.iter, ast.Call)
             and isinstance(n.iter.func, ast.Attribute) and n.iter.func.attr == "overlap"
             and attr_path(n.iter.func.value) == (tree,)]
    if len(loops) != 1 or not isinstance(loops[0].target, ast.Name):
        raise Outside("expected one loop over <tree>.overlap(lo, hi)")
    lp = loops[0]
    iv = lp.target.id

    def qsym(e: ast.AST) -> Optional[Lin]:
        p = attr_path(e)
        if p and len(p) == 2 and p[0] in rng_names and p[1] in ("start", "stop"):
            return {p[1].upper(): 1}, 0
        if p and adj and p == (adj[0],):
            return {"ADJ": 1}, 0
        return None
    al_b = local_aliases(f.node)

    def _bound(e: ast.AST) -> ast.AST:
        return al_b.get(e.id, e) if isinstance(e, ast.Name) else e
    for which, arg in (("lower", lp.iter.args[0]), ("upper", lp.iter.args[1])):
        b_ = _bound(arg)
        calls_ = [c for c in ast.walk(b_) if isinstance(c, ast.Call)]
        if calls_:
            # the bound is a function (min, max, abs, ...) of the query bounds: not the query
            raise Transformed("the tree is searched from a transformed %s bound (%s): the query range is "
                              "start..stop as given (an empty or reversed range selects nothing)"
                              % (which, unparse(b_)[:60]))
    lo = _lin(_bound(lp.iter.args[0]), qsym)
    hi = _lin(_bound(lp.iter.args[1]), qsym)
    if lo != ({"START": 1, "ADJ": 1}, 0) and lo != ({"START": 1}, 0):
        raise Outside("overlap lower bound is %s" % unparse(lp.iter.args[0]))
    if hi != ({"STOP": 1, "ADJ": 1}, 0) and hi != ({"STOP": 1}, 0):
        raise Outside("overlap upper bound is %s" % unparse(lp.iter.args[1]))
    if ("ADJ" in lo[0]) != ("ADJ" in hi[0]) or (adj and "ADJ" not in lo[0]):
        raise Outside("adjustment applied to one bound only")
    # library fact: overlap(lo, hi) yields intervals with begin < hi and end > lo;
    # tree intervals are (B, E + bias) in the (adjusted) key space
    cons: List[Con] = [(("B", "STOP"), -1), (("START", "E"), bias - 1)]
    facts = 4
    # bindings inside the loop
    node_names: Set[str] = set()
    ivl_names: Set[str] = set()
    zero = False

    def sym(e: ast.AST) -> Optional[Lin]:
        q = qsym(e)
        if q is not None:
            if "ADJ" in q[0]:
                raise Outside("adjustment used in a filter")
            return q
        if isinstance(e, ast.Attribute) and isinstance(e.value, ast.Name) and e.value.id in ivl_names:
            if e.attr == "begin":
                return {"B": 1}, 0
            if e.attr == "end":
                return {"E": 1}, bias
        if isinstance(e, ast.Call) and isinstance(e.func, ast.Attribute) and not e.args and \
                isinstance(e.func.value, ast.Name) and e.func.value.id in ivl_names and e.func.attr == "length":
            return {"E": 1, "B": -1}, bias
        return None

    def cond(t: ast.AST, keep_when: bool) -> None:
        """add the constraints of 'keep iff t == keep_when'"""
        nonlocal zero, facts
        if isinstance(t, ast.UnaryOp) and isinstance(t.op, ast.Not):
            return cond(t.operand, not keep_when)
        if isinstance(t, ast.Compare) and len(t.ops) == 1:
            op = type(t.ops[0]).__name__
            if op in ("Is", "IsNot") and isinstance(t.comparators[0], ast.Constant) and t.comparators[0].value is None:
                return      # presence of the interval
            if op in ("Eq", "NotEq"):
                l, r = _lin(t.left, sym), _lin(t.comparators[0], sym)
                d = dict(l[0])
                for k, v in r[0].items():
                    d[k] = d.get(k, 0) - v
                d = {k: v for k, v in d.items() if v}
                if d in ({"E": 1, "B": -1},) and l[1] - r[1] == 0:
                    # size == 0 / size != 0
                    if (op == "Eq") != keep_when:
                        zero = True
                        facts += 1
                        return
                raise Outside("equality test %s" % unparse(t))
            if op not in NEG:
                raise Outside("comparison %s" % unparse(t))
            if not keep_when:
                op = NEG[op]
            cons.extend(_constraint(_lin(t.left, sym), op, _lin(t.comparators[0], sym)))
            facts += 2
            return
        if isinstance(t, ast.Name) and t.id in ivl_names:
            return
        # truthiness of a linear expression: nonzero
        try:
            l = _lin(t, sym)
        except Outside:
            raise
        if l == ({"E": 1, "B": -1}, 0):
            if keep_when:
                zero = True
                facts += 1
                return
            raise Outside("keeps only zero-sized nodes")
        if l[0] == {"E": 1, "B": -1} and l[1] > 0:
            return      # size + k with k > 0 is never zero: the test filters nothing
        raise Outside("truthiness of %s (= %s) is not a size test" % (unparse(t), l))

    def block(stmts: List[ast.stmt]) -> bool:
        """the keep condition = the outcomes of the loop's tests that dominate the yield (guards
        as 'if c: continue', nested ifs, one 'or' of skip conditions or one 'and' of keep
        conditions all give the same facts)"""
        from ..cfg import CFG as _CFG
        ys = [s for s in ast.walk(lp) if isinstance(s, ast.Expr) and isinstance(s.value, ast.Yield)]
        if not ys:
            return False
        if len(ys) != 1:
            raise Outside("several yields in the loop")
        for st in sorted((n for n in ast.walk(lp) if isinstance(n, ast.Assign)), key=lambda n: n._ord):
            if not isinstance(st.targets[0], ast.Name):
                raise Outside("assignment %s" % unparse(st))
            v = st.value
            if attr_path(v) == (iv, "data"):
                node_names.add(st.targets[0].id)
                continue
            if isinstance(v, ast.Call) and getter and attr_path(v.func) == (getter[0],) and len(v.args) == 1 \
                    and (attr_path(v.args[0]) == (iv, "data") or
                         (isinstance(v.args[0], ast.Name) and v.args[0].id in node_names)):
                ivl_names.add(st.targets[0].id)
                continue
            raise Outside("assignment %s" % unparse(st))
        for st in ast.walk(lp):
            if isinstance(st, (ast.While, ast.Try, ast.With, ast.Return, ast.Break, ast.Raise)) or \
                    (isinstance(st, ast.For) and st is not lp):
                raise Outside("statement %s in the loop" % type(st).__name__)
        flow = _CFG(f.node)
        inside = {id(n) for n in ast.walk(lp)}
        loop_tests = {id(i.ast) for i in flow.info.values() if i.kind == "test" and id(i.ast) in inside}
        used: Set[int] = set()
        for t, v in flow.facts_at(flow.node_of(ys[0])):
            if id(t) in loop_tests:
                cond(t, v)
                used.add(id(t))
        if loop_tests - used:
            raise Outside("a test in the loop does not decide whether the node is yielded")
        _check_yield(ys[0].value)
        return True

    def _check_yield(y: ast.Yield) -> None:
        v = y.value
        if not (attr_path(v) == (iv, "data") or (isinstance(v, ast.Name) and v.id in node_names)):
            raise Outside("yields %s, not the node of the interval" % (unparse(v) if v else None))
    if not block(lp.body):
        raise Outside("no yield in the loop")
    return cons, zero, facts


def at_impl(chk: Check, rule: str, fname: str = "_nodes_at_interval_tree_impl") -> None:
    """'at': the overlap pre-filter keeps every node whose begin is in the query
    (needs bias >= 1 for zero-sized nodes) and the final test is begin in range"""
    repo = chk.repo
    f = util_function(repo, fname)
    chk.saw(f)
    key = "util.%s" % fname
    _b = builder_bias(util_function(repo, "_offset_interval"))
    quick_rejects(chk, rule, f, key, True, _b if _b is not None else 1)
    al = local_aliases(f.node)
    ps = f.param_names()
    tree = ps[0]
    rng_names = {k for k, v in al.items() if isinstance(v, ast.Call) and attr_path(v.func) == ("get_desired_range",)}
    loops = [n for n in walk_no_nested(f.node) if isinstance(n, ast.For) and isinstance(n.iter, ast.Call)
             and isinstance(n.iter.func, ast.Attribute) and n.iter.func.attr == "overlap"
             and attr_path(n.iter.func.value) == (tree,)]
    if len(loops) != 1:
        raise AnalysisError("%s: expected one loop over <tree>.overlap" % key)
    lp = loops[0]

    def qsym(e: ast.AST) -> Optional[Lin]:
        p = attr_path(e)
        if p and len(p) == 2 and p[0] in rng_names and p[1] in ("start", "stop"):
            return {p[1].upper(): 1}, 0
        if p == ("adjustment",):
            return {"ADJ": 1}, 0
        return None
    transformed = [c for a_ in lp.iter.args[:2] for c in ast.walk(al.get(a_.id, a_) if isinstance(a_, ast.Name) else a_)
                   if isinstance(c, ast.Call)]
    if transformed:
        chk.ob(rule, key + ":prefilter-covers-query", False, f.loc(lp),
               "%s searches the tree from a transformed bound (%s): the pre-filter must be the query "
               "range start..stop as given" % (key, unparse(transformed[0])[:60]), 2)
        return
    try:
        lo = _lin(lp.iter.args[0], qsym)
        hi = _lin(lp.iter.args[1], qsym)
    except Outside as e:
        raise AnalysisError("%s: %s" % (key, e))
    ok = lo[0].get("START") == 1 and lo[1] <= 0 and hi[0].get("STOP") == 1 and hi[1] >= 0 and \
        lo[0].get("ADJ", 0) == hi[0].get("ADJ", 0) == (1 if "adjustment" in ps else 0)
    chk.ob(rule, key + ":prefilter-covers-query", ok, f.loc(lp),
           "the tree pre-filter overlap(%s, %s) must cover [START, STOP) shifted by the adjustment"
           % (unparse(lp.iter.args[0]), unparse(lp.iter.args[1])), 3)
    # final membership test: <bounds>.begin in <range>
    tests = [n for n in ast.walk(lp) if isinstance(n, ast.Compare) and len(n.ops) == 1
             and isinstance(n.ops[0], ast.In)]
    ok = len(tests) == 1 and isinstance(tests[0].left, ast.Attribute) and tests[0].left.attr == "begin" \
        and attr_path(tests[0].comparators[0]) and attr_path(tests[0].comparators[0])[0] in rng_names \
        and len(attr_path(tests[0].comparators[0])) == 1
    chk.ob(rule, key + ":first-address-in-range", ok, f.loc(lp),
           "'at' must keep exactly the nodes whose first address is a member of the requested range "
           "(step included): expected '<bounds>.begin in <range>', found %s"
           % ([unparse(t) for t in tests] or "no membership test"), 3)
    if ok:
        # the bounds come from the getter applied to the interval's node, and the yield is that node
        t = tests[0]
        bname = t.left.value.id if isinstance(t.left.value, ast.Name) else None
        bound_ok = False
        for n in ast.walk(lp):
            if isinstance(n, ast.Assign) and attr_path(n.targets[0]) == (bname,) and isinstance(n.value, ast.Call) \
                    and attr_path(n.value.func) in (("bounds_getter",), ("interval_getter",)):
                bound_ok = True
        ys = [y for y in ast.walk(lp) if isinstance(y, ast.Yield)]
        node_names = {n.targets[0].id for n in ast.walk(lp) if isinstance(n, ast.Assign)
                      and isinstance(n.targets[0], ast.Name) and attr_path(n.value) == (lp.target.id, "data")}
        y_ok = len(ys) == 1 and (attr_path(ys[0].value) == (lp.target.id, "data") or
                                 (isinstance(ys[0].value, ast.Name) and ys[0].value.id in node_names))
        # the yield is reached exactly on the outcome "member of the range" (guards in any spelling)
        under = False
        if len(ys) == 1:
            from ..cfg import CFG as _CFG
            flow = _CFG(f.node)
            facts = flow.facts_at(flow.node_of(ys[0]))
            under = any(tt is t and vv for tt, vv in facts)
        chk.ob(rule, key + ":yields-node-under-test", bound_ok and y_ok and under, f.loc(lp),
               "'at' must yield the interval's node exactly when the membership test holds", 2)


def scan_on(chk: Check, rule: str) -> None:
    """util.nodes_on: range(max(start, b), min(stop, e)) non-empty"""
    f = util_function(chk.repo, "nodes_on")
    chk.saw(f)
    key = "util.nodes_on"
    al = local_aliases(f.node)
    rng_names = {k for k, v in al.items() if isinstance(v, ast.Call) and attr_path(v.func) == ("get_desired_range",)}
    node_rng: Dict[str, Tuple[Lin, Lin]] = {}

    def nsym(e: ast.AST) -> Optional[Lin]:
        if isinstance(e, ast.Name) and e.id in al:
            e2 = al[e.id]
            if isinstance(e2, ast.Attribute) and e2.attr == "address":
                return {"B": 1}, 0
            if isinstance(e2, ast.Attribute) and e2.attr == "size":
                return {"E": 1, "B": -1}, 0
        if isinstance(e, ast.Attribute) and e.attr == "address":
            return {"B": 1}, 0
        if isinstance(e, ast.Attribute) and e.attr == "size":
            return {"E": 1, "B": -1}, 0
        p = attr_path(e)
        if p and len(p) == 2 and p[0] in rng_names and p[1] in ("start", "stop"):
            return {p[1].upper(): 1}, 0
        if p and len(p) == 2 and p[0] in node_rng and p[1] in ("start", "stop"):
            return node_rng[p[0]][0 if p[1] == "start" else 1]
        return None
    try:
        for k, v in al.items():
            if isinstance(v, ast.Call) and attr_path(v.func) == ("range",) and len(v.args) == 2:
                node_rng[k] = (_lin(v.args[0], nsym), _lin(v.args[1], nsym))
        # what is known to hold where the node is yielded (the address-presence test aside):
        # nested ifs, one combined condition or ``continue`` guards give the same facts
        ys = [y for y in walk_no_nested(f.node) if isinstance(y, ast.Yield)]
        if len(ys) != 1:
            raise Outside("expected one yield")
        cfg0 = CFG(f.node)
        parts_v = [(t_, v_) for t_, v_ in cfg0.facts_at(cfg0.node_of(ys[0]))
                   if not isinstance(t_, ast.stmt)
                   and not (isinstance(t_, ast.Compare) and isinstance(t_.ops[0], (ast.Is, ast.IsNot)))]
        if not parts_v:
            raise Outside("expected one intersection test guarding the yield")
        cons: List[Con] = []
        for p, val in parts_v:
            while isinstance(p, ast.UnaryOp) and isinstance(p.op, ast.Not):
                p, val = p.operand, not val
            if isinstance(p, ast.Call) and attr_path(p.func) == ("range",) and len(p.args) == 2:
                if not val:
                    raise Transformed("nodes are kept when the intersection with the query is EMPTY")
                a, b = p.args
                lows = [_lin(x, nsym) for x in a.args] if isinstance(a, ast.Call) and attr_path(a.func) == ("max",) \
                    else [_lin(a, nsym)]
                highs = [_lin(x, nsym) for x in b.args] if isinstance(b, ast.Call) and attr_path(b.func) == ("min",) \
                    else [_lin(b, nsym)]
                for lo in lows:
                    for hi in highs:
                        cons.extend(_constraint(lo, "Lt", hi))
            elif isinstance(p, ast.Compare):
                terms = [p.left] + list(p.comparators)
                if not val and len(p.ops) != 1:
                    raise Outside("negated chain %s" % unparse(p))
                for x, op, y in zip(terms, p.ops, terms[1:]):
                    on = type(op).__name__
                    if on not in NEG:
                        raise Outside("comparison %s" % unparse(p))
                    if not val:
                        on = NEG[on]
                    cons.extend(_constraint(_lin(x, nsym), on, _lin(y, nsym)))
            else:
                raise Outside("intersection test %s" % unparse(p))
    except Transformed as e:
        chk.ob(rule, key + ":intersects-half-open", False, f.loc(), "%s: %s" % (key, e), 2)
        return
    except Outside as e:
        raise AnalysisError("%s is outside the boundary-logic fragment: %s" % (key, e))
    got = _tight(cons)
    ref = {("B", "STOP"): -1, ("START", "E"): -1, ("B", "E"): -1}
    extra_ok = {("START", "STOP"): -1}      # an empty query selects nothing either way
    ok_ref = all(got.get(k) == v for k, v in ref.items()) and \
        all(k in ref or extra_ok.get(k) == c for k, c in got.items())
    chk.ob(rule, key + ":intersects-half-open", ok_ref, f.loc(),
           "nodes_on must keep exactly the addressed nodes of non-zero size whose range [B, B+size) "
           "intersects [START, STOP); the code keeps %s" % _show(got), 6)
    from ..cfg import CFG as _CFG
    cfgs = _CFG(f.node)
    known = set()
    for tn, i in cfgs.info.items():
        if i.kind == "test" and isinstance(i.ast, ast.Compare) and len(i.ast.ops) == 1 and \
                isinstance(i.ast.ops[0], (ast.Is, ast.IsNot)) and isinstance(i.ast.comparators[0], ast.Constant) \
                and i.ast.comparators[0].value is None and "addr" in unparse(i.ast.left):
            for bn in cfgs.g.successors(tn):
                bi = cfgs.info[bn]
                if bi.kind == "branch" and bi.value == isinstance(i.ast.ops[0], ast.IsNot):
                    known.add(bn)
    ys0 = cfgs.nodes_where(lambda n: isinstance(n, ast.Yield))
    guard = bool(known) and bool(ys0) and all(cfgs.path_avoiding(cfgs.entry, y, known) is None for y in ys0)
    chk.ob(rule, key + ":address-known", guard, f.loc(),
           "nodes_on must yield only nodes whose address is known (not None)", 2)
    ys = [y for y in walk_no_nested(f.node) if isinstance(y, ast.Yield)]
    chk.ob(rule, key + ":yields-under-test", len(ys) == 1 and bool(parts_v), f.loc(),
           "the node must be yielded exactly under the test", 1)


def scan_at(chk: Check, rule: str) -> None:
    f = util_function(chk.repo, "nodes_at")
    chk.saw(f)
    key = "util.nodes_at"
    al = local_aliases(f.node)
    rng_names = {k for k, v in al.items() if isinstance(v, ast.Call) and attr_path(v.func) == ("get_desired_range",)}
    ok = False
    why = "no test"
    ys_ = [y for y in walk_no_nested(f.node) if isinstance(y, ast.Yield)]
    if len(ys_) == 1:
        # what holds where the node is yielded (guards in any spelling)
        from ..cfg import CFG as _CFG
        flow = _CFG(f.node)
        facts = [(t_, v_) for t_, v_ in flow.facts_at(flow.node_of(ys_[0])) if not isinstance(t_, ast.stmt)]
        notnone = addr_ok = False
        extra = 0
        for t_, v_ in facts:
            if isinstance(t_, ast.Compare) and len(t_.ops) == 1 and isinstance(t_.ops[0], (ast.Is, ast.IsNot)) \
                    and isinstance(t_.comparators[0], ast.Constant) and t_.comparators[0].value is None:
                if v_ == isinstance(t_.ops[0], ast.IsNot):
                    notnone = True
                else:
                    extra += 1
            elif isinstance(t_, ast.Compare) and len(t_.ops) == 1 and isinstance(t_.ops[0], (ast.In, ast.NotIn)):
                l = t_.left
                if isinstance(l, ast.Name) and l.id in al:
                    l = al[l.id]
                if v_ == isinstance(t_.ops[0], ast.In) and isinstance(l, ast.Attribute) and l.attr == "address" and \
                        attr_path(t_.comparators[0]) and attr_path(t_.comparators[0])[0] in rng_names:
                    addr_ok = True
                else:
                    extra += 1
            else:
                extra += 1
        ok = notnone and addr_ok and extra == 0
        why = " and ".join("%s is %s" % (unparse(t_)[:40], v_) for t_, v_ in facts) or "no test"
    chk.ob(rule, key + ":address-in-range", ok, f.loc(),
           "nodes_at must keep exactly the nodes whose address is known and a member of the requested "
           "range: %s" % why, 3)


_LOOKUP_NAME = re.compile(r"(_on|_at|_on_offset|_at_offset)$|^_nodes_(on|at)_interval_tree|^get_desired_range$")


def _no_len_of_query(chk: Check, rule: str) -> None:
    """a query may be any range with a positive step, e.g. range(0, 2**64): ``len()`` of a range
    with more than sys.maxsize members raises OverflowError, so no lookup may take the length
    of the query (emptiness is ``not r`` / a comparison of its bounds)"""
    n_funcs = 0
    for f in chk.repo.all_functions():
        if not _LOOKUP_NAME.search(f.name):
            continue
        n_funcs += 1
        ranges = set()
        a = f.node.args
        for p_ in a.posonlyargs + a.args + a.kwonlyargs:
            if p_.annotation is not None and "range" in unparse(p_.annotation):
                ranges.add(p_.arg)
        for n in ast.walk(f.node):
            if isinstance(n, ast.Assign) and isinstance(n.value, ast.Call) and \
                    (dotted(n.value.func) or ("",))[-1] in ("get_desired_range", "range"):
                for t in n.targets:
                    if isinstance(t, ast.Name):
                        ranges.add(t.id)
        for n in ast.walk(f.node):
            if isinstance(n, ast.Call) and isinstance(n.func, ast.Name) and n.func.id == "len" and len(n.args) == 1:
                x = n.args[0]
                is_range = (isinstance(x, ast.Name) and x.id in ranges) or (
                    isinstance(x, ast.Call) and (dotted(x.func) or ("",))[-1] in ("get_desired_range", "range"))
                if is_range:
                    chk.ob(rule, "%s:len-of-query-range" % f.qualname, False, f.loc(n),
                           "%s takes len() of the query range (%s): a legal query such as range(0, 2**64) "
                           "has more than sys.maxsize members and len() raises OverflowError"
                           % (f.qualname, unparse(n)), 2)
    chk.ob(rule, "lookups:no-len-of-query-range:scanned", n_funcs >= 20, "python/gtirb/util.py:1",
           "only %d lookup functions found to scan" % n_funcs, n_funcs)


def range_helpers(chk: Check, rule: str) -> None:
    """get_desired_range(a) is range(a, a + 1) for an int and the range itself otherwise; the
    thin wrappers hand tree, query and adjustment on to the implementation with the getter of
    their key space"""
    repo = chk.repo
    from ..terms import OutsideFragment, function_term, show
    _no_len_of_query(chk, rule)
    f = util_function(repo, "get_desired_range")
    chk.saw(f)
    p = f.param_names()[0]
    ok = False
    why = ""
    from ..summaries import Outside as _SOut, Summary
    try:
        sm = Summary(f.node)
        vd = sm.value_dnf()
        rng_vals = [k for k in vd if k.startswith("range(")]
        same_vals = [k for k in vd if k == p]
        if len(vd) == 2 and len(rng_vals) == 1 and len(same_vals) == 1:
            call = sm.value_expr(rng_vals[0])
            if isinstance(call, ast.Call) and len(call.args) == 2:
                la = _lin(call.args[0], lambda e: ({"A": 1}, 0) if attr_path(e) == (p,) else None)
                lb = _lin(call.args[1], lambda e: ({"A": 1}, 0) if attr_path(e) == (p,) else None)
                ok = la == ({"A": 1}, 0) and lb == ({"A": 1}, 1)
                why = "int case is %s" % rng_vals[0]

            def is_int_test(conj, want: bool) -> bool:
                return len(conj) == 1 and all(
                    k[0] == "truthy" and k[1].replace(" ", "") in ("isinstance(%s,int)" % p,) and v == want
                    for k, v in conj.items())
            ok = ok and len(vd[rng_vals[0]]) == 1 and is_int_test(vd[rng_vals[0]][0], True) \
                and len(vd[p]) == 1 and is_int_test(vd[p][0], False)
        else:
            why = "returns %s" % sorted(vd)
    except (_SOut, Outside) as e:
        why = str(e)
    chk.ob(rule, "util.get_desired_range:point-is-unit-range", ok, f.loc(),
           "a single address a must become range(a, a + 1) and a range must be passed through (%s)" % why, 3)
    table = {"_nodes_on_interval_tree": ("_nodes_on_interval_tree_impl", "interval_getter", "_address_interval", True),
             "_nodes_at_interval_tree": ("_nodes_at_interval_tree_impl", "bounds_getter", "_address_interval", True),
             "_nodes_on_interval_tree_offset": ("_nodes_on_interval_tree_impl", "interval_getter", "_offset_interval", False),
             "_nodes_at_interval_tree_offset": ("_nodes_at_interval_tree_impl", "bounds_getter", "_offset_interval", False)}
    for nm, (impl, gkw, getter, adj) in table.items():
        g = repo.module("util").functions.get(nm)
        if g is None:
            continue        # lookups may call the implementation directly
        chk.saw(g)
        ps = g.param_names()
        calls = [c for c in walk_no_nested(g.node) if isinstance(c, ast.Call) and attr_path(c.func) == (impl,)]
        ok = len(calls) == 1
        why = "no call of %s" % impl
        if ok:
            c = calls[0]
            kw = {k.arg: k.value for k in c.keywords}
            ok = len(c.args) >= 2 and attr_path(c.args[0]) == (ps[0],) and attr_path(c.args[1]) == (ps[1],) and \
                attr_path(kw.get(gkw, ast.Constant(0))) == (getter,)
            if adj:
                ok = ok and attr_path(kw.get("adjustment", ast.Constant(0))) == ("adjustment",) and "adjustment" in ps
            else:
                ok = ok and "adjustment" not in kw
            why = unparse(c)[:80]
            rets = [r for r in walk_no_nested(g.node) if isinstance(r, ast.Return)]
            ok = ok and len(rets) == 1 and rets[0].value is c
        chk.ob(rule, "util.%s:forwards" % nm, ok, g.loc(),
               "%s must return %s(tree, query, %s=%s%s): %s" % (
                   nm, impl, gkw, getter, ", adjustment=adjustment" if adj else "", why), 3)
