"""python -m gtirb_static check <ID> [--tier quick|thorough]
   python -m gtirb_static replay <file>
   python -m gtirb_static audit [<ID> ...]
   python -m gtirb_static selfcheck
"""
from __future__ import annotations

import importlib
import json
import os
import sys
import time
import traceback

from .model import AnalysisError, Repo
from .report import Check, finish

PROPS = ["C%02d" % i for i in range(1, 20)]


from .runner import run_rules  # noqa: E402,F401


def cmd_check(argv: list) -> int:
    t0 = time.time()
    prop = argv[0]
    tier = os.environ.get("VERIF_TIER", "quick")
    if "--tier" in argv:
        tier = argv[argv.index("--tier") + 1]
    if tier not in ("quick", "thorough"):
        tier = "quick"
    try:
        seed = int(os.environ.get("VERIF_SEED", "0"))
    except ValueError:
        seed = 0
    if prop not in PROPS:
        print("ANALYSIS-ERROR: unknown property %s" % prop)
        return 2
    repo = Repo()
    chk = run_rules(prop, repo, tier)
    audit = None
    if tier == "thorough":
        from .audit import run_audit
        audit = run_audit([prop], quiet=True)
        if audit["undetected"] or audit["twin_alarms"]:
            for x in audit["undetected"]:
                print("ANALYSIS-ERROR: sensitivity audit: seeded fault not reported: %s" % x)
            for x in audit["twin_alarms"]:
                print("ANALYSIS-ERROR: sensitivity audit: behaviour-preserving twin reported: %s" % x)
            finish(chk, t0, seed, audit)
            return 2
        from .corpus import run_corpus
        corpus = run_corpus([prop], quiet=True)
        audit["corpus"] = corpus
        if corpus["alarms"] or corpus["missed"]:
            for x in corpus["alarms"]:
                print("ANALYSIS-ERROR: corpus audit: behaviour-preserving patch reported: %s" % x)
            for x in corpus["missed"]:
                print("ANALYSIS-ERROR: corpus audit: seeded change not reported: %s" % x)
            finish(chk, t0, seed, audit)
            return 2
    return finish(chk, t0, seed, audit)


def cmd_replay(argv: list) -> int:
    rec = json.loads(open(argv[0]).read())
    repo = Repo()
    chk = run_rules(rec["property"], repo, "quick")
    for v in chk.violations():
        if v.rule == rec["rule"] and v.construct == rec["construct"]:
            print("%s %s %s: %s" % (v.loc, v.rule, v.construct, v.message))
            print("VIOLATION property=%s replay=%s" % (rec["property"], argv[0]))
            return 1
    print("not reproduced: %s %s no longer violated" % (rec["rule"], rec["construct"]))
    return 0


def cmd_selfcheck(argv: list) -> int:
    repo = Repo()
    nfun = sum(1 for _ in repo.all_functions())
    print("gtirb_static: %d modules, %d classes, %d functions parsed from %s"
          % (len(repo.modules), len(repo.classes), nfun, repo.root))
    if len(repo.modules) < 15:
        print("ANALYSIS-ERROR: fewer than 15 modules")
        return 2
    return 0


def main() -> int:
    argv = sys.argv[1:]
    if not argv:
        print(__doc__)
        return 2
    try:
        if argv[0] == "check":
            return cmd_check(argv[1:])
        if argv[0] == "replay":
            return cmd_replay(argv[1:])
        if argv[0] == "selfcheck":
            return cmd_selfcheck(argv[1:])
        if argv[0] == "audit":
            from .audit import run_audit
            res = run_audit(argv[1:] or PROPS, quiet=False)
            return 2 if (res["undetected"] or res["twin_alarms"]) else 0
        print(__doc__)
        return 2
    except AnalysisError as e:
        print("ANALYSIS-ERROR: %s" % e)
        return 2
    except Exception:
        traceback.print_exc()
        print("ANALYSIS-ERROR: internal error (traceback above)")
        return 2


if __name__ == "__main__":
    sys.exit(main())
