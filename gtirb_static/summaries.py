"""E11 path summaries of small loop-free functions.

A function whose body is made of if / return / raise / simple statements is summarised as the
list of its paths: the outcome of every atomic test on the way (short-circuit and/or/not and
comparison chains are split into atoms) and how the path ends.  Atoms are canonical —
``a <= b`` is the negation of ``b < a``, ``a != b`` of ``a == b``, ``x is not y`` of ``x is y`` —
so a guard written as nested ifs, as early exits, as one chained comparison or with the branches
swapped gives the same summary.  Rules that used to look for one spelling of a guard ask the
summary instead: "under which conjunctions of facts does this function return a non-None value".

Nothing is executed: this is a syntactic case split over the atoms of the function.
"""
from __future__ import annotations

import ast
from typing import Dict, Iterator, List, Optional, Sequence, Tuple

Key = Tuple[str, ...]
Facts = Dict[Key, bool]


class Outside(Exception):
    """the function is outside the fragment (loops, try, with, too many paths)"""


def _u(e: ast.AST) -> str:
    return ast.unparse(e)


class Atoms:
    """canonical atoms of one function (key -> the two operand expressions)"""

    def __init__(self) -> None:
        self.operands: Dict[Key, Tuple[Optional[ast.AST], Optional[ast.AST]]] = {}

    def canon(self, e: ast.AST) -> Tuple[Key, bool]:
        """-> (key, flip): truth(e) == truth(key) xor flip"""
        if isinstance(e, ast.Compare) and len(e.ops) == 1:
            a, b, op = e.left, e.comparators[0], e.ops[0]
            if isinstance(op, ast.Lt):
                return self._k("Lt", a, b), False
            if isinstance(op, ast.Gt):
                return self._k("Lt", b, a), False
            if isinstance(op, ast.LtE):
                return self._k("Lt", b, a), True
            if isinstance(op, ast.GtE):
                return self._k("Lt", a, b), True
            if isinstance(op, (ast.Eq, ast.NotEq)):
                if _u(a) > _u(b):
                    a, b = b, a
                return self._k("Eq", a, b), isinstance(op, ast.NotEq)
            if isinstance(op, (ast.Is, ast.IsNot)):
                if _u(a) > _u(b):
                    a, b = b, a
                return self._k("Is", a, b), isinstance(op, ast.IsNot)
            if isinstance(op, (ast.In, ast.NotIn)):
                return self._k("In", a, b), isinstance(op, ast.NotIn)
        k: Key = ("truthy", _u(e))
        self.operands.setdefault(k, (e, None))
        return k, False

    def _k(self, op: str, a: ast.AST, b: ast.AST) -> Key:
        k: Key = (op, _u(a), _u(b))
        self.operands.setdefault(k, (a, b))
        return k

    def constraint(self, k: Key, value: bool) -> Tuple[Optional[ast.AST], str, Optional[ast.AST]]:
        """the fact as (a, op, b) with op in Lt LtE Eq NotEq Is IsNot In NotIn truthy falsy"""
        a, b = self.operands[k]
        if k[0] == "Lt":
            return (a, "Lt", b) if value else (b, "LtE", a)
        if k[0] == "Eq":
            return (a, "Eq" if value else "NotEq", b)
        if k[0] == "Is":
            return (a, "Is" if value else "IsNot", b)
        if k[0] == "In":
            return (a, "In" if value else "NotIn", b)
        return (a, "truthy" if value else "falsy", None)


class Path:
    __slots__ = ("facts", "kind", "value", "effects", "env")

    def __init__(self, facts: Facts, kind: str, value: Optional[ast.AST], effects: List[ast.stmt],
                 env: Optional[Dict[str, ast.AST]] = None):
        self.facts = facts
        self.kind = kind          # 'return' | 'raise' | 'fall'
        self.value = value
        self.effects = effects
        self.env = env or {}

    def returns_none(self) -> bool:
        return self.kind == "fall" or (self.kind == "return" and (
            self.value is None or (isinstance(self.value, ast.Constant) and self.value.value is None)))


class Summary:
    def __init__(self, fn: ast.FunctionDef, max_paths: int = 512):
        self.fn = fn
        self.atoms = Atoms()
        self.max_paths = max_paths
        self._count = 0
        body = list(fn.body)
        # locals bound to an expression on the way are replaced by it where they are tested or
        # returned (``r = a == b`` / ``if r:``): forward substitution along the path
        self.paths: List[Path] = list(self._run(body, {}, [], {}))

    # -- tests -----------------------------------------------------------------
    def branches(self, e: ast.AST, facts: Facts) -> Iterator[Tuple[Facts, bool]]:
        if isinstance(e, ast.BoolOp):
            is_and = isinstance(e.op, ast.And)

            def rec(i: int, f: Facts) -> Iterator[Tuple[Facts, bool]]:
                if i == len(e.values):
                    yield f, is_and
                    return
                for f2, v in self.branches(e.values[i], f):
                    if v == is_and:
                        yield from rec(i + 1, f2)
                    else:
                        yield f2, v
            yield from rec(0, facts)
            return
        if isinstance(e, ast.UnaryOp) and isinstance(e.op, ast.Not):
            for f, v in self.branches(e.operand, facts):
                yield f, not v
            return
        if isinstance(e, ast.Compare) and len(e.ops) > 1:
            terms = [e.left] + list(e.comparators)
            pairs = [ast.Compare(left=a, ops=[op], comparators=[b]) for a, op, b in zip(terms, e.ops, terms[1:])]
            yield from self.branches(ast.BoolOp(op=ast.And(), values=pairs), facts)
            return
        if isinstance(e, ast.Compare) and len(e.ops) == 1:
            # a conditional operand is decided first:  (a if c else b) is None
            for side in ("left", "right"):
                operand = e.left if side == "left" else e.comparators[0]
                if isinstance(operand, ast.IfExp):
                    for f, v in self.branches(operand.test, facts):
                        chosen = operand.body if v else operand.orelse
                        new = ast.Compare(left=chosen if side == "left" else e.left, ops=e.ops,
                                          comparators=[e.comparators[0] if side == "left" else chosen])
                        yield from self.branches(new, f)
                    return
            a, b = e.left, e.comparators[0]
            if isinstance(a, ast.Constant) and isinstance(b, ast.Constant) and \
                    isinstance(e.ops[0], (ast.Is, ast.IsNot, ast.Eq, ast.NotEq)) and \
                    (a.value is None or b.value is None or type(a.value) is type(b.value)):
                same = a.value == b.value and type(a.value) is type(b.value)
                yield facts, same == isinstance(e.ops[0], (ast.Is, ast.Eq))
                return
        if isinstance(e, ast.Constant):
            yield facts, bool(e.value)
            return
        if isinstance(e, ast.IfExp):
            for f, v in self.branches(e.test, facts):
                yield from self.branches(e.body if v else e.orelse, f)
            return
        k, flip = self.atoms.canon(e)
        if k in facts:
            yield facts, facts[k] != flip
            return
        implied = self._implied(k, facts)
        if implied is not None:
            f2 = dict(facts)
            f2[k] = implied
            yield f2, implied != flip
            return
        for v in (True, False):
            f = dict(facts)
            f[k] = v
            yield f, v != flip

    @staticmethod
    def _implied(k: Key, facts: Facts) -> Optional[bool]:
        """the few implications between atoms the rules rely on: an instance of a class is not
        None; None is an instance of nothing"""
        if k[0] == "Is" and "None" in k[1:]:
            other = [x for x in k[1:] if x != "None"]
            if other:
                head = "isinstance(%s," % other[0]
                for fk, fv in facts.items():
                    if fk[0] == "truthy" and fk[1].replace(" ", "").startswith(head.replace(" ", "")) and fv:
                        return False
        if k[0] == "truthy" and k[1].startswith("isinstance("):
            inner = k[1][len("isinstance("):]
            for fk, fv in facts.items():
                if fk[0] == "Is" and "None" in fk[1:] and fv:
                    other = [x for x in fk[1:] if x != "None"]
                    if other and inner.replace(" ", "").startswith(other[0].replace(" ", "") + ","):
                        return False
        return None

    # -- statements --------------------------------------------------------------
    def _sub(self, e: Optional[ast.AST], env: Dict[str, ast.AST]) -> Optional[ast.AST]:
        if e is None or not env:
            return e
        import copy

        class S(ast.NodeTransformer):
            def visit_Name(self, n: ast.Name) -> ast.AST:
                if isinstance(n.ctx, ast.Load) and n.id in env:
                    return copy.deepcopy(env[n.id])
                return n

            def visit_Lambda(self, n: ast.Lambda) -> ast.AST:
                return n
        return S().visit(copy.deepcopy(e))

    def _run(self, stmts: Sequence[ast.stmt], facts: Facts, effects: List[ast.stmt],
             env: Dict[str, ast.AST]) -> Iterator[Path]:
        if not stmts:
            yield Path(facts, "fall", None, effects, env)
            return
        st, rest = stmts[0], stmts[1:]
        if isinstance(st, ast.If):
            for f, v in self.branches(self._sub(st.test, env), facts):
                for p in self._run(st.body if v else st.orelse, f, effects, env):
                    if p.kind == "fall":
                        yield from self._run(rest, p.facts, p.effects, p.env)
                    else:
                        yield p
            return
        if isinstance(st, ast.Return):
            yield self._emit(Path(facts, "return", self._sub(st.value, env), effects, env))
            return
        if isinstance(st, ast.Raise):
            yield self._emit(Path(facts, "raise", st.exc, effects, env))
            return
        if isinstance(st, (ast.For, ast.While, ast.Try, ast.With, ast.AsyncFor, ast.AsyncWith, ast.Match)):
            if any(isinstance(n, (ast.Return,)) for n in ast.walk(st)):
                raise Outside("return inside %s" % type(st).__name__)
            killed = {n.id for n in ast.walk(st) if isinstance(n, ast.Name) and isinstance(n.ctx, ast.Store)}
            env2 = {k: v for k, v in env.items() if k not in killed and not (
                killed & {n.id for n in ast.walk(v) if isinstance(n, ast.Name)})}
            yield from self._run(rest, self._forget(facts, killed), effects + [st], env2)
            return
        if isinstance(st, (ast.Pass, ast.Assert)) or (
                isinstance(st, ast.Expr) and isinstance(st.value, ast.Constant)):
            yield from self._run(rest, facts, effects, env)
            return
        if isinstance(st, (ast.FunctionDef, ast.ClassDef, ast.Import, ast.ImportFrom, ast.Global, ast.Nonlocal)):
            yield from self._run(rest, facts, effects, env)
            return
        if isinstance(st, ast.AnnAssign) and st.value is None:
            yield from self._run(rest, facts, effects, env)
            return
        # an effect: facts about names it rebinds are forgotten
        killed = {n.id for n in ast.walk(st) if isinstance(n, ast.Name) and isinstance(n.ctx, ast.Store)}
        env2 = {k: v for k, v in env.items() if k not in killed and not (
            killed & {n.id for n in ast.walk(v) if isinstance(n, ast.Name)})}
        tgt = None
        if isinstance(st, ast.Assign) and len(st.targets) == 1 and isinstance(st.targets[0], ast.Name):
            tgt = st.targets[0].id
        elif isinstance(st, ast.AnnAssign) and isinstance(st.target, ast.Name):
            tgt = st.target.id
        if tgt is not None and st.value is not None:
            val = self._sub(st.value, env)
            if not any(isinstance(n, ast.Name) and n.id == tgt for n in ast.walk(val)):
                env2[tgt] = val
            yield from self._run(rest, self._forget(facts, killed), effects + [st], env2)
            return
        yield from self._run(rest, self._forget(facts, killed), effects + [st], env2)

    def _forget(self, facts: Facts, killed: set) -> Facts:
        if not killed:
            return facts
        return {k: v for k, v in facts.items() if not any(self._mentions(k, nm) for nm in killed)}

    def _mentions(self, k: Key, name: str) -> bool:
        for part in self.atoms.operands.get(k, (None, None)):
            if part is not None and any(isinstance(n, ast.Name) and n.id == name for n in ast.walk(part)):
                return True
        return False

    def _emit(self, p: Path) -> Path:
        self._count += 1
        if self._count > self.max_paths:
            raise Outside("more than %d paths" % self.max_paths)
        return p

    # -- queries -------------------------------------------------------------------
    def truthy_dnf(self) -> List[Facts]:
        """the conjunctions of facts under which the function returns something true"""
        out: List[Facts] = []
        for p in self.paths:
            if p.kind != "return" or p.value is None:
                continue
            for f, v in self.branches(p.value, p.facts):
                if v:
                    out.append(f)
        return simplify(out)

    def value_dnf(self) -> Dict[str, List[Facts]]:
        """text of the returned expression -> conjunctions under which it is returned
        ('None' for falling off the end / bare return)"""
        out: Dict[str, List[Facts]] = {}
        for p in self.paths:
            if p.kind == "raise":
                continue
            if p.returns_none():
                out.setdefault("None", []).append(p.facts)
            elif isinstance(p.value, ast.IfExp):
                for f, v in self.branches(p.value.test, p.facts):
                    e = p.value.body if v else p.value.orelse
                    txt = "None" if isinstance(e, ast.Constant) and e.value is None else _u(e)
                    out.setdefault(txt, []).append(f)
            else:
                out.setdefault(_u(p.value), []).append(p.facts)
        return {k: simplify(v) for k, v in out.items()}

    def value_expr(self, text: str) -> Optional[ast.AST]:
        for p in self.paths:
            if p.kind == "return" and p.value is not None:
                if isinstance(p.value, ast.IfExp):
                    for e in (p.value.body, p.value.orelse):
                        if _u(e) == text:
                            return e
                if _u(p.value) == text:
                    return p.value
        return None

    def constraints(self, facts: Facts) -> List[Tuple[Optional[ast.AST], str, Optional[ast.AST]]]:
        return [self.atoms.constraint(k, v) for k, v in facts.items()]


def simplify(conjs: List[Facts]) -> List[Facts]:
    """(a & b) | (a & ~b) -> a, duplicates and subsumed conjunctions removed"""
    cur = [dict(c) for c in conjs]
    changed = True
    while changed:
        changed = False
        # merge
        for i in range(len(cur)):
            for j in range(i + 1, len(cur)):
                a, b = cur[i], cur[j]
                if set(a) == set(b):
                    diff = [k for k in a if a[k] != b[k]]
                    if len(diff) == 1:
                        m = {k: v for k, v in a.items() if k != diff[0]}
                        cur = [c for n, c in enumerate(cur) if n not in (i, j)] + [m]
                        changed = True
                        break
                    if not diff:
                        cur = [c for n, c in enumerate(cur) if n != j]
                        changed = True
                        break
            if changed:
                break
        if changed:
            continue
        # subsumption: a conjunction that contains another one is redundant
        for i in range(len(cur)):
            for j in range(len(cur)):
                if i != j and all(k in cur[i] and cur[i][k] == v for k, v in cur[j].items()):
                    cur = [c for n, c in enumerate(cur) if n != i]
                    changed = True
                    break
            if changed:
                break
    return sorted(cur, key=lambda c: sorted((k, v) for k, v in c.items()))
