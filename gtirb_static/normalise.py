"""E0 normal form.  Rules are written against the way the pinned tree spells things; an edit that
keeps behaviour (a private helper extracted, a temporary introduced or removed, keyword instead of
positional arguments, an if-statement instead of a conditional expression) must not change what the
rules see.  This pass rewrites the parsed trees of python/gtirb/*.py — never the files — into a
normal form *before* the source model is built:

N1  call style     keyword <-> positional arguments, per callee, in the pinned tree's style
N2  temporaries    a local assigned once is substituted into its uses when that cannot change what
                   is computed (purity classes P0/P1/P2 below)
N3  helpers        a private function that is not part of the pinned tree's vocabulary is inlined at
                   its call sites (expression-, statement- or closure-level) and dropped when no
                   reference remains
N4  if-assignment  ``x = d`` / ``if c: x = e``  ->  ``x = e if c else d``
N5  folding        tests that became constants by N3 are folded

Every rewrite is semantics-preserving under the stated conditions; a construct outside them is left
as it is (the rules then see it unnormalised).  The pass never executes anything.

    python -m gtirb_static.normalise --gen-vocab     regenerate vocabulary.json from $VERIF_REPO
    python -m gtirb_static.normalise --show FILE     print the normal form of one module
"""
from __future__ import annotations

import ast
import copy
import json
import os
import sys
from pathlib import Path
from typing import Any, Dict, Iterable, List, Optional, Sequence, Set, Tuple

VOCAB = Path(__file__).resolve().parent / "vocabulary.json"

# builtins that only read their arguments
PURE_CALLS = {"len", "isinstance", "issubclass", "abs", "int", "bool", "type", "id", "range"}

# parameter names of third-party / builtin callees the package passes arguments to
EXTERNAL_SIGS: Dict[str, List[str]] = {
    "Interval": ["begin", "end", "data"],
    "irange": ["minimum", "maximum", "inclusive", "reverse"],
    "to_bytes": ["length", "byteorder"],
    "from_bytes": ["bytes", "byteorder"],
    "open": ["file", "mode", "buffering", "encoding", "errors", "newline", "closefd", "opener"],
    "enumerate": ["iterable", "start"],
}

# instance methods of library classes the package uses (an unbound call C.m(obj, ...) is obj.m(...))
INSTANCE_METHODS = {("IntervalTree", m) for m in ("add", "discard", "remove", "addi", "overlap", "at", "envelop",
                                                  "begin", "end", "clear", "update", "overlaps")} | \
    {("MultiDiGraph", m) for m in ("add_edge", "remove_edge", "add_node", "remove_node", "edges", "in_edges",
                                   "out_edges", "number_of_edges", "clear", "has_edge")} | \
    {("SortedDict", m) for m in ("irange", "keys", "values", "items", "get", "pop", "clear")}

FuncT = (ast.FunctionDef, ast.AsyncFunctionDef)
ScopeT = (ast.FunctionDef, ast.AsyncFunctionDef, ast.Lambda, ast.ClassDef)
CompT = (ast.ListComp, ast.SetComp, ast.DictComp, ast.GeneratorExp)


def _walk_scope(node: ast.AST, into_comps: bool = True) -> Iterable[ast.AST]:
    """walk ``node`` without entering nested functions, lambdas or classes"""
    todo = list(ast.iter_child_nodes(node))
    while todo:
        n = todo.pop()
        yield n
        if isinstance(n, ScopeT):
            continue
        if not into_comps and isinstance(n, CompT):
            continue
        todo.extend(ast.iter_child_nodes(n))


def _body_wo_doc(fn: ast.FunctionDef) -> List[ast.stmt]:
    b = list(fn.body)
    if b and isinstance(b[0], ast.Expr) and isinstance(b[0].value, ast.Constant) \
            and isinstance(b[0].value.value, str):
        b = b[1:]
    return b


def _is_generator(fn: ast.FunctionDef) -> bool:
    return any(isinstance(n, (ast.Yield, ast.YieldFrom)) for n in _walk_scope(fn))


def _decorators(fn: ast.FunctionDef) -> List[str]:
    out = []
    for d in fn.decorator_list:
        try:
            out.append(ast.unparse(d))
        except Exception:
            out.append("?")
    return out


_NEGATE = {ast.Eq: ast.NotEq, ast.NotEq: ast.Eq, ast.Is: ast.IsNot, ast.IsNot: ast.Is, ast.In: ast.NotIn,
           ast.NotIn: ast.In, ast.Lt: ast.GtE, ast.GtE: ast.Lt, ast.Gt: ast.LtE, ast.LtE: ast.Gt}


def attr_path_(e: ast.AST) -> Optional[Tuple[str, ...]]:
    parts: List[str] = []
    while isinstance(e, ast.Attribute):
        parts.append(e.attr)
        e = e.value
    if isinstance(e, ast.Name):
        parts.append(e.id)
        return tuple(reversed(parts))
    return None


def _set_loc(node: ast.AST, at: ast.AST) -> ast.AST:
    for n in ast.walk(node):
        if isinstance(n, (ast.expr, ast.stmt, ast.arg, ast.keyword, ast.excepthandler, ast.alias,
                          ast.comprehension, ast.withitem)) or hasattr(n, "lineno"):
            n.lineno = getattr(at, "lineno", 1)
            n.col_offset = getattr(at, "col_offset", 0)
            n.end_lineno = getattr(at, "end_lineno", n.lineno)
            n.end_col_offset = getattr(at, "end_col_offset", n.col_offset)
    return node


class _Subst(ast.NodeTransformer):
    """replace loads of mapped names by (copies of) expressions; rename stores"""

    def __init__(self, mapping: Dict[str, ast.expr], mark_synth: bool = False):
        self.mapping = mapping
        self.mark = mark_synth

    def visit_Name(self, node: ast.Name) -> ast.AST:
        if node.id in self.mapping:
            new = self.mapping[node.id]
            if isinstance(node.ctx, ast.Load):
                c = copy.deepcopy(new)
                if self.mark:
                    for n in ast.walk(c):
                        if isinstance(n, ast.Constant):
                            n._synth = True  # type: ignore[attr-defined]
                return ast.copy_location(c, node)
            if isinstance(new, ast.Name):
                return ast.copy_location(ast.Name(id=new.id, ctx=node.ctx), node)
        return node

    def _scoped(self, node: ast.AST, bound: Set[str]) -> ast.AST:
        hidden = {k: v for k, v in self.mapping.items() if k in bound}
        if not hidden:
            return self.generic_visit(node)
        saved = self.mapping
        self.mapping = {k: v for k, v in saved.items() if k not in bound}
        try:
            return self.generic_visit(node)
        finally:
            self.mapping = saved

    def visit_Lambda(self, node: ast.Lambda) -> ast.AST:
        a = node.args
        bound = {x.arg for x in a.posonlyargs + a.args + a.kwonlyargs}
        if a.vararg:
            bound.add(a.vararg.arg)
        if a.kwarg:
            bound.add(a.kwarg.arg)
        return self._scoped(node, bound)

    def visit_FunctionDef(self, node: ast.FunctionDef) -> ast.AST:
        a = node.args
        bound = {x.arg for x in a.posonlyargs + a.args + a.kwonlyargs}
        if a.vararg:
            bound.add(a.vararg.arg)
        if a.kwarg:
            bound.add(a.kwarg.arg)
        bound |= _assigned_names(node)
        return self._scoped(node, bound)


def _assigned_names(fn: ast.AST) -> Set[str]:
    out: Set[str] = set()
    for n in _walk_scope(fn):
        if isinstance(n, ast.Name) and isinstance(n.ctx, (ast.Store, ast.Del)):
            out.add(n.id)
        elif isinstance(n, ast.ExceptHandler) and n.name:
            out.add(n.name)
        elif isinstance(n, FuncT) or isinstance(n, ast.ClassDef):
            out.add(n.name)
        elif isinstance(n, (ast.Import, ast.ImportFrom)):
            for a in n.names:
                out.add((a.asname or a.name).split(".")[0])
    return out


def _all_names(fn: ast.AST) -> Set[str]:
    out = {n.id for n in ast.walk(fn) if isinstance(n, ast.Name)}
    out |= {a.arg for n in ast.walk(fn) if isinstance(n, ast.arguments)
            for a in n.posonlyargs + n.args + n.kwonlyargs}
    return out


def _free_names(e: ast.AST) -> Set[str]:
    """names an expression refers to that are not bound by a lambda / comprehension inside it"""
    if isinstance(e, ast.Lambda):
        a = e.args
        own = {x.arg for x in a.posonlyargs + a.args + a.kwonlyargs}
        return _free_names(e.body) - own
    if isinstance(e, CompT):
        own: Set[str] = set()
        for g in e.generators:
            own |= {n.id for n in ast.walk(g.target) if isinstance(n, ast.Name)}
        out: Set[str] = set()
        for ch in ast.iter_child_nodes(e):
            for n in ([ch] if isinstance(ch, ast.AST) else []):
                out |= _free_names(n)
        return out - own
    if isinstance(e, ast.Name):
        return {e.id}
    out2: Set[str] = set()
    for ch in ast.iter_child_nodes(e):
        out2 |= _free_names(ch)
    return out2


def _purity(e: ast.AST, stable: Set[str], frozen: Optional[Tuple[str, Set[str]]] = None) -> int:
    """0: names (that never change)/constants/operators only; 1: also reads attributes, items,
    lengths; 2: calls or anything else.  ``frozen`` = (self name, attributes of self that are only
    ever assigned in constructors): reading one of those is as stable as reading a name."""
    worst = 0
    skip: Set[int] = set()
    if frozen is not None:
        for n in ast.walk(e):
            # x.attr with attr only ever assigned in constructors and x a name that does not change
            if isinstance(n, ast.Attribute) and isinstance(n.value, ast.Name) \
                    and n.attr in frozen[1] and n.value.id in stable:
                skip.add(id(n))
                skip.add(id(n.value))
    for n in [e] + list(ast.walk(e)):
        if id(n) in skip:
            continue
        if isinstance(n, ast.Name):
            if n.id not in stable:
                worst = max(worst, 1)
        elif isinstance(n, (ast.Constant, ast.BinOp, ast.UnaryOp, ast.BoolOp, ast.Compare, ast.IfExp,
                            ast.operator, ast.unaryop, ast.boolop, ast.cmpop, ast.expr_context,
                            ast.Tuple)):
            pass
        elif isinstance(n, (ast.Attribute, ast.Subscript, ast.Slice)):
            worst = max(worst, 1)
        elif isinstance(n, ast.Call):
            if isinstance(n.func, ast.Name) and n.func.id in PURE_CALLS and not n.keywords \
                    and not any(isinstance(a, ast.Starred) for a in n.args):
                worst = max(worst, 1)
            else:
                return 2
        else:
            return 2
    return worst


def _quiet(st: ast.AST) -> bool:
    """the statement (or expression) can neither change the heap nor call anything"""
    for n in [st] + list(ast.walk(st)):
        if isinstance(n, ast.Call):
            if not (isinstance(n.func, ast.Name) and n.func.id in PURE_CALLS):
                return False
        elif isinstance(n, (ast.Attribute, ast.Subscript)) and isinstance(n.ctx, (ast.Store, ast.Del)):
            return False
        elif isinstance(n, (ast.Yield, ast.YieldFrom, ast.Await, ast.Delete, ast.With, ast.Try,
                            ast.Global, ast.Nonlocal, ast.Import, ast.ImportFrom) + ScopeT):
            return False
    return True


def _headers(st: ast.stmt) -> List[ast.AST]:
    """the expressions of a statement that are evaluated once, when control reaches it"""
    if isinstance(st, (ast.If,)):
        return [st.test]
    if isinstance(st, ast.For):
        return [st.iter]
    if isinstance(st, ast.While):
        return []
    if isinstance(st, ast.With):
        return [i.context_expr for i in st.items[:1]]
    if isinstance(st, (ast.Try,) + FuncT + (ast.ClassDef,)):
        return []
    return [st]


def _once_positions(root: ast.AST, at_most_once: bool = False) -> Set[int]:
    """ids of the nodes under ``root`` evaluated exactly once when root is evaluated: not inside
    a lambda, not inside a comprehension except its first iterable, not on the right of and/or,
    not in the branches of a conditional expression (the last two are allowed with
    ``at_most_once``: evaluated immediately, once or not at all)"""
    ok: Set[int] = set()

    def go(n: ast.AST) -> None:
        ok.add(id(n))
        if isinstance(n, ast.Lambda) or isinstance(n, ScopeT):
            return
        if isinstance(n, CompT):
            if n.generators:
                go(n.generators[0].iter)
            return
        if isinstance(n, ast.BoolOp) and not at_most_once:
            go(n.values[0])
            return
        if isinstance(n, ast.IfExp) and not at_most_once:
            go(n.test)
            return
        for c in ast.iter_child_nodes(n):
            go(c)
    go(root)
    return ok


class Report:
    def __init__(self) -> None:
        self.inlined: List[str] = []
        self.closures: List[str] = []
        self.dropped: List[str] = []
        self.temporaries = 0
        self.if_assign = 0
        self.folded = 0
        self.call_style = 0
        self.shapes = 0
        self.constants = 0
        self.not_inlined: List[str] = []

    def as_dict(self) -> Dict[str, object]:
        return {"helpers_inlined": sorted(set(self.inlined)), "helpers_as_closures": sorted(set(self.closures)),
                "helper_definitions_dropped": sorted(set(self.dropped)),
                "helpers_left_alone": sorted(set(self.not_inlined)),
                "temporaries_substituted": self.temporaries, "if_assignments": self.if_assign,
                "tests_folded": self.folded, "calls_restyled": self.call_style,
                "statement_shapes": self.shapes, "module_constants": self.constants}


class Helper:
    def __init__(self, mod: str, cls: Optional[str], node: ast.FunctionDef, holder: List[ast.stmt]):
        self.mod = mod
        self.cls = cls
        self.node = node
        self.holder = holder      # the statement list that contains the definition
        decos = _decorators(node)
        self.static = "staticmethod" in decos
        self.classmethod = "classmethod" in decos
        self.other_deco = [d for d in decos if d not in ("staticmethod", "classmethod")]
        self._gen: Optional[bool] = None

    @property
    def generator(self) -> bool:
        if self._gen is None:
            self._gen = _is_generator(self.node)
        return self._gen

    @property
    def key(self) -> str:
        return "%s:%s" % (self.mod, (self.cls + "." if self.cls else "") + self.node.name)


def load_vocab() -> Dict[str, object]:
    if not VOCAB.is_file():
        return {"functions": None, "call_style": {}}
    return json.loads(VOCAB.read_text())


class Normaliser:
    def __init__(self, trees: Dict[str, ast.Module], vocab: Optional[Dict[str, object]] = None):
        self.trees = trees
        self.vocab = vocab if vocab is not None else load_vocab()
        self.report = Report()
        self.known: Optional[Set[str]] = set(self.vocab["functions"]) if self.vocab.get("functions") else None
        self.style: Dict[str, int] = dict(self.vocab.get("call_style") or {})

    # ------------------------------------------------------------------ scan
    def _init_only_attrs(self) -> Set[str]:
        """attribute names that are only ever assigned on the first parameter of a constructor
        (``__init__`` / ``__set_name__`` / ``__new__``): they do not change afterwards"""
        inside: Set[str] = set()
        outside: Set[str] = set()
        for tree in self.trees.values():
            for fn in [n for n in ast.walk(tree) if isinstance(n, ast.FunctionDef)]:
                ctor = fn.name in ("__init__", "__set_name__", "__new__")
                me = fn.args.args[0].arg if fn.args.args else None
                for n in _walk_scope(fn):
                    if isinstance(n, ast.Attribute) and isinstance(n.ctx, (ast.Store, ast.Del)):
                        if ctor and isinstance(n.value, ast.Name) and n.value.id == me:
                            inside.add(n.attr)
                        else:
                            outside.add(n.attr)
                    elif isinstance(n, ast.Call) and isinstance(n.func, ast.Name) and n.func.id in ("setattr", "delattr") \
                            and len(n.args) >= 2 and isinstance(n.args[1], ast.Constant):
                        outside.add(str(n.args[1].value))
            for n in tree.body:
                for x in ast.walk(n):
                    if isinstance(x, ast.ClassDef):
                        for st in x.body:
                            if isinstance(st, (ast.Assign, ast.AnnAssign)):
                                for t in (st.targets if isinstance(st, ast.Assign) else [st.target]):
                                    if isinstance(t, ast.Name):
                                        outside.add(t.id)     # class-level attribute / descriptor
        # ... and those of them that are always bound to a freshly built object (a display, a
        # constructor call): never None
        nonnull: Dict[str, bool] = {}
        for tree in self.trees.values():
            for fn in [n for n in ast.walk(tree) if isinstance(n, ast.FunctionDef)
                       and n.name in ("__init__", "__set_name__", "__new__")]:
                for n in _walk_scope(fn):
                    if isinstance(n, (ast.Assign, ast.AnnAssign)) and getattr(n, "value", None) is not None:
                        for t in (n.targets if isinstance(n, ast.Assign) else [n.target]):
                            if isinstance(t, ast.Attribute) and t.attr in inside and t.attr not in outside:
                                v = n.value
                                fresh = isinstance(v, (ast.Dict, ast.List, ast.Set, ast.Tuple, ast.ListComp, ast.DictComp,
                                                       ast.SetComp, ast.JoinedStr)) or (
                                    isinstance(v, ast.Call) and isinstance(v.func, (ast.Name, ast.Attribute, ast.Subscript))
                                    and (attr_path_(v.func.value if isinstance(v.func, ast.Subscript) else v.func) or ("",))[-1][:1].isupper()
                                ) or (isinstance(v, ast.Call) and isinstance(v.func, ast.Name) and v.func.id in (
                                    "dict", "list", "set", "bytearray", "defaultdict", "tuple", "frozenset"))
                                nonnull[t.attr] = nonnull.get(t.attr, True) and fresh
        self.never_none = {a for a, ok in nonnull.items() if ok}
        # attributes of immutable library values the package reads (range / slice bounds, the
        # fields of an intervaltree.Interval named tuple)
        return (inside - outside) | {"start", "stop", "step", "begin", "end", "data"}

    def scan(self) -> None:
        self.defs: Dict[str, List[Helper]] = {}       # simple name -> definitions anywhere
        self.class_names: Set[str] = set()
        self.module_funcs: Dict[Tuple[str, str], Helper] = {}
        self.imports: Dict[str, Dict[str, Tuple[str, str]]] = {}
        self.class_bases: Dict[str, List[str]] = {}
        self.class_methods: Dict[str, Dict[str, Helper]] = {}
        self.class_by_simple: Dict[str, str] = {}
        for mod, tree in self.trees.items():
            imp: Dict[str, Tuple[str, str]] = {}
            absimp: Dict[str, Tuple[str, str]] = {}
            for st in ast.walk(tree):
                if isinstance(st, ast.ImportFrom) and st.level == 1 and st.module:
                    for a in st.names:
                        imp[a.asname or a.name] = (st.module, a.name)
                elif isinstance(st, ast.ImportFrom) and st.level == 0 and st.module:
                    for a in st.names:
                        absimp[a.asname or a.name] = (st.module, a.name)
                elif isinstance(st, ast.Import):
                    for a in st.names:
                        absimp[a.asname or a.name.split(".")[0]] = (a.name if a.asname else a.name.split(".")[0], "")
            self.imports[mod] = imp
            if not hasattr(self, "abs_imports"):
                self.abs_imports: Dict[str, Dict[str, Tuple[str, str]]] = {}
            self.abs_imports[mod] = absimp

            def visit(stmts: List[ast.stmt], cls: Optional[str]) -> None:
                for st in stmts:
                    if isinstance(st, ast.ClassDef):
                        self.class_names.add(st.name)
                        q = (cls + "." if cls else "") + st.name
                        bases = []
                        for b in st.bases:
                            p_ = attr_path_(b.value if isinstance(b, ast.Subscript) else b)
                            if p_:
                                bases.append(p_[-1])
                        self.class_bases[q] = bases
                        self.class_by_simple.setdefault(st.name, q)
                        visit(st.body, q)
                    elif isinstance(st, ast.FunctionDef):
                        h = Helper(mod, cls, st, stmts)
                        if cls is not None:
                            self.class_methods.setdefault(cls, {})[st.name] = h
                        self.defs.setdefault(st.name, []).append(h)
                        if cls is None:
                            self.module_funcs[(mod, st.name)] = h
                    elif isinstance(st, ast.If):
                        visit(st.body, cls)
                        visit(st.orelse, cls)
            visit(tree.body, None)

    def is_candidate(self, h: Helper, unique: bool = True) -> bool:
        n = h.node.name
        if self.known is None or h.key in self.known:
            return False
        if n.startswith("__") and n.endswith("__"):
            return False
        if not n.startswith("_") and n in self.style:
            # a new public function: inlined at the package's own call sites only when the pinned
            # tree calls nothing of that name (so every call of the name was written with the
            # definition); its definition stays, others may call it
            return False
        if h.other_deco:
            return False
        a = h.node.args
        if a.posonlyargs:
            return False
        if a.kwarg:
            # only a pure pass-through:  def f(p, **kw): ... g(..., **kw) ...  (one use)
            uses = [x for x in ast.walk(h.node) if isinstance(x, ast.Name) and x.id == a.kwarg.arg]
            fwd = [k for c_ in ast.walk(h.node) if isinstance(c_, ast.Call) for k in c_.keywords
                   if k.arg is None and isinstance(k.value, ast.Name) and k.value.id == a.kwarg.arg]
            if len(uses) != 1 or len(fwd) != 1:
                return False
        if unique and len(self.defs.get(n, [])) != 1:
            return False                      # overridden or ambiguous
        for x in _walk_scope(h.node):
            if isinstance(x, (ast.Global, ast.Nonlocal)):
                return False
            if isinstance(x, ast.Call) and self._callee_name(x) == n:
                return False                  # recursive
            if isinstance(x, ast.Call) and isinstance(x.func, ast.Name) and x.func.id == "super":
                return False
        return True

    @staticmethod
    def _callee_name(c: ast.Call) -> Optional[str]:
        f = c.func
        if isinstance(f, ast.Subscript):        # Generic[...](...)
            f = f.value
        if isinstance(f, ast.Name):
            return f.id
        if isinstance(f, ast.Attribute):
            return f.attr
        return None

    # ------------------------------------------------------------------ N3
    def _resolve(self, mod: str, call: ast.Call, caller_cls: Optional[str]) -> Optional[Tuple[Helper, Optional[ast.expr]]]:
        """-> (helper, receiver to bind to its first parameter or None)"""
        f = call.func
        if isinstance(f, ast.Name):
            h = self.module_funcs.get((mod, f.id))
            if h is None and f.id in self.imports.get(mod, {}):
                m2, n2 = self.imports[mod][f.id]
                h = self.module_funcs.get((m2, n2))
            if h is None:
                # a function defined locally in the caller (a closure over its loop-invariant
                # names) that the pinned tree does not have: its body refers to the caller's own
                # variables, so it is spliced like any helper
                cur = getattr(self, "_cur_fn", None)
                q = getattr(cur, "_qual", None)
                if cur is not None and q:
                    local = [b for b in cur.body if isinstance(b, ast.FunctionDef) and b.name == f.id]
                    holder_: List[ast.stmt] = cur.body
                    if not local:
                        # ... or defined in a nested block right in front of the statement that calls it
                        for blk_owner in _walk_scope(cur):
                            for fld_ in ("body", "orelse", "finalbody"):
                                lst_ = getattr(blk_owner, fld_, None)
                                if not isinstance(lst_, list):
                                    continue
                                for i_ in range(1, len(lst_)):
                                    if isinstance(lst_[i_ - 1], ast.FunctionDef) and lst_[i_ - 1].name == f.id and any(
                                            x is call for x in ast.walk(lst_[i_])) and not isinstance(lst_[i_], ast.FunctionDef):
                                        n_loads = sum(1 for x in ast.walk(cur) if isinstance(x, ast.Name) and x.id == f.id
                                                      and isinstance(x.ctx, ast.Load) and any(x is y for y in ast.walk(lst_[i_])))
                                        n_all = sum(1 for x in lst_[i_:] for y in ast.walk(x) if isinstance(y, ast.Name)
                                                    and y.id == f.id and isinstance(y.ctx, ast.Load))
                                        if n_loads == n_all:
                                            local, holder_ = [lst_[i_ - 1]], lst_
                    stores_ = sum(1 for n in _walk_scope(cur) if isinstance(n, ast.Name) and n.id == f.id
                                  and not isinstance(n.ctx, ast.Load)) if local else 0
                    if len(local) == 1 and stores_ == 0 and self.known is not None and \
                            ("%s:%s.%s" % (mod, q, f.id)) not in self.known and not local[0].decorator_list \
                            and not any(isinstance(x, (ast.Nonlocal, ast.Global)) for x in ast.walk(local[0])) \
                            and not any(isinstance(x, ast.Call) and isinstance(x.func, ast.Name) and x.func.id == f.id
                                        for x in ast.walk(local[0])) \
                            and not local[0].args.kwarg and not local[0].args.posonlyargs:
                        hl = Helper(mod, None, local[0], holder_)
                        return hl, None
                return None
            if not self.is_candidate(h):
                return None
            return h, None
        if isinstance(f, ast.Attribute) and isinstance(f.value, ast.Call) and isinstance(f.value.func, ast.Name) \
                and f.value.func.id == "super" and not f.value.args and caller_cls is not None:
            # super().m(...): the method a base class defines, when that method is not part of
            # the pinned tree's vocabulary (a method pulled up into a base class)
            cur_fn = getattr(self, "_cur_fn", None)
            if cur_fn is None or not cur_fn.args.args:
                return None
            seen: Set[str] = set()
            todo = list(self.class_bases.get(caller_cls, []))
            while todo:
                b = todo.pop(0)
                q = self.class_by_simple.get(b)
                if q is None or q in seen:
                    continue
                seen.add(q)
                h2 = self.class_methods.get(q, {}).get(f.attr)
                if h2 is not None:
                    if self.known is None or h2.key in self.known or h2.other_deco or h2.static or h2.classmethod \
                            or h2.node.args.vararg or h2.node.args.kwarg:
                        return None
                    for x in _walk_scope(h2.node):
                        if isinstance(x, (ast.Global, ast.Nonlocal)) or (
                                isinstance(x, ast.Call) and isinstance(x.func, ast.Name) and x.func.id == "super"):
                            return None
                    return h2, ast.Name(id=cur_fn.args.args[0].arg, ctx=ast.Load())
                todo = list(self.class_bases.get(q, [])) + todo
            return None
        if isinstance(f, ast.Attribute) and isinstance(f.value, ast.Name):
            # a method of a private record (NamedTuple) class called on a local bound to one
            cur_fn0 = getattr(self, "_cur_fn", None)
            hint = getattr(cur_fn0, "_recv_records", {}).get(f.value.id) if cur_fn0 is not None else None
            if hint is not None and self._record_class(mod, hint) is not None:
                hm = self.class_methods.get(hint, {}).get(f.attr)
                if hm is not None and not hm.static and not hm.classmethod and not hm.other_deco and not hm.generator:
                    return hm, f.value
            if cur_fn0 is not None:
                rl = getattr(cur_fn0, "_record_locals", None)
                if rl is None:
                    rl = {}
                    for n0 in _walk_scope(cur_fn0):
                        if isinstance(n0, ast.Assign) and len(n0.targets) == 1 and isinstance(n0.targets[0], ast.Name) \
                                and isinstance(n0.value, ast.Call) and isinstance(n0.value.func, ast.Name) \
                                and n0.value.func.id.startswith("_") and self._record_class(mod, n0.value.func.id) is not None:
                            rl[n0.targets[0].id] = n0.value.func.id
                    cur_fn0._record_locals = rl  # type: ignore[attr-defined]
                cn0 = rl.get(f.value.id)
                if cn0 is not None:
                    hm = self.class_methods.get(cn0, {}).get(f.attr)
                    if hm is not None and not hm.static and not hm.classmethod and not hm.other_deco \
                            and not hm.generator:
                        return hm, f.value
        if isinstance(f, ast.Attribute):
            hs = self.defs.get(f.attr, [])
            if len(hs) > 1 and caller_cls is not None and isinstance(f.value, ast.Name):
                # several classes define the name: ``self.m(...)`` inside a method of C is C's own
                # (or inherited) m when no subclass of C redefines it
                cur_fn = getattr(self, "_cur_fn", None)
                me_ = cur_fn.args.args[0].arg if cur_fn is not None and cur_fn.args.args and getattr(
                    cur_fn, "_is_method", False) else None
                if me_ is not None and f.value.id == me_:
                    found = None
                    seen_: Set[str] = set()
                    todo_ = [caller_cls]
                    while todo_ and found is None:
                        q_ = todo_.pop(0)
                        if q_ in seen_:
                            continue
                        seen_.add(q_)
                        found = self.class_methods.get(q_, {}).get(f.attr)
                        todo_ = [self.class_by_simple.get(b_) for b_ in self.class_bases.get(q_, [])
                                 if self.class_by_simple.get(b_)] + todo_
                    below = [q_ for q_ in self.class_bases if q_ != caller_cls and self._descends(q_, caller_cls)]
                    if found is not None and not any(f.attr in self.class_methods.get(q_, {}) for q_ in below) \
                            and self.is_candidate(found, unique=False) and not found.static and not found.classmethod:
                        return found, f.value
                return None
            if len(hs) != 1 or hs[0].cls is None or not self.is_candidate(hs[0]):
                return None
            h = hs[0]
            recv = f.value
            # the receiver must be a plain path (evaluated possibly several times)
            p = recv
            while isinstance(p, ast.Attribute):
                p = p.value
            if not isinstance(p, ast.Name):
                return None
            via_class = isinstance(recv, ast.Name) and recv.id in self.class_names or \
                (isinstance(recv, ast.Attribute) and recv.attr in self.class_names)
            if h.static:
                return h, None
            if h.classmethod:
                if not (via_class or (isinstance(recv, ast.Name) and recv.id == "cls")):
                    return None
                return h, recv
            if via_class:
                return h, None          # unbound call: self passed explicitly
            return h, recv
        return None

    def _descends(self, q: str, anc: str) -> bool:
        seen: Set[str] = set()
        todo = [q]
        while todo:
            c = todo.pop()
            if c in seen:
                continue
            seen.add(c)
            for b in self.class_bases.get(c, []):
                qb = self.class_by_simple.get(b)
                if qb == anc:
                    return True
                if qb:
                    todo.append(qb)
        return False

    def _bind(self, h: Helper, call: ast.Call, recv: Optional[ast.expr]) -> Optional[Dict[str, ast.expr]]:
        va = h.node.args.vararg
        if va is not None:
            # f(a, *rest) calling  def f(p, *args): only the plain pass-through is understood
            n_fixed = len(h.node.args.args) - (1 if recv is not None else 0)
            extra = call.args[n_fixed:]
            if len(extra) != 1 or not isinstance(extra[0], ast.Starred) or not isinstance(extra[0].value, ast.Name) \
                    or any(isinstance(a, ast.Starred) for a in call.args[:n_fixed]) or any(k.arg is None for k in call.keywords):
                return None
            fake = ast.Call(func=call.func, args=list(call.args[:n_fixed]), keywords=call.keywords)
            saved = h.node.args.vararg
            h.node.args.vararg = None
            try:
                out0 = self._bind(h, fake, recv)
            finally:
                h.node.args.vararg = saved
            if out0 is None:
                return None
            out0[va.arg] = extra[0].value
            return out0
        if any(isinstance(a, ast.Starred) for a in call.args) or any(k.arg is None for k in call.keywords):
            return None
        params = [a.arg for a in h.node.args.args]
        kwonly = [a.arg for a in h.node.args.kwonlyargs]
        defaults = h.node.args.defaults
        dmap: Dict[str, ast.expr] = {}
        for p, d in zip(params[len(params) - len(defaults):], defaults):
            dmap[p] = d
        for p, d in zip(kwonly, h.node.args.kw_defaults):
            if d is not None:
                dmap[p] = d
        out: Dict[str, ast.expr] = {}
        pos = list(call.args)
        if recv is not None:
            pos = [recv] + pos
        if len(pos) > len(params):
            return None
        for p, a in zip(params, pos):
            out[p] = a
        kwname = h.node.args.kwarg.arg if h.node.args.kwarg else None
        for k in call.keywords:
            if k.arg in out:
                return None
            if k.arg not in params + kwonly:
                if kwname is None:
                    return None
                out["**%s:%s" % (kwname, k.arg)] = k.value     # forwarded keyword
                continue
            out[k.arg] = k.value
        for p in params + kwonly:
            if p not in out:
                if p not in dmap:
                    return None
                out[p] = dmap[p]
        return out

    @staticmethod
    def _atomic(e: ast.expr) -> bool:
        if isinstance(e, ast.Constant):
            return True
        while isinstance(e, ast.Attribute):
            e = e.value
        return isinstance(e, ast.Name)

    def _instantiate(self, h: Helper, binding: Dict[str, ast.expr], caller: ast.FunctionDef,
                     at: ast.AST) -> Optional[Tuple[List[ast.stmt], List[ast.stmt]]]:
        """-> (parameter bindings, renamed copy of the body)"""
        body = copy.deepcopy(_body_wo_doc(h.node))
        holder = ast.Module(body=body, type_ignores=[])
        assigned = _assigned_names(holder)
        taken = getattr(caller, "_taken", None)
        if taken is None:
            taken = _all_names(caller)
            caller._taken = taken  # type: ignore[attr-defined]
        mapping: Dict[str, ast.expr] = {}
        pre: List[ast.stmt] = []
        uses: Dict[str, int] = {}
        for n in ast.walk(holder):
            if isinstance(n, ast.Name) and isinstance(n.ctx, ast.Load):
                uses[n.id] = uses.get(n.id, 0) + 1

        def fresh(name: str) -> str:
            if name not in taken:
                taken.add(name)
                return name
            i = 1
            while "%s_%s%d" % (name, h.node.name.strip("_"), i) in taken:
                i += 1
            nm = "%s_%s%d" % (name, h.node.name.strip("_"), i)
            taken.add(nm)
            return nm

        forwarded: List[Tuple[str, str, ast.expr]] = []
        for p in [p_ for p_ in binding if p_.startswith("**")]:
            kwn, key = p[2:].split(":", 1)
            a = binding.pop(p)
            if self._atomic(a) or _purity(a, set()) < 2:
                forwarded.append((kwn, key, a))
            else:
                nm = fresh("%s_%s" % (kwn, key))
                pre.append(ast.Assign(targets=[ast.Name(id=nm, ctx=ast.Store())], value=copy.deepcopy(a),
                                      lineno=0, col_offset=0))
                forwarded.append((kwn, key, ast.Name(id=nm, ctx=ast.Load())))
        if h.node.args.kwarg is not None:
            kwn0 = h.node.args.kwarg.arg
            for c_ in ast.walk(holder):
                if isinstance(c_, ast.Call):
                    new_kws: List[ast.keyword] = []
                    for k in c_.keywords:
                        if k.arg is None and isinstance(k.value, ast.Name) and k.value.id == kwn0:
                            new_kws.extend(ast.keyword(arg=key, value=copy.deepcopy(v_)) for kn_, key, v_ in forwarded
                                           if kn_ == kwn0)
                        else:
                            new_kws.append(k)
                    c_.keywords = new_kws
        for p, a in binding.items():
            if p in assigned or not (self._atomic(a) or isinstance(a, ast.Lambda)
                                     or uses.get(p, 0) <= 1 and _purity(a, set()) < 2):
                nm = fresh(p)
                pre.append(ast.Assign(targets=[ast.Name(id=nm, ctx=ast.Store())], value=copy.deepcopy(a),
                                      lineno=0, col_offset=0))
                mapping[p] = ast.Name(id=nm, ctx=ast.Load())
            else:
                mapping[p] = a
        for nm in sorted(assigned):
            if nm in binding:
                continue
            new = fresh(nm)
            if new != nm:
                mapping[nm] = ast.Name(id=new, ctx=ast.Load())
        sub = _Subst(mapping, mark_synth=True)
        body = [sub.visit(s) for s in body]
        for s in pre:
            for n in ast.walk(s):
                if isinstance(n, ast.Constant):
                    n._synth = True  # type: ignore[attr-defined]
        for s in pre + body:
            _set_loc(s, at)
        # a parameter bound to a literal table makes loops over it constant: bring the instance
        # into normal form (unrolled, folded) before its exits are nested at the call site
        if any(isinstance(a_, (ast.Tuple, ast.List)) for a_ in binding.values()) and body:
            tmp = ast.FunctionDef(name="_instance_", args=ast.arguments(posonlyargs=[], args=[], kwonlyargs=[],
                                                                          kw_defaults=[], defaults=[]),
                                  body=body, decorator_list=[], returns=None, type_comment=None, type_params=[])
            _set_loc(tmp, at)
            for _ in range(4):
                a1 = self.shapes(tmp)
                a2 = self.fold(tmp)
                if not (a1 or a2):
                    break
            body = tmp.body
            taken |= _all_names(tmp)
        return pre, body

    @staticmethod
    def _returns(body: List[ast.stmt]) -> List[ast.Return]:
        out = []
        for s in body:
            for n in [s] + list(_walk_scope(s)):
                if isinstance(n, ast.Return):
                    out.append(n)
        return out

    def _nest_early_exits(self, stmts: List[ast.stmt]) -> List[ast.stmt]:
        """``if c: ...; return X`` followed by REST  ->  ``if c: ...; return X`` / ``else: REST``"""
        for k, st in enumerate(stmts):
            if isinstance(st, ast.If):
                st.body = self._nest_early_exits(st.body)
                st.orelse = self._nest_early_exits(st.orelse)
                if k + 1 < len(stmts) and not st.orelse and self._always_exits(st.body) \
                        and self._returns(st.body):
                    st.orelse = self._nest_early_exits(stmts[k + 1:])
                    return stmts[:k + 1]
        return stmts

    def _tail_rewrite(self, body: List[ast.stmt], make) -> Optional[List[ast.stmt]]:
        """replace every return (all must be in tail position once early exits are nested) by
        make(value); paths that fall off the end get make(None).  None if impossible."""
        body = self._nest_early_exits(body)

        def tail(stmts: List[ast.stmt]) -> Optional[List[ast.stmt]]:
            if not stmts:
                return list(make(None))
            init, last = stmts[:-1], stmts[-1]
            if self._returns(init):
                return None
            if isinstance(last, ast.Return):
                return init + list(make(last.value))
            if isinstance(last, ast.Raise):
                return stmts
            if isinstance(last, ast.If):
                b = tail(last.body)
                o = tail(last.orelse)
                if b is None or o is None:
                    return None
                last.body = b or [ast.copy_location(ast.Pass(), last)]
                last.orelse = o
                return init + [last]
            if self._returns([last]):
                return None
            return stmts + list(make(None))
        return tail(body)

    def _inline_in_function(self, mod: str, fn: ast.FunctionDef, cls: Optional[str]) -> bool:
        changed = False
        self._cur_fn = fn
        fn._record_locals = None  # type: ignore[attr-defined]

        def splice_block(stmts: List[ast.stmt]) -> List[ast.stmt]:
            nonlocal changed
            out: List[ast.stmt] = []
            for st in stmts:
                # recurse into compound statements first
                for fld in ("body", "orelse", "finalbody"):
                    sub = getattr(st, fld, None)
                    if isinstance(sub, list) and sub and isinstance(sub[0], ast.stmt) and not isinstance(st, ScopeT):
                        setattr(st, fld, splice_block(sub))
                if isinstance(st, ast.Try):
                    for hd in st.handlers:
                        hd.body = splice_block(hd.body)
                pre_recv = self._name_receiver(fn, st)
                if pre_recv is not None:
                    out.append(pre_recv)
                    changed = True
                rep = self._splice_stmt(mod, fn, cls, st)
                if rep is None:
                    rep = self._hoist(mod, fn, cls, st)
                if rep is not None:
                    changed = True
                    out.extend(rep)
                else:
                    out.append(st)
            return out

        fn.body = splice_block(fn.body)
        # expression-level and closure-level
        if self._inline_exprs(mod, fn, cls):
            changed = True
        return changed

    def _call_of(self, st: ast.stmt) -> Optional[Tuple[str, ast.Call]]:
        if isinstance(st, ast.Expr):
            v = st.value
            if isinstance(v, ast.Call):
                return "expr", v
            if isinstance(v, ast.YieldFrom) and isinstance(v.value, ast.Call):
                return "yieldfrom", v.value
        if isinstance(st, ast.Return) and isinstance(st.value, ast.Call):
            return "return", st.value
        if isinstance(st, ast.Assign) and isinstance(st.value, ast.Call):
            return "assign", st.value
        if isinstance(st, ast.AnnAssign) and isinstance(st.value, ast.Call):
            return "assign", st.value
        return None

    def _name_receiver(self, fn: ast.FunctionDef, st: ast.stmt) -> Optional[ast.stmt]:
        """``return <call>.helper(args)`` / ``x = <call>.helper(args)``: the receiver of a helper
        method is evaluated first in any case; give it a name so that the helper can be spliced"""
        co = self._call_of(st)
        if co is None:
            return None
        _ctx, call = co
        f = call.func
        if not (isinstance(f, ast.Attribute) and isinstance(f.value, ast.Call)):
            return None
        if isinstance(f.value.func, ast.Name) and f.value.func.id == "super":
            return None
        hs = self.defs.get(f.attr, [])
        rec_recv = isinstance(f.value.func, ast.Name) and self._record_class(getattr(fn, "_mod", ""), f.value.func.id) is not None
        if not rec_recv and (len(hs) != 1 or hs[0].cls is None or not self.is_candidate(hs[0]) or hs[0].static
                             or hs[0].classmethod):
            return None
        taken = getattr(fn, "_taken", None)
        if taken is None:
            taken = _all_names(fn)
            fn._taken = taken  # type: ignore[attr-defined]
        i = 1
        while "receiver%d" % i in taken:
            i += 1
        nm = "receiver%d" % i
        taken.add(nm)
        tmp = ast.Assign(targets=[ast.Name(id=nm, ctx=ast.Store())], value=f.value)
        ast.copy_location(tmp, st)
        _set_loc(tmp.targets[0], st)
        if rec_recv:
            rr = getattr(fn, "_recv_records", None)
            if rr is None:
                rr = fn._recv_records = {}  # type: ignore[attr-defined]
            rr[nm] = f.value.func.id  # type: ignore[attr-defined]
        f.value = ast.copy_location(ast.Name(id=nm, ctx=ast.Load()), f.value)
        return tmp

    def _hoist(self, mod: str, fn: ast.FunctionDef, cls: Optional[str], st: ast.stmt) -> Optional[List[ast.stmt]]:
        """``return f(helper(x))`` -> ``t = helper(x)`` / ``return f(t)`` when the helper call is
        the first thing the statement evaluates that can have an effect, and it is evaluated
        exactly once; the temporary is spliced by the caller (or put back by N2)"""
        if isinstance(st, ast.If):
            root = st.test              # evaluated once, before anything in the branches
        elif isinstance(st, ast.For):
            root = st.iter
        elif not isinstance(st, (ast.Return, ast.Assign, ast.Expr, ast.AugAssign, ast.AnnAssign)):
            return None
        else:
            root = st.value if not isinstance(st, ast.Expr) else st.value
        if root is None:
            return None
        _renumber(st)
        once = _once_positions(root)
        for c in sorted((n for n in ast.walk(root) if isinstance(n, ast.Call)), key=_pos):
            if c is root and isinstance(st, (ast.Return, ast.Assign, ast.Expr, ast.AnnAssign)):
                continue            # the whole value: _splice_stmt's business
            if id(c) not in once:
                continue
            r = self._resolve(mod, c, cls)
            if r is None:
                continue
            h, recv = r
            if h.node is fn or h.generator or self._prefers_closure(mod, fn, h):
                continue
            hb = _body_wo_doc(h.node)
            if len(hb) == 1 and isinstance(hb[0], ast.Return):
                continue            # expression-level
            # nothing with an effect may be evaluated before it in this statement
            early = [n for n in ast.walk(root) if isinstance(n, ast.Call) and n is not c and _before(n, c)
                     and not _contains(n, c) and not (isinstance(n.func, ast.Name) and n.func.id in PURE_CALLS)]
            if early:
                continue
            taken = getattr(fn, "_taken", None)
            if taken is None:
                taken = _all_names(fn)
                fn._taken = taken  # type: ignore[attr-defined]
            i = 1
            while "%s_result%d" % (h.node.name.strip("_"), i) in taken:
                i += 1
            nm = "%s_result%d" % (h.node.name.strip("_"), i)
            taken.add(nm)
            tmp = ast.Assign(targets=[ast.Name(id=nm, ctx=ast.Store())], value=c)
            ast.copy_location(tmp, st)
            _set_loc(tmp.targets[0], st)

            class R(ast.NodeTransformer):
                def visit_Call(self, node: ast.Call) -> ast.AST:
                    if node is c:
                        return ast.copy_location(ast.Name(id=nm, ctx=ast.Load()), node)
                    return self.generic_visit(node)
            if isinstance(st, ast.If):
                st.test = R().visit(st.test)
                new_st = st
            elif isinstance(st, ast.For):
                st.iter = R().visit(st.iter)
                new_st = st
            else:
                new_st = R().visit(st)
            spliced = self._splice_stmt(mod, fn, cls, tmp)
            if spliced is None:
                # put it back: nothing gained
                class U(ast.NodeTransformer):
                    def visit_Name(self, node: ast.Name) -> ast.AST:
                        if node.id == nm and isinstance(node.ctx, ast.Load):
                            return c
                        return node
                if isinstance(new_st, ast.If):
                    new_st.test = U().visit(new_st.test)
                elif isinstance(new_st, ast.For):
                    new_st.iter = U().visit(new_st.iter)
                else:
                    U().visit(new_st)
                taken.discard(nm)
                continue
            return spliced + [new_st]
        return None

    def _splice_for(self, mod: str, fn: ast.FunctionDef, cls: Optional[str], st: ast.For) -> Optional[List[ast.stmt]]:
        """``for T in gen_helper(args): BODY``  ->  the helper's body with ``T = v; BODY`` at its
        (single) ``yield v``: the consumer runs between two steps of the generator either way"""
        if st.orelse or not isinstance(st.iter, ast.Call):
            return None
        r = self._resolve(mod, st.iter, cls)
        if r is None:
            return None
        h, recv = r
        if h.node is fn or not h.generator or self._prefers_closure(mod, fn, h):
            return None
        # BODY must not jump out of / restart the consumer loop (it would have to leave the helper's loops)
        def jumps(stmts: List[ast.stmt]) -> bool:
            for s_ in stmts:
                if isinstance(s_, (ast.Break, ast.Continue)):
                    return True
                if isinstance(s_, (ast.For, ast.While) + ScopeT):
                    continue
                for fld in ("body", "orelse", "finalbody"):
                    sub = getattr(s_, fld, None)
                    if isinstance(sub, list) and sub and isinstance(sub[0], ast.stmt) and jumps(sub):
                        return True
                if isinstance(s_, ast.Try) and any(jumps(hd.body) for hd in s_.handlers):
                    return True
            return False
        if jumps(st.body):
            return None
        binding = self._bind(h, st.iter, recv)
        if binding is None:
            return None
        ys = [n for n in _walk_scope(h.node) if isinstance(n, (ast.Yield, ast.YieldFrom))]
        if not ys or len(ys) > 3 or any(not isinstance(y, ast.Yield) or y.value is None for y in ys):
            return None
        if len(ys) > 1 and sum(len(list(ast.walk(b_))) for b_ in st.body) > 60:
            return None             # the consumer's body would be duplicated at every yield
        if any(isinstance(n, (ast.Try, ast.With)) for n in _walk_scope(h.node)):
            return None
        inst = self._instantiate(h, binding, fn, st)
        if inst is None:
            return None
        pre, body = inst
        if any(r_.value is not None for r_ in self._returns(body)):
            return None
        done = 0

        def place(stmts: List[ast.stmt]) -> None:
            nonlocal done
            i = 0
            while i < len(stmts):
                s_ = stmts[i]
                if isinstance(s_, ast.Expr) and isinstance(s_.value, ast.Yield):
                    bind = ast.Assign(targets=[copy.deepcopy(st.target)], value=s_.value.value)
                    ast.copy_location(bind, st)
                    new_ = [bind] + (copy.deepcopy(st.body) if done else list(st.body))
                    stmts[i:i + 1] = new_
                    done += 1
                    i += len(new_)
                    continue
                if not isinstance(s_, ScopeT):
                    for fld in ("body", "orelse", "finalbody"):
                        sub = getattr(s_, fld, None)
                        if isinstance(sub, list) and sub and isinstance(sub[0], ast.stmt):
                            place(sub)
                i += 1
        place(body)
        if done != len(ys):
            return None
        # a bare ``return`` of the generator ends the iteration: the consumer loop is over, the
        # statements after it run — only a helper without such returns is spliced
        if self._returns(body) and not _is_generator(fn):
            return None
        if [r_ for r_ in self._returns(body) if r_.value is None and r_ not in self._returns(st.body)]:
            return None
        self.report.inlined.append("%s -> %s (for)" % (h.key, fn.name))
        self._inlined_keys.add(h.key)
        out = pre + body
        for s_ in out:
            ast.fix_missing_locations(s_)
        return out

    def _splice_stmt(self, mod: str, fn: ast.FunctionDef, cls: Optional[str], st: ast.stmt) -> Optional[List[ast.stmt]]:
        if isinstance(st, ast.For):
            return self._splice_for(mod, fn, cls, st)
        co = self._call_of(st)
        if co is None:
            return None
        ctx, call = co
        r = self._resolve(mod, call, cls)
        if r is None:
            return None
        h, recv = r
        if h.node is fn:
            return None
        if self._prefers_closure(mod, fn, h):
            return None
        binding = self._bind(h, call, recv)
        if binding is None:
            return None
        hb = _body_wo_doc(h.node)
        if len(hb) == 1 and isinstance(hb[0], ast.Return) and hb[0].value is not None and ctx != "yieldfrom" \
                and all(self._atomic(a_) or isinstance(a_, ast.Lambda) or _purity(a_, set()) < 2
                        for a_ in binding.values()):
            return None                 # expression-level inlining handles it (keeps the statement)
        if h.generator and ctx == "return" and not _is_generator(fn):
            # ``return self._gen(...)``: the caller hands out the helper's generator; spliced in,
            # the caller is that generator (same elements, same laziness of the body)
            ctx = "yieldfrom"
        if h.generator != (ctx == "yieldfrom"):
            return None
        inst = self._instantiate(h, binding, fn, st)
        if inst is None:
            return None
        pre, body = inst
        if ctx == "yieldfrom":
            if any(r.value is not None for r in self._returns(body)):
                return None
            new = self._tail_rewrite(body, lambda v: [])
        elif ctx == "expr":
            if any(r.value is not None and not (isinstance(r.value, ast.Constant) and r.value.value is None)
                   for r in self._returns(body)):
                return None
            new = self._tail_rewrite(body, lambda v: [])
        elif ctx == "return":
            new = body
            if not self._always_exits(body):
                new = body + [_set_loc(ast.Return(value=None), st)]
        else:
            if isinstance(st, ast.Assign):
                tg = st.targets
            else:
                tg = [st.target]  # type: ignore[attr-defined]
            # targets are evaluated after the value: any target expression is fine

            def make(v: Optional[ast.expr]) -> List[ast.stmt]:
                val = v if v is not None else ast.Constant(value=None)
                if isinstance(st, ast.AnnAssign) and not isinstance(st.target, ast.Name):
                    # (the annotation of an attribute target tells the analysis its type)
                    aa = ast.AnnAssign(target=copy.deepcopy(st.target), annotation=copy.deepcopy(st.annotation),
                                       value=val, simple=0)
                    ast.copy_location(aa, st)
                    _set_loc(aa.target, st)
                    if v is None:
                        _set_loc(val, st)
                    return [aa]
                a = ast.Assign(targets=copy.deepcopy(tg), value=val)
                ast.copy_location(a, st)
                for t in a.targets:
                    _set_loc(t, st)
                if v is None:
                    _set_loc(val, st)
                return [a]
            new = self._tail_rewrite(body, make)
            if new is not None:
                for s in new:
                    ast.fix_missing_locations(s)
        if new is None:
            return None
        self.report.inlined.append("%s -> %s" % (h.key, fn.name))
        self._inlined_keys.add(h.key)
        out = pre + new
        if not out:
            out = [ast.copy_location(ast.Pass(), st)]
        for s in out:
            ast.fix_missing_locations(s)
        return out

    @staticmethod
    def _always_exits(body: List[ast.stmt]) -> bool:
        if not body:
            return False
        last = body[-1]
        if isinstance(last, (ast.Return, ast.Raise)):
            return True
        if isinstance(last, ast.If) and last.orelse:
            return Normaliser._always_exits(last.body) and Normaliser._always_exits(last.orelse)
        return False

    @staticmethod
    def _body_as_expr(stmts: List[ast.stmt]) -> Optional[ast.expr]:
        """``if c: return a`` / ``return b``  ->  ``a if c else b`` (None when the body is more
        than tests and returns)"""
        if not stmts:
            return ast.Constant(value=None)
        st, rest = stmts[0], stmts[1:]
        if isinstance(st, ast.Return):
            return st.value if st.value is not None else ast.Constant(value=None)
        if isinstance(st, (ast.Pass, ast.Assert)) or (isinstance(st, ast.Expr) and isinstance(st.value, ast.Constant)):
            return Normaliser._body_as_expr(rest)
        if isinstance(st, ast.If):
            a = Normaliser._body_as_expr(list(st.body) + ([] if Normaliser._always_exits(st.body) else rest))
            b = Normaliser._body_as_expr(list(st.orelse) + ([] if st.orelse and Normaliser._always_exits(st.orelse) else rest))
            if a is None or b is None:
                return None
            return ast.IfExp(test=st.test, body=a, orelse=b)
        return None

    def _prefers_closure(self, mod: str, fn: ast.FunctionDef, h: Helper) -> bool:
        """the pinned tree has a nested function of this name in this caller: the helper is that
        nested function moved out, and becomes it again"""
        q = getattr(fn, "_qual", None)
        nm = h.node.name.strip("_")
        return bool(q) and self.known is not None and ("%s:%s.%s" % (mod, q, nm)) in self.known

    def _inline_exprs(self, mod: str, fn: ast.FunctionDef, cls: Optional[str]) -> bool:
        changed = False
        norm = self
        closures: Dict[str, Helper] = {}
        closure_calls: Dict[str, List[Tuple[ast.Call, Dict[str, ast.expr]]]] = {}
        closure_refs: Dict[str, int] = {}

        def as_closure(h: Helper) -> Optional[str]:
            nm = h.node.name.strip("_") or h.node.name
            if closures.get(nm) is h:
                return nm
            if nm in _all_names(fn) or nm in closures:
                return None
            closures[nm] = h
            return nm

        def single_return(h: Helper) -> Optional[ast.expr]:
            hb = _body_wo_doc(h.node)
            if len(hb) == 1 and isinstance(hb[0], ast.Return) and hb[0].value is not None and not h.generator:
                return hb[0].value
            # a generator helper that is one loop with one yield is the generator expression
            #   (E for T in IT [if c])   (consumed where it is created, see the E0 assumptions)
            if h.generator and len(hb) == 1 and isinstance(hb[0], ast.For) and not hb[0].orelse and len(hb[0].body) == 1:
                inner = hb[0].body[0]
                conds: List[ast.expr] = []
                while isinstance(inner, ast.If) and not inner.orelse and len(inner.body) == 1:
                    conds.append(inner.test)
                    inner = inner.body[0]
                if isinstance(inner, ast.Expr) and isinstance(inner.value, ast.Yield) and inner.value.value is not None \
                        and not any(isinstance(x, (ast.Yield, ast.YieldFrom)) for c_ in conds for x in ast.walk(c_)):
                    ge = ast.GeneratorExp(elt=inner.value.value, generators=[ast.comprehension(
                        target=hb[0].target, iter=hb[0].iter, ifs=conds, is_async=0)])
                    return ast.fix_missing_locations(ast.copy_location(ge, h.node))
            if not h.generator and any(isinstance(x, ast.If) for x in hb) and \
                    not any(isinstance(x, ast.Raise) for s_ in hb for x in ast.walk(s_)):
                e = norm._body_as_expr(copy.deepcopy(hb))
                if e is not None:
                    return ast.fix_missing_locations(ast.copy_location(e, h.node))
            return None

        class T(ast.NodeTransformer):
            def visit_FunctionDef(self, node: ast.FunctionDef) -> ast.AST:
                if node is fn:
                    return self.generic_visit(node)
                return node     # nested functions are handled as functions of their own

            def visit_Name(self, node: ast.Name) -> ast.AST:
                # a helper used as a value (key=_helper): a lambda if it is one expression, else
                # a nested function
                nonlocal changed
                if not isinstance(node.ctx, ast.Load):
                    return node
                fake = ast.Call(func=node, args=[], keywords=[])
                r = norm._resolve(mod, fake, cls)
                if r is None:
                    return node
                h, _recv = r
                if h.node is fn or h.cls is not None:
                    return node
                e = single_return(h)
                a = h.node.args
                if e is not None and not a.defaults and not a.kwonlyargs and not norm._prefers_closure(mod, fn, h):
                    lam = ast.Lambda(args=ast.arguments(posonlyargs=[], args=[ast.arg(arg=x.arg) for x in a.args],
                                                        kwonlyargs=[], kw_defaults=[], defaults=[]),
                                     body=copy.deepcopy(e))
                    _set_loc(lam, node)
                    changed = True
                    norm.report.inlined.append("%s -> %s (as lambda)" % (h.key, fn.name))
                    norm._inlined_keys.add(h.key)
                    return lam
                if not norm._allow_closures:
                    return node
                nm = as_closure(h)
                if nm is None:
                    return node
                closure_refs[nm] = closure_refs.get(nm, 0) + 1
                changed = True
                norm.report.closures.append("%s -> %s" % (h.key, fn.name))
                norm._inlined_keys.add(h.key)
                return ast.copy_location(ast.Name(id=nm, ctx=ast.Load()), node)

            def visit_Call(self, node: ast.Call) -> ast.AST:
                nonlocal changed
                r = norm._resolve(mod, node, cls)
                # arguments first; the callee only when it is not the helper itself
                node.args = [self.visit(x) for x in node.args]
                for k in node.keywords:
                    k.value = self.visit(k.value)
                if r is None:
                    node.func = self.visit(node.func)
                    return node
                h, recv = r
                if h.node is fn:
                    return node
                binding = norm._bind(h, node, recv)
                if binding is None:
                    return node
                e = single_return(h)
                if e is not None and not norm._prefers_closure(mod, fn, h):
                    once = _once_positions(e)
                    for p, a in binding.items():
                        if norm._atomic(a) or isinstance(a, ast.Lambda):
                            continue
                        if _purity(a, set()) < 2:
                            continue
                        sites = [n for n in ast.walk(e) if isinstance(n, ast.Name) and n.id == p]
                        if len(sites) != 1 or id(sites[0]) not in once:
                            return node
                    # names bound inside the expression (lambda / comprehension variables) must
                    # not capture names of the arguments
                    bound = {n.id for n in ast.walk(e) if isinstance(n, ast.Name) and isinstance(n.ctx, ast.Store)}
                    bound |= {a.arg for n in ast.walk(e) if isinstance(n, ast.Lambda) for a in n.args.args}
                    argnames = {nm for a in binding.values() for nm in _free_names(a)}
                    if (bound - set(binding)) & argnames:
                        return node
                    new = _Subst(dict(binding), mark_synth=True).visit(copy.deepcopy(e))
                    _set_loc(new, node)
                    changed = True
                    norm.report.inlined.append("%s -> %s" % (h.key, fn.name))
                    norm._inlined_keys.add(h.key)
                    return new
                # closure-level: the helper becomes a nested function of the caller
                if not norm._allow_closures:
                    return node
                params = [x.arg for x in h.node.args.args]
                if recv is not None:
                    # the nested copy sees the receiver through the enclosing scope, under the
                    # helper's own name for it
                    if not (isinstance(recv, ast.Name) and params and recv.id == params[0]):
                        return node
                    if fn.args.args and fn.args.args[0].arg != recv.id:
                        return node
                nm = as_closure(h)
                if nm is None:
                    return node
                # positional form of the call, so that parameters can be dropped below
                own = params[1:] if (recv is not None) else params
                kwonly = [x.arg for x in h.node.args.kwonlyargs]
                node.args = [binding[p] for p in own]
                node.keywords = [ast.keyword(arg=p, value=binding[p]) for p in kwonly]
                for k in node.keywords:
                    _set_loc(k, node)
                closure_calls.setdefault(nm, []).append((node, binding))
                node.func = ast.copy_location(ast.Name(id=nm, ctx=ast.Load()), node.func)
                changed = True
                norm.report.closures.append("%s -> %s" % (h.key, fn.name))
                norm._inlined_keys.add(h.key)
                return node

        T().visit(fn)
        if closures:
            stored_in_fn = _assigned_names(fn) | {a.arg for a in fn.args.args + fn.args.kwonlyargs}
            reassigned = {n.id for n in _walk_scope(fn) if isinstance(n, ast.Name) and isinstance(n.ctx, (ast.Store, ast.Del))}
            defs: List[ast.stmt] = []
            for nm, h in closures.items():
                d = copy.deepcopy(h.node)
                d.name = nm
                d.decorator_list = []
                if h.mod != mod:
                    d.returns = None        # names of another module's annotations mean nothing here
                if not h.static and h.cls is not None and d.args.args:
                    d.args.args = d.args.args[1:]       # self / cls come from the enclosing scope
                # a parameter that every call passes the caller's variable of the same name, never
                # rebound in the caller nor in the helper, is that variable: captured, not passed
                calls = closure_calls.get(nm, [])
                if calls and not closure_refs.get(nm):
                    inner_assigned = _assigned_names(ast.Module(body=list(d.body), type_ignores=[]))
                    for idx in range(len(d.args.args) - 1, -1, -1):
                        p = d.args.args[idx].arg
                        if p in inner_assigned or p in reassigned or p not in stored_in_fn:
                            continue
                        if all(isinstance(bnd.get(p), ast.Name) and bnd[p].id == p for _c, bnd in calls) \
                                and not d.args.defaults:
                            del d.args.args[idx]
                            for c, _bnd in calls:
                                del c.args[idx]
                _set_loc(d, fn.body[0] if fn.body else fn)
                defs.append(d)
            doc = 1 if (fn.body and isinstance(fn.body[0], ast.Expr) and isinstance(fn.body[0].value, ast.Constant)
                        and isinstance(fn.body[0].value.value, str)) else 0
            fn.body = fn.body[:doc] + defs + fn.body[doc:]
            fn._taken = None  # type: ignore[attr-defined]
        return changed

    def _inline_toplevel(self, mod: str, tree: ast.Module) -> bool:
        """class bodies and module level: a one-expression helper used as a value is a lambda"""
        changed = False
        norm = self

        class T(ast.NodeTransformer):
            def visit_FunctionDef(self, node: ast.FunctionDef) -> ast.AST:
                return node

            def visit_Lambda(self, node: ast.Lambda) -> ast.AST:
                return node

            def visit_Call(self, node: ast.Call) -> ast.AST:
                nonlocal changed
                self.generic_visit(node)
                f_ = node.func
                nm = f_.attr if isinstance(f_, ast.Attribute) else f_.id if isinstance(f_, ast.Name) else None
                if nm == "attrgetter" and len(node.args) == 1 and not node.keywords and \
                        isinstance(node.args[0], ast.Constant) and isinstance(node.args[0].value, str) and \
                        all(p_.isidentifier() for p_ in node.args[0].value.split(".")):
                    body: ast.expr = ast.Name(id="self", ctx=ast.Load())
                    for p_ in node.args[0].value.split("."):
                        body = ast.Attribute(value=body, attr=p_, ctx=ast.Load())
                    lam = ast.Lambda(args=ast.arguments(posonlyargs=[], args=[ast.arg(arg="self")], kwonlyargs=[],
                                                        kw_defaults=[], defaults=[]), body=body)
                    changed = True
                    norm.report.shapes += 1
                    return _set_loc(lam, node)
                return node

            def visit_Name(self, node: ast.Name) -> ast.AST:
                nonlocal changed
                if not isinstance(node.ctx, ast.Load):
                    return node
                h = norm.module_funcs.get((mod, node.id))
                if h is None or not norm.is_candidate(h):
                    return node
                hb = _body_wo_doc(h.node)
                a = h.node.args
                if len(hb) != 1 or not isinstance(hb[0], ast.Return) or hb[0].value is None or h.generator \
                        or a.defaults or a.kwonlyargs:
                    return node
                lam = ast.Lambda(args=ast.arguments(posonlyargs=[], args=[ast.arg(arg=x.arg) for x in a.args],
                                                    kwonlyargs=[], kw_defaults=[], defaults=[]),
                                 body=copy.deepcopy(hb[0].value))
                _set_loc(lam, node)
                changed = True
                norm.report.inlined.append("%s -> <%s top level> (as lambda)" % (h.key, mod))
                norm._inlined_keys.add(h.key)
                return lam
        T().visit(tree)
        return changed

    def _qualify(self, fn: ast.FunctionDef, qual: str, mod: str = "") -> None:
        fn._qual = qual  # type: ignore[attr-defined]
        fn._mod = mod  # type: ignore[attr-defined]
        for n in _walk_scope(fn):
            if isinstance(n, ast.FunctionDef):
                self._qualify(n, qual + "." + n.name, mod)

    def inline_helpers(self) -> None:
        self._inlined_keys: Set[str] = set()
        self._allow_closures = False
        for round_ in range(8):
            self.scan()
            any_change = False
            for mod, tree in self.trees.items():
                def visit(stmts: List[ast.stmt], cls: Optional[str]) -> None:
                    nonlocal any_change
                    for st in stmts:
                        if isinstance(st, ast.ClassDef):
                            visit(st.body, (cls + "." if cls else "") + st.name)
                        elif isinstance(st, ast.FunctionDef):
                            self._qualify(st, (cls + "." if cls else "") + st.name, mod)
                            for inner in [st] + [n for n in ast.walk(st) if isinstance(n, ast.FunctionDef) and n is not st]:
                                if self._inline_in_function(mod, inner, cls):
                                    any_change = True
                                    # temporaries introduced by the splice are folded at once, so that
                                    # the next round sees calls where they are used
                                    self._local_passes_fn(inner)
                        elif isinstance(st, ast.If):
                            visit(st.body, cls)
                            visit(st.orelse, cls)
                visit(tree.body, None)
                if self._inline_toplevel(mod, tree):
                    any_change = True
            if not any_change:
                if self._allow_closures:
                    break
                # statement- and expression-level inlining have reached their fixpoint: what is
                # left becomes a nested function of its caller, then the cheaper levels run again
                self._allow_closures = True
        # drop helper definitions nothing refers to any more
        self.scan()
        for hs in list(self.defs.values()):
            for h in hs:
                if not self.is_candidate(h):
                    continue
                nm = h.node.name
                refs = 0
                for tree in self.trees.values():
                    for n in ast.walk(tree):
                        if isinstance(n, ast.Name) and n.id == nm and isinstance(n.ctx, ast.Load):
                            refs += 1
                        elif isinstance(n, ast.Attribute) and n.attr == nm:
                            refs += 1
                        elif isinstance(n, ast.alias) and (n.asname or n.name) == nm:
                            refs += 1
                if refs == 0 and h.key in self._inlined_keys and nm.startswith("_"):
                    h.holder.remove(h.node)
                    if not h.holder:
                        h.holder.append(ast.Pass(lineno=h.node.lineno, col_offset=h.node.col_offset))
                    self.report.dropped.append(h.key)
                elif refs:
                    self.report.not_inlined.append(h.key)

    # ------------------------------------------------------------------ N4 / N5
    def fold(self, fn: ast.FunctionDef) -> bool:
        changed = False
        rep = self.report

        def const_of(e: ast.expr) -> Optional[bool]:
            if isinstance(e, ast.Constant) and getattr(e, "_synth", False):
                return bool(e.value)
            if isinstance(e, ast.UnaryOp) and isinstance(e.op, ast.Not):
                v = const_of(e.operand)
                return None if v is None else (not v)
            if isinstance(e, ast.Compare) and len(e.ops) == 1 and isinstance(e.ops[0], (ast.Is, ast.IsNot)) \
                    and isinstance(e.comparators[0], ast.Constant) and e.comparators[0].value is None \
                    and isinstance(e.left, ast.Attribute) and e.left.attr in getattr(self, "never_none", ()) \
                    and attr_path_(e.left):
                # an attribute that constructors bind to a freshly built object and nothing rebinds
                return isinstance(e.ops[0], ast.IsNot)
            if isinstance(e, ast.Compare) and len(e.ops) == 1 and isinstance(e.ops[0], (ast.Is, ast.IsNot)) \
                    and isinstance(e.left, ast.Constant) and isinstance(e.comparators[0], ast.Constant) \
                    and (getattr(e.left, "_synth", False) or getattr(e.comparators[0], "_synth", False)) \
                    and (e.left.value is None or e.comparators[0].value is None):
                same = e.left.value is e.comparators[0].value
                return same if isinstance(e.ops[0], ast.Is) else not same
            return None

        def boolify(e: ast.expr) -> ast.expr:
            """in a test only the truth value counts: a conditional expression with a constant
            arm is a short-circuit operator  (True if c else x  ==  c or x, ...)"""
            if isinstance(e, ast.UnaryOp) and isinstance(e.op, ast.Not):
                o = boolify(e.operand)
                return e if o is e.operand else ast.copy_location(ast.UnaryOp(op=ast.Not(), operand=o), e)
            if isinstance(e, ast.BoolOp):
                vs = [boolify(v_) for v_ in e.values]
                if all(a_ is b_ for a_, b_ in zip(vs, e.values)):
                    return e
                return ast.copy_location(ast.BoolOp(op=e.op, values=vs), e)
            if isinstance(e, ast.IfExp):
                def is_c(x: ast.expr, val: bool) -> bool:
                    return isinstance(x, ast.Constant) and x.value is val
                neg = ast.copy_location(ast.UnaryOp(op=ast.Not(), operand=e.test), e.test)
                if is_c(e.body, True):
                    return ast.copy_location(ast.BoolOp(op=ast.Or(), values=[e.test, boolify(e.orelse)]), e)
                if is_c(e.orelse, False):
                    return ast.copy_location(ast.BoolOp(op=ast.And(), values=[e.test, boolify(e.body)]), e)
                if is_c(e.body, False):
                    return ast.copy_location(ast.BoolOp(op=ast.And(), values=[neg, boolify(e.orelse)]), e)
                if is_c(e.orelse, True):
                    return ast.copy_location(ast.BoolOp(op=ast.Or(), values=[neg, boolify(e.body)]), e)
            return e

        def block(stmts: List[ast.stmt]) -> List[ast.stmt]:
            nonlocal changed
            out: List[ast.stmt] = []
            for st in stmts:
                if isinstance(st, ScopeT):
                    out.append(st)
                    continue
                for fld in ("body", "orelse", "finalbody"):
                    sub = getattr(st, fld, None)
                    if isinstance(sub, list) and sub and isinstance(sub[0], ast.stmt):
                        setattr(st, fld, block(sub))
                if isinstance(st, ast.Try):
                    for hd in st.handlers:
                        hd.body = block(hd.body)
                if isinstance(st, (ast.If, ast.While)):
                    nt = boolify(st.test)
                    if nt is not st.test:
                        st.test = nt
                        changed = True
                        rep.folded += 1
                if isinstance(st, ast.If):
                    v = const_of(st.test)
                    if v is not None:
                        changed = True
                        rep.folded += 1
                        taken = st.body if v else st.orelse
                        out.extend(taken)
                        if self._always_exits(taken):
                            break           # the rest of the block became unreachable
                        continue
                    if not st.body:
                        st.body = [ast.copy_location(ast.Pass(), st)]
                out.append(st)
            return out

        fn.body = block(fn.body) or [ast.Pass(lineno=fn.lineno, col_offset=0)]

        class E(ast.NodeTransformer):
            def visit_FunctionDef(self, node: ast.FunctionDef) -> ast.AST:
                return self.generic_visit(node) if node is fn else node

            def visit_IfExp(self, node: ast.IfExp) -> ast.AST:
                nonlocal changed
                self.generic_visit(node)
                v = const_of(node.test)
                if v is None:
                    return node
                changed = True
                rep.folded += 1
                return node.body if v else node.orelse
        E().visit(fn)
        return changed

    def if_assign(self, fn: ast.FunctionDef) -> bool:
        changed = False
        stores: Dict[str, int] = {}
        for n in _walk_scope(fn):
            if isinstance(n, ast.Name) and isinstance(n.ctx, (ast.Store, ast.Del)):
                stores[n.id] = stores.get(n.id, 0) + 1
        params = {a.arg for a in fn.args.posonlyargs + fn.args.args + fn.args.kwonlyargs}

        def simple_target(st: ast.stmt) -> Optional[Tuple[str, ast.expr]]:
            if isinstance(st, ast.Assign) and len(st.targets) == 1 and isinstance(st.targets[0], ast.Name):
                return st.targets[0].id, st.value
            if isinstance(st, ast.AnnAssign) and isinstance(st.target, ast.Name) and st.value is not None:
                return st.target.id, st.value
            return None

        def block(stmts: List[ast.stmt]) -> None:
            nonlocal changed
            i = 0
            while i < len(stmts):
                st = stmts[i]
                for fld in ("body", "orelse", "finalbody"):
                    sub = getattr(st, fld, None)
                    if isinstance(sub, list) and sub and isinstance(sub[0], ast.stmt) and not isinstance(st, ScopeT):
                        block(sub)
                if isinstance(st, ast.Try):
                    for hd in st.handlers:
                        block(hd.body)
                # x = d ; if c: x = e
                a = simple_target(st)
                if a and i + 1 < len(stmts) and isinstance(stmts[i + 1], ast.If):
                    nx = stmts[i + 1]
                    if not nx.orelse and len(nx.body) == 1:
                        b = simple_target(nx.body[0])
                        if b and b[0] == a[0] and stores.get(a[0]) == 2 and a[0] not in params \
                                and _quiet(a[1]) and not any(isinstance(n, ast.Name) and n.id == a[0]
                                                             for n in ast.walk(nx.test)):
                            new = ast.Assign(targets=[ast.Name(id=a[0], ctx=ast.Store())],
                                             value=ast.IfExp(test=nx.test, body=b[1], orelse=a[1]),
                                             lineno=0, col_offset=0)
                            _set_only_missing(new, st)
                            stmts[i:i + 2] = [new]
                            stores[a[0]] = 1
                            changed = True
                            self.report.if_assign += 1
                            continue
                # if c: x = e      (x bound before: a parameter)   ->   x = e if c else x
                if isinstance(st, ast.If) and not st.orelse and len(st.body) == 1 and stmts is fn.body:
                    b0 = simple_target(st.body[0])
                    if b0 and b0[0] in params and isinstance(st.body[0], ast.Assign) and \
                            not any(isinstance(n, (ast.Yield, ast.YieldFrom, ast.Await, ast.NamedExpr)) for n in ast.walk(st)):
                        new = ast.Assign(targets=[ast.Name(id=b0[0], ctx=ast.Store())],
                                         value=ast.IfExp(test=st.test, body=b0[1],
                                                         orelse=ast.Name(id=b0[0], ctx=ast.Load())),
                                         lineno=0, col_offset=0)
                        _set_only_missing(new, st)
                        ast.fix_missing_locations(new)
                        stmts[i] = new
                        changed = True
                        self.report.if_assign += 1
                        i += 1
                        continue
                # if c: x = e else: x = d
                if isinstance(st, ast.If) and len(st.body) == 1 and len(st.orelse) == 1:
                    b1, b2 = simple_target(st.body[0]), simple_target(st.orelse[0])
                    if b1 and b2 and b1[0] == b2[0] and stores.get(b1[0]) == 2 and b1[0] not in params:
                        new = ast.Assign(targets=[ast.Name(id=b1[0], ctx=ast.Store())],
                                         value=ast.IfExp(test=st.test, body=b1[1], orelse=b2[1]),
                                         lineno=0, col_offset=0)
                        _set_only_missing(new, st)
                        stmts[i] = new
                        stores[b1[0]] = 1
                        changed = True
                        self.report.if_assign += 1
                i += 1
        block(fn.body)
        return changed

    # ------------------------------------------------------------------ N6.. statement shapes
    def shapes(self, fn: ast.FunctionDef) -> bool:
        """equivalent spellings of one statement shape -> one of them:
        return a if c else b        -> if c: return a / else: return b
        if a: (only) if b: S        -> if a and b: S
        yield from (e for t in it)  -> for t in it: yield e
        for t in it: yield t        -> yield from it
        for t in it: x.append(e)    -> x.extend(e for t in it)
        a, b = x, y                 -> a = x; b = y
        getattr(x, 'name')          -> x.name
        (lambda p: e)(a)            -> e[p := a]       (also through a local bound once to the lambda)
        def f(p): return e  (local, used as a value) -> lambda p: e
        """
        changed = False
        rep = self.report
        # a function that is a generator in the pinned tree and now returns a generator
        # expression built from quiet temporaries: ``return (g)`` -> ``yield from (g)``
        gens_ = self.vocab.get("generators")
        qn = "%s:%s" % (getattr(fn, "_mod", ""), getattr(fn, "_qual", ""))
        if gens_ is not None and qn in set(gens_) and not _is_generator(fn) and fn.body and \
                isinstance(fn.body[-1], ast.Return) and isinstance(fn.body[-1].value, ast.GeneratorExp) and \
                sum(1 for n in _walk_scope(fn) if isinstance(n, ast.Return)) == 1 and all(
                    isinstance(b, ast.Assign) and len(b.targets) == 1 and isinstance(b.targets[0], ast.Name) and (
                        isinstance(b.value, ast.GeneratorExp) or _purity(b.value, set()) < 2)
                    or (isinstance(b, ast.Expr) and isinstance(b.value, ast.Constant)) for b in fn.body[:-1]):
            r_ = fn.body[-1]
            fn.body[-1] = ast.copy_location(ast.Expr(value=ast.copy_location(ast.YieldFrom(value=r_.value), r_)), r_)
            changed = True
            rep.shapes += 1
        _renumber(fn)
        params_all = {a_.arg for a_ in ast.walk(fn.args) if isinstance(a_, ast.arg)}
        stores: Dict[str, int] = {}
        for n in _walk_scope(fn):
            if isinstance(n, ast.Name) and isinstance(n.ctx, (ast.Store, ast.Del)):
                stores[n.id] = stores.get(n.id, 0) + 1

        def block(stmts: List[ast.stmt]) -> List[ast.stmt]:
            nonlocal changed
            out: List[ast.stmt] = []
            for k_idx, st in enumerate(stmts):
                if isinstance(st, ScopeT):
                    out.append(st)
                    continue
                for fld in ("body", "orelse", "finalbody"):
                    sub = getattr(st, fld, None)
                    if isinstance(sub, list) and sub and isinstance(sub[0], ast.stmt):
                        setattr(st, fld, block(sub))
                if isinstance(st, ast.Try):
                    for hd in st.handlers:
                        hd.body = block(hd.body)
                # return a if c else b
                if isinstance(st, ast.Return) and isinstance(st.value, ast.IfExp):
                    e = st.value
                    new = ast.If(test=e.test, body=[ast.copy_location(ast.Return(value=e.body), st)],
                                 orelse=[ast.copy_location(ast.Return(value=e.orelse), st)])
                    out.extend(block([ast.copy_location(new, st)]))
                    changed = True
                    rep.shapes += 1
                    continue
                # if a: if b: S
                if isinstance(st, ast.If) and not st.orelse and len(st.body) == 1 and isinstance(st.body[0], ast.If) \
                        and not st.body[0].orelse:
                    inner = st.body[0]
                    a = st.test.values if isinstance(st.test, ast.BoolOp) and isinstance(st.test.op, ast.And) else [st.test]
                    b = inner.test.values if isinstance(inner.test, ast.BoolOp) and isinstance(inner.test.op, ast.And) else [inner.test]
                    st.test = ast.copy_location(ast.BoolOp(op=ast.And(), values=list(a) + list(b)), st.test)
                    st.body = inner.body
                    out.extend(block([st]))
                    changed = True
                    rep.shapes += 1
                    continue
                # yield from (genexp)
                if isinstance(st, ast.Expr) and isinstance(st.value, ast.YieldFrom) and \
                        isinstance(st.value.value, ast.GeneratorExp) and len(st.value.value.generators) == 1 \
                        and not st.value.value.generators[0].is_async:
                    g = st.value.value.generators[0]
                    body: List[ast.stmt] = [ast.copy_location(ast.Expr(value=ast.copy_location(
                        ast.Yield(value=st.value.value.elt), st)), st)]
                    for cond in reversed(g.ifs):
                        body = [ast.copy_location(ast.If(test=cond, body=body, orelse=[]), st)]
                    new_for = ast.copy_location(ast.For(target=g.target, iter=g.iter, body=body, orelse=[]), st)
                    out.extend(block([new_for]))
                    changed = True
                    rep.shapes += 1
                    continue
                if isinstance(st, ast.For) and isinstance(st.target, ast.Name) and st.body and \
                        isinstance(st.body[0], ast.Assign) and len(st.body[0].targets) == 1 and \
                        isinstance(st.body[0].targets[0], (ast.Tuple, ast.List)) and \
                        isinstance(st.body[0].value, ast.Name) and st.body[0].value.id == st.target.id and \
                        stores.get(st.target.id) == 1 and len(st.body) > 1:
                    tn = st.target.id
                    others = [n for n in ast.walk(fn) if isinstance(n, ast.Name) and n.id == tn and isinstance(n.ctx, ast.Load)]
                    if len(others) == 1:
                        st.target = st.body[0].targets[0]
                        st.body = st.body[1:]
                        out.extend(block([st]))
                        changed = True
                        rep.shapes += 1
                        continue
                # for x in (E for y in S if C): B   ->   for y in S: if C: x = E; B
                if isinstance(st, ast.For) and not st.orelse and isinstance(st.iter, ast.GeneratorExp) and \
                        len(st.iter.generators) == 1 and not st.iter.generators[0].is_async and \
                        (isinstance(st.target, ast.Name) or (isinstance(st.target, ast.Tuple) and all(
                            isinstance(e_, ast.Name) for e_ in st.target.elts))) \
                        and isinstance(st.iter.generators[0].target, (ast.Name, ast.Tuple)):
                    g3 = st.iter.generators[0]
                    ynames = {n_.id for n_ in ast.walk(g3.target) if isinstance(n_, ast.Name)}
                    others = {n_.id for n_ in ast.walk(fn) if isinstance(n_, ast.Name)
                              and not _contains(st.iter, n_)} | {a_.arg for a_ in ast.walk(fn) if isinstance(a_, ast.arg)}
                    inner_scopes = any(isinstance(n_, ScopeT + CompT) for n_ in ast.walk(st.iter.elt)) or any(
                        isinstance(n_, ScopeT + CompT) for c_ in g3.ifs for n_ in ast.walk(c_))
                    if (ynames & others) and not inner_scopes and all(
                            isinstance(n_, ast.Name) for n_ in ast.walk(g3.target) if not isinstance(n_, (ast.Tuple, ast.expr_context))):
                        # the expression's own variables are renamed apart from the function's names
                        every = others | ynames
                        ren: Dict[str, ast.expr] = {}
                        for y_ in sorted(ynames & others):
                            k_ = 1
                            while "%s_g%d" % (y_, k_) in every:
                                k_ += 1
                            every.add("%s_g%d" % (y_, k_))
                            ren[y_] = ast.Name(id="%s_g%d" % (y_, k_), ctx=ast.Load())
                        st.iter.elt = _Subst(ren).visit(st.iter.elt)
                        g3.ifs = [_Subst(ren).visit(c_) for c_ in g3.ifs]
                        for n_ in ast.walk(g3.target):
                            if isinstance(n_, ast.Name) and n_.id in ren:
                                n_.id = ren[n_.id].id     # type: ignore[attr-defined]
                        ynames = {n_.id for n_ in ast.walk(g3.target) if isinstance(n_, ast.Name)}
                    if not (ynames & others) and not inner_scopes:
                        bind = ast.copy_location(ast.Assign(targets=[st.target], value=st.iter.elt), st)
                        body3: List[ast.stmt] = [bind] + list(st.body)
                        for cond in reversed(g3.ifs):
                            body3 = [ast.copy_location(ast.If(test=cond, body=body3, orelse=[]), st)]
                        new_for = ast.copy_location(ast.For(target=g3.target, iter=g3.iter, body=body3, orelse=[]), st)
                        out.extend(block([new_for]))
                        changed = True
                        rep.shapes += 1
                        continue
                if isinstance(st, ast.For) and not st.orelse and len(st.body) == 1 and isinstance(st.body[0], ast.Expr):
                    v = st.body[0].value
                    # for t in it: yield t
                    if isinstance(v, ast.Yield) and isinstance(v.value, ast.Name) and isinstance(st.target, ast.Name) \
                            and v.value.id == st.target.id:
                        out.append(ast.copy_location(ast.Expr(value=ast.copy_location(
                            ast.YieldFrom(value=st.iter), st)), st))
                        changed = True
                        rep.shapes += 1
                        continue
                    # for t in it: x.append(e)
                    if isinstance(v, ast.Call) and isinstance(v.func, ast.Attribute) and v.func.attr == "append" \
                            and len(v.args) == 1 and not v.keywords and not isinstance(v.args[0], ast.Starred):
                        tnames = {n.id for n in ast.walk(st.target) if isinstance(n, ast.Name)}
                        recv = v.func.value
                        p = recv
                        while isinstance(p, ast.Attribute):
                            p = p.value
                        if isinstance(p, ast.Name) and p.id not in tnames and not any(
                                isinstance(n, (ast.Yield, ast.YieldFrom, ast.Await)) for n in ast.walk(v.args[0])):
                            gen = ast.GeneratorExp(elt=v.args[0], generators=[ast.comprehension(
                                target=st.target, iter=st.iter, ifs=[], is_async=0)])
                            call = ast.Call(func=ast.Attribute(value=recv, attr="extend", ctx=ast.Load()),
                                            args=[gen], keywords=[])
                            new_st = ast.Expr(value=call)
                            for n in ast.walk(new_st):
                                if not hasattr(n, "lineno"):
                                    ast.copy_location(n, st)
                            ast.copy_location(new_st, st)
                            out.append(new_st)
                            changed = True
                            rep.shapes += 1
                            continue
                # if c: pass / else: S   ->   if not c: S
                if isinstance(st, ast.If) and st.orelse and all(isinstance(x, ast.Pass) for x in st.body):
                    t_ = st.test
                    if isinstance(t_, ast.Compare) and len(t_.ops) == 1 and type(t_.ops[0]) in _NEGATE:
                        neg: ast.expr = ast.Compare(left=t_.left, ops=[_NEGATE[type(t_.ops[0])]()], comparators=t_.comparators)
                    elif isinstance(t_, ast.UnaryOp) and isinstance(t_.op, ast.Not):
                        neg = t_.operand
                    else:
                        neg = ast.UnaryOp(op=ast.Not(), operand=t_)
                    st.test = ast.copy_location(neg, t_)
                    st.body, st.orelse = st.orelse, []
                    out.extend(block([st]))
                    changed = True
                    rep.shapes += 1
                    continue
                # S[ {k1: v1, k2: v2}[key] ]   ->   if key == k1: S[v1] elif key == k2: S[v2] else: raise KeyError(key)
                if isinstance(st, (ast.Expr, ast.Assign, ast.Return)) and st.value is not None:
                    tabs = [n_ for n_ in ast.walk(st.value) if isinstance(n_, ast.Subscript) and isinstance(n_.value, ast.Dict)
                            and isinstance(n_.ctx, ast.Load) and n_.value.keys and all(k_ is not None for k_ in n_.value.keys)]
                    if len(tabs) == 1 and len(tabs[0].value.keys) <= 6 and Normaliser._atomic(tabs[0].slice) \
                            and id(tabs[0]) in _once_positions(st.value):
                        tab = tabs[0]
                        first_effect = [n_ for n_ in ast.walk(st.value) if isinstance(n_, ast.Call) and _before(n_, tab)
                                        and not _contains(n_, tab)]
                        if not first_effect:
                            chain: List[ast.stmt] = [ast.copy_location(ast.Raise(exc=ast.Call(
                                func=ast.Name(id="KeyError", ctx=ast.Load()), args=[copy.deepcopy(tab.slice)], keywords=[]),
                                cause=None), st)]
                            for k_, v_ in reversed(list(zip(tab.value.keys, tab.value.values))):
                                class RT(ast.NodeTransformer):
                                    def visit_Subscript(self, nd: ast.Subscript) -> ast.AST:
                                        if isinstance(nd.value, ast.Dict) and ast.dump(nd) == dumped:
                                            return copy.deepcopy(v_)
                                        return self.generic_visit(nd)
                                dumped = ast.dump(tab)
                                one = RT().visit(copy.deepcopy(st))
                                test = ast.Compare(left=copy.deepcopy(tab.slice), ops=[ast.Eq()], comparators=[copy.deepcopy(k_)])
                                chain = [ast.copy_location(ast.If(test=test, body=[one], orelse=chain), st)]
                            for n_ in ast.walk(chain[0]):
                                if isinstance(n_, (ast.expr, ast.stmt)) and not hasattr(n_, "lineno"):
                                    ast.copy_location(n_, st)
                            out.extend(block(chain))
                            changed = True
                            rep.shapes += 1
                            continue
                # if n == 0: return v      followed by nothing but loops over range(n) and ``return v``:
                # with n == 0 those loops do not run, the shortcut says nothing new
                if isinstance(st, ast.If) and not st.orelse and len(st.body) == 1 and isinstance(st.body[0], ast.Return) \
                        and isinstance(st.body[0].value, ast.Name) and k_idx + 1 < len(stmts):
                    t0 = st.test
                    n0 = None
                    if isinstance(t0, ast.Compare) and len(t0.ops) == 1 and isinstance(t0.ops[0], ast.Eq) \
                            and isinstance(t0.left, ast.Name) and isinstance(t0.comparators[0], ast.Constant) \
                            and t0.comparators[0].value == 0 and type(t0.comparators[0].value) is int:
                        n0 = t0.left.id
                    elif isinstance(t0, ast.UnaryOp) and isinstance(t0.op, ast.Not) and isinstance(t0.operand, ast.Name):
                        n0 = t0.operand.id
                    rest0 = stmts[k_idx + 1:]
                    v0 = st.body[0].value.id

                    def over_range(e0: ast.AST) -> bool:
                        return isinstance(e0, ast.Call) and isinstance(e0.func, ast.Name) and e0.func.id == "range" \
                            and len(e0.args) == 1 and isinstance(e0.args[0], ast.Name) and e0.args[0].id == n0 \
                            and "range" not in stores

                    def zero_trip(s0: ast.stmt) -> bool:
                        if isinstance(s0, ast.For) and not s0.orelse and over_range(s0.iter):
                            return True
                        if isinstance(s0, ast.Expr) and isinstance(s0.value, ast.Call) and isinstance(s0.value.func, ast.Attribute) \
                                and s0.value.func.attr in ("extend", "update") and isinstance(s0.value.func.value, ast.Name) \
                                and len(s0.value.args) == 1 and not s0.value.keywords \
                                and isinstance(s0.value.args[0], (ast.GeneratorExp, ast.ListComp)) \
                                and len(s0.value.args[0].generators) == 1 and over_range(s0.value.args[0].generators[0].iter):
                            return True
                        return False
                    if n0 is not None and rest0 and isinstance(rest0[-1], ast.Return) and isinstance(rest0[-1].value, ast.Name) \
                            and rest0[-1].value.id == v0 and rest0[:-1] and all(zero_trip(s0) for s0 in rest0[:-1]) \
                            and stores.get(n0, 0) == 1 and stores.get(v0, 0) == 1:
                        changed = True
                        rep.shapes += 1
                        continue
                # i = 0; while i < len(X): e = X[i]; i += 1; BODY   ->   for e in X: BODY
                # (what a list iterator does: the length is looked up again before every step)
                if isinstance(st, ast.While) and not st.orelse and out and isinstance(out[-1], ast.Assign) \
                        and len(out[-1].targets) == 1 and isinstance(out[-1].targets[0], ast.Name) \
                        and isinstance(out[-1].value, ast.Constant) and out[-1].value.value == 0 \
                        and type(out[-1].value.value) is int \
                        and isinstance(st.test, ast.Compare) and len(st.test.ops) == 1 and isinstance(st.test.ops[0], ast.Lt) \
                        and isinstance(st.test.left, ast.Name) and st.test.left.id == out[-1].targets[0].id \
                        and isinstance(st.test.comparators[0], ast.Call) and isinstance(st.test.comparators[0].func, ast.Name) \
                        and st.test.comparators[0].func.id == "len" and len(st.test.comparators[0].args) == 1 \
                        and attr_path_(st.test.comparators[0].args[0]) and len(st.body) >= 2:
                    iv_ = out[-1].targets[0].id
                    seq_ = st.test.comparators[0].args[0]
                    b0, b1 = st.body[0], st.body[1]
                    get_ok = isinstance(b0, ast.Assign) and len(b0.targets) == 1 and isinstance(b0.targets[0], ast.Name) \
                        and isinstance(b0.value, ast.Subscript) and ast.dump(b0.value.value) == ast.dump(seq_) \
                        and isinstance(b0.value.slice, ast.Name) and b0.value.slice.id == iv_
                    inc_ok = isinstance(b1, ast.AugAssign) and isinstance(b1.op, ast.Add) and isinstance(b1.target, ast.Name) \
                        and b1.target.id == iv_ and isinstance(b1.value, ast.Constant) and b1.value.value == 1
                    uses_i = [n_ for n_ in ast.walk(fn) if isinstance(n_, ast.Name) and n_.id == iv_]
                    # the counter: its initialisation, the test, the subscript, the increment
                    root_ = attr_path_(seq_)[0]
                    rebinds_seq = any(isinstance(n_, ast.Name) and n_.id == root_ and not isinstance(n_.ctx, ast.Load)
                                      for b_ in st.body for n_ in ast.walk(b_))
                    if get_ok and inc_ok and len(uses_i) == 4 and not rebinds_seq and not any(
                            isinstance(n_, ast.Continue) for b_ in st.body for n_ in ast.walk(b_)):
                        out.pop()
                        new_for = ast.copy_location(ast.For(target=b0.targets[0], iter=seq_, body=st.body[2:] or [
                            ast.copy_location(ast.Pass(), st)], orelse=[]), st)
                        ast.fix_missing_locations(new_for)
                        out.extend(block([new_for]))
                        changed = True
                        rep.shapes += 1
                        continue
                # for e in X: ... e[0] ... e[1] ...   (e used through constant positions 0..k-1 only, all
                # of them)  ->  for e_0, e_1 in X   (the elements are k-tuples: the positions are all
                # the code looks at)
                if isinstance(st, ast.For) and isinstance(st.target, ast.Name) and st.target.id not in params_all:
                    e_ = st.target.id
                    all_uses = [n_ for n_ in ast.walk(fn) if isinstance(n_, ast.Name) and n_.id == e_ and n_ is not st.target]
                    subs_ = [n_ for b_ in st.body for n_ in ast.walk(b_) if isinstance(n_, ast.Subscript)
                             and isinstance(n_.value, ast.Name) and n_.value.id == e_ and isinstance(n_.ctx, ast.Load)
                             and isinstance(n_.slice, ast.Constant) and type(n_.slice.value) is int and n_.slice.value >= 0]
                    ks_ = sorted({n_.slice.value for n_ in subs_})
                    if subs_ and len(subs_) == len(all_uses) and ks_ == list(range(len(ks_))) and 2 <= len(ks_) <= 4 \
                            and not any(isinstance(n_, ScopeT + CompT) and any(
                                isinstance(m_, ast.Name) and m_.id == e_ for m_ in ast.walk(n_)) for b_ in st.body for n_ in ast.walk(b_)):
                        taken_ = {n_.id for n_ in ast.walk(fn) if isinstance(n_, ast.Name)} | {
                            a_.arg for a_ in ast.walk(fn.args) if isinstance(a_, ast.arg)}
                        names_ = []
                        for k_ in ks_:
                            nm_ = "%s_%d" % (e_, k_)
                            while nm_ in taken_:
                                nm_ += "_"
                            taken_.add(nm_)
                            names_.append(nm_)

                        class SubToName(ast.NodeTransformer):
                            def visit_Subscript(self, nd: ast.Subscript) -> ast.AST:
                                if any(nd is x_ for x_ in subs_):
                                    return ast.copy_location(ast.Name(id=names_[nd.slice.value], ctx=ast.Load()), nd)  # type: ignore[attr-defined]
                                self.generic_visit(nd)
                                return nd
                        st.body = [SubToName().visit(b_) for b_ in st.body]
                        st.target = ast.copy_location(ast.Tuple(elts=[ast.copy_location(ast.Name(id=n_, ctx=ast.Store()), st.target)
                                                                       for n_ in names_], ctx=ast.Store()), st.target)
                        ast.fix_missing_locations(st)
                        out.extend(block([st]))
                        changed = True
                        rep.shapes += 1
                        continue
                # setattr(x, "name", v)  ->  x.name = v     (a constant identifier that is not a dunder)
                if isinstance(st, ast.Expr) and isinstance(st.value, ast.Call) and isinstance(st.value.func, ast.Name) \
                        and st.value.func.id == "setattr" and len(st.value.args) == 3 and not st.value.keywords \
                        and isinstance(st.value.args[1], ast.Constant) and isinstance(st.value.args[1].value, str) \
                        and st.value.args[1].value.isidentifier() and not st.value.args[1].value.startswith("__") \
                        and not any(isinstance(a_, ast.Starred) for a_ in st.value.args) \
                        and "setattr" not in stores:
                    tgt_ = ast.Attribute(value=st.value.args[0], attr=st.value.args[1].value, ctx=ast.Store())
                    out.append(ast.copy_location(ast.Assign(targets=[ast.copy_location(tgt_, st)],
                                                            value=st.value.args[2]), st))
                    ast.fix_missing_locations(out[-1])
                    changed = True
                    rep.shapes += 1
                    continue
                # for T in (<literal>, ...): S   -> S once per element; with the body a single
                # ``if c: ...; break`` (and an optional else) -> an if/elif chain
                if isinstance(st, ast.For) and isinstance(st.iter, (ast.Tuple, ast.List)) and not st.iter.elts:
                    out.extend(block(list(st.orelse)))          # a loop over nothing
                    changed = True
                    rep.shapes += 1
                    continue
                if isinstance(st, ast.For) and isinstance(st.iter, (ast.Tuple, ast.List)) and 0 < len(st.iter.elts) <= 6:
                    tnames = [n_.id for n_ in ast.walk(st.target) if isinstance(n_, ast.Name)]
                    flat = isinstance(st.target, ast.Name)
                    shape_ok = flat or (isinstance(st.target, ast.Tuple) and all(isinstance(e_, ast.Name) for e_ in st.target.elts)
                                        and all(isinstance(e_, ast.Tuple) and len(e_.elts) == len(st.target.elts)
                                                for e_ in st.iter.elts))
                    params_ = {a_.arg for a_ in ast.walk(fn.args) if isinstance(a_, ast.arg)}

                    def lit(e_: ast.AST) -> bool:
                        if isinstance(e_, ast.Constant):
                            return True
                        if isinstance(e_, ast.Tuple):
                            return all(lit(x_) for x_ in e_.elts)
                        if isinstance(e_, ast.Call) and isinstance(e_.func, ast.Name) and not e_.keywords and \
                                self._record_class(getattr(fn, "_mod", ""), e_.func.id) is not None:
                            return all(lit(x_) for x_ in e_.args)
                        p__ = attr_path_(e_)
                        if p__ and len(p__) == 1:
                            # a bare name the loop itself never rebinds has one value throughout
                            return p__[0] not in loop_stores
                        return bool(p__) and p__[0] not in stores and p__[0] not in params_ and p__[0] not in ("self", "cls")
                    loop_stores = {n_.id for b_ in st.body + st.orelse for n_ in ast.walk(b_)
                                   if isinstance(n_, ast.Name) and not isinstance(n_.ctx, ast.Load)} | {
                        n_.name for b_ in st.body + st.orelse for n_ in ast.walk(b_) if isinstance(n_, ast.FunctionDef)}
                    outside = [n_ for n_ in ast.walk(fn) if isinstance(n_, ast.Name) and n_.id in tnames
                               and not _contains(st, n_)]
                    inner_stores = [n_ for b_ in st.body + st.orelse for n_ in ast.walk(b_)
                                    if isinstance(n_, ast.Name) and n_.id in tnames and not isinstance(n_.ctx, ast.Load)]
                    jumps = [n_ for b_ in st.body for n_ in ast.walk(b_) if isinstance(n_, (ast.Break, ast.Continue))]
                    nested_loops = any(isinstance(n_, (ast.For, ast.While)) for b_ in st.body for n_ in ast.walk(b_))
                    break_form = len(st.body) == 1 and isinstance(st.body[0], ast.If) and not st.body[0].orelse and \
                        bool(st.body[0].body) and isinstance(st.body[0].body[-1], ast.Break) and len(jumps) == 1
                    if shape_ok and tnames and all(lit(e_) for e_ in st.iter.elts) and outside and not inner_stores \
                            and len(set(tnames)) == len(tnames) and all(stores.get(t_) == 1 for t_ in tnames) \
                            and not nested_loops and break_form and st.orelse and self._always_exits(st.orelse) \
                            and all(_after(o_, st) for o_ in outside):
                        # the targets are used after the loop, which is only left by ``break``: each
                        # branch of the chain binds them to its element (threaded into what follows)
                        tail2: List[ast.stmt] = list(st.orelse)
                        for e_ in reversed(st.iter.elts):
                            one = copy.deepcopy(st.body[0])
                            vals = [e_] if flat else list(e_.elts)  # type: ignore[attr-defined]
                            one.body = one.body[:-1] + [ast.copy_location(ast.Assign(
                                targets=[ast.copy_location(ast.Name(id=t_, ctx=ast.Store()), st)], value=copy.deepcopy(v_)), st)
                                for t_, v_ in zip(tnames, vals)]
                            mp2 = {t_: v_ for t_, v_ in zip(tnames, vals)}
                            one.test = _Subst(mp2).visit(one.test)
                            one.body = [b_ if isinstance(b_, ast.Assign) and b_ in one.body[-len(tnames):] else
                                        _Subst(mp2).visit(b_) for b_ in one.body]
                            one.orelse = tail2
                            tail2 = [one]
                        out.extend(block(tail2))
                        changed = True
                        rep.shapes += 1
                        continue
                    if shape_ok and tnames and all(lit(e_) for e_ in st.iter.elts) and not outside and not inner_stores \
                            and len(set(tnames)) == len(tnames) and all(stores.get(t_) == 1 for t_ in tnames) and not nested_loops:
                        def inst(body_: List[ast.stmt], e_: ast.expr) -> List[ast.stmt]:
                            mp_ = {tnames[0]: e_} if flat else {t_: x_ for t_, x_ in zip(tnames, e_.elts)}  # type: ignore[attr-defined]
                            return [_Subst(mp_).visit(copy.deepcopy(b_)) for b_ in body_]
                        done = False
                        if not jumps:
                            seq: List[ast.stmt] = []
                            for e_ in st.iter.elts:
                                seq.extend(inst(st.body, e_))
                            seq.extend(st.orelse)
                            out.extend(block(seq))
                            done = True
                        elif len(st.body) == 1 and isinstance(st.body[0], ast.If) and not st.body[0].orelse and \
                                st.body[0].body and isinstance(st.body[0].body[-1], ast.Break) and len(jumps) == 1:
                            tail: List[ast.stmt] = list(st.orelse)
                            for e_ in reversed(st.iter.elts):
                                one = inst([st.body[0]], e_)[0]
                                assert isinstance(one, ast.If)
                                one.body = one.body[:-1] or [ast.copy_location(ast.Pass(), st)]
                                one.orelse = tail
                                tail = [one]
                            out.extend(block(tail))
                            done = True
                        if done:
                            changed = True
                            rep.shapes += 1
                            continue
                # for _ in range(K): S  with a small literal K and S not using the counter
                if isinstance(st, ast.For) and not st.orelse and isinstance(st.target, ast.Name) and \
                        isinstance(st.iter, ast.Call) and isinstance(st.iter.func, ast.Name) and st.iter.func.id == "range" \
                        and len(st.iter.args) == 1 and isinstance(st.iter.args[0], ast.Constant) \
                        and isinstance(st.iter.args[0].value, int) and 0 < st.iter.args[0].value <= 4 \
                        and not any(isinstance(n_, (ast.Break, ast.Continue)) for n_ in ast.walk(st)) \
                        and not any(isinstance(n_, ast.Name) and n_.id == st.target.id for b_ in st.body for n_ in ast.walk(b_)) \
                        and not any(isinstance(n_, ast.Name) and n_.id == st.target.id and isinstance(n_.ctx, ast.Load)
                                    for n_ in ast.walk(fn)):
                    for _k in range(st.iter.args[0].value):
                        out.extend(block(copy.deepcopy(st.body)))
                    changed = True
                    rep.shapes += 1
                    continue
                # for x in chain.from_iterable(e for t in it): S   ->   for t in it: for x in e: S
                if isinstance(st, ast.For) and not st.orelse and isinstance(st.iter, ast.Call) and \
                        attr_path_(st.iter.func) in (("itertools", "chain", "from_iterable"), ("chain", "from_iterable")) \
                        and len(st.iter.args) == 1 and not st.iter.keywords and \
                        isinstance(st.iter.args[0], (ast.GeneratorExp, ast.ListComp)) and \
                        len(st.iter.args[0].generators) == 1 and not st.iter.args[0].generators[0].is_async \
                        and not any(isinstance(n_, ast.Break) for n_ in ast.walk(st)):
                    g_ = st.iter.args[0].generators[0]
                    inner: List[ast.stmt] = [ast.copy_location(ast.For(target=st.target, iter=st.iter.args[0].elt,
                                                                       body=st.body, orelse=[]), st)]
                    for cond in reversed(g_.ifs):
                        inner = [ast.copy_location(ast.If(test=cond, body=inner, orelse=[]), st)]
                    outer = ast.copy_location(ast.For(target=g_.target, iter=g_.iter, body=inner, orelse=[]), st)
                    out.extend(block([outer]))
                    changed = True
                    rep.shapes += 1
                    continue
                # for x in itertools.chain(a, b, c): S   ->   one loop per iterable
                if isinstance(st, ast.For) and not st.orelse and isinstance(st.iter, ast.Call) and \
                        (attr_path_(st.iter.func) in (("itertools", "chain"), ("chain",))) and len(st.iter.args) >= 2 \
                        and not st.iter.keywords and not any(isinstance(a_, ast.Starred) for a_ in st.iter.args) \
                        and not any(isinstance(n_, ast.Break) for n_ in ast.walk(st)) \
                        and all(_purity(a_, set()) < 2 for a_ in st.iter.args):
                    loops: List[ast.stmt] = []
                    for a_ in st.iter.args:
                        loops.append(ast.copy_location(ast.For(target=copy.deepcopy(st.target), iter=a_,
                                                               body=copy.deepcopy(st.body), orelse=[]), st))
                    out.extend(block(loops))
                    changed = True
                    rep.shapes += 1
                    continue
                # a = b = e   ->   a = e ; b = a      (a a plain name)
                if isinstance(st, ast.Assign) and len(st.targets) > 1:
                    names = [t for t in st.targets if isinstance(t, ast.Name)]
                    if names:
                        first = names[0]
                        out.append(ast.copy_location(ast.Assign(targets=[first], value=st.value), st))
                        for t in st.targets:
                            if t is not first:
                                out.append(ast.copy_location(ast.Assign(
                                    targets=[t], value=ast.copy_location(ast.Name(id=first.id, ctx=ast.Load()), st)), st))
                        changed = True
                        rep.shapes += 1
                        continue
                # if (n := e) ...:   ->   n = e ; if n ...:
                hdrs = _headers(st)
                if hdrs and not isinstance(st, (ast.While,)):
                    walrus = [n_ for h_ in hdrs for n_ in ast.walk(h_) if isinstance(n_, ast.NamedExpr)]
                    if walrus:
                        w = min(walrus, key=_pos)
                        once: Set[int] = set()
                        for h_ in hdrs:
                            once |= _once_positions(h_)
                        early = [n_ for h_ in hdrs for n_ in ast.walk(h_)
                                 if isinstance(n_, (ast.Call, ast.NamedExpr)) and n_ is not w and _before(n_, w)
                                 and not _contains(n_, w) and not _contains(w, n_)
                                 and not (isinstance(n_, ast.Call) and isinstance(n_.func, ast.Name) and n_.func.id in PURE_CALLS)]
                        reads_before = [n_ for h_ in hdrs for n_ in ast.walk(h_) if isinstance(n_, ast.Name)
                                        and n_.id == w.target.id and _before(n_, w) and n_ is not w.target]
                        if id(w) in once and not early and not reads_before:
                            pre = ast.copy_location(ast.Assign(targets=[ast.copy_location(
                                ast.Name(id=w.target.id, ctx=ast.Store()), w)], value=w.value), st)

                            class W(ast.NodeTransformer):
                                def visit_NamedExpr(self, node: ast.NamedExpr) -> ast.AST:
                                    if node is w:
                                        return ast.copy_location(ast.Name(id=w.target.id, ctx=ast.Load()), node)
                                    return self.generic_visit(node)
                            if isinstance(st, (ast.If, ast.For, ast.With)):
                                for fld in ("test", "iter"):
                                    if hasattr(st, fld):
                                        setattr(st, fld, W().visit(getattr(st, fld)))
                                if isinstance(st, ast.With):
                                    st.items[0].context_expr = W().visit(st.items[0].context_expr)
                                new_st: ast.stmt = st
                            else:
                                new_st = W().visit(st)
                            out.append(pre)
                            out.extend(block([new_st]))
                            changed = True
                            rep.shapes += 1
                            continue
                # a, b = (x, y) if c else (u, v)   ->   if c: a, b = x, y  else: a, b = u, v
                if isinstance(st, ast.Assign) and len(st.targets) == 1 and isinstance(st.targets[0], ast.Tuple) \
                        and isinstance(st.value, ast.IfExp) and isinstance(st.value.body, ast.Tuple) \
                        and isinstance(st.value.orelse, ast.Tuple) \
                        and len(st.value.body.elts) == len(st.value.orelse.elts) == len(st.targets[0].elts):
                    mk2 = lambda v_: ast.copy_location(ast.Assign(  # noqa: E731
                        targets=[copy.deepcopy(st.targets[0])], value=v_), st)
                    new_if = ast.copy_location(ast.If(test=st.value.test, body=[mk2(st.value.body)],
                                                      orelse=[mk2(st.value.orelse)]), st)
                    out.extend(block([new_if]))
                    changed = True
                    rep.shapes += 1
                    continue
                # it = iter(X); while True: try: v = next(it) / except StopIteration: break / else: BODY  ->  for v in X: BODY
                if isinstance(st, ast.Assign) and len(st.targets) == 1 and isinstance(st.targets[0], ast.Name) \
                        and isinstance(st.value, ast.Call) and isinstance(st.value.func, ast.Name) and st.value.func.id == "iter" \
                        and len(st.value.args) == 1 and not st.value.keywords and st in stmts:
                    it_ = st.targets[0].id
                    k_ = stmts.index(st)
                    nxt_ = stmts[k_ + 1] if k_ + 1 < len(stmts) else None
                    uses_ = [n_ for n_ in ast.walk(fn) if isinstance(n_, ast.Name) and n_.id == it_ and isinstance(n_.ctx, ast.Load)]
                    if isinstance(nxt_, ast.While) and isinstance(nxt_.test, ast.Constant) and nxt_.test.value is True \
                            and not nxt_.orelse and nxt_.body and isinstance(nxt_.body[0], ast.Try) and len(uses_) == 1 \
                            and stores.get(it_) == 1:
                        tr_ = nxt_.body[0]
                        okp = (len(tr_.body) == 1 and isinstance(tr_.body[0], ast.Assign) and len(tr_.body[0].targets) == 1
                               and isinstance(tr_.body[0].value, ast.Call) and isinstance(tr_.body[0].value.func, ast.Name)
                               and tr_.body[0].value.func.id == "next" and len(tr_.body[0].value.args) == 1
                               and isinstance(tr_.body[0].value.args[0], ast.Name) and tr_.body[0].value.args[0].id == it_
                               and len(tr_.handlers) == 1 and tr_.handlers[0].type is not None
                               and (attr_path_(tr_.handlers[0].type) or ("",))[-1] == "StopIteration"
                               and len(tr_.handlers[0].body) == 1 and isinstance(tr_.handlers[0].body[0], ast.Break)
                               and not tr_.finalbody)
                        rest_ = list(tr_.orelse) + list(nxt_.body[1:]) if okp else []
                        # a break / continue of the body keeps its meaning (same loop level)
                        if okp and rest_:
                            new_for = ast.copy_location(ast.For(target=tr_.body[0].targets[0], iter=st.value.args[0],
                                                                body=rest_, orelse=[]), nxt_)
                            stmts[k_ + 1] = new_for
                            changed = True
                            rep.shapes += 1
                            continue
                # xs = [] ; (only) xs.append(e) at this block level ... ; one use f(*xs) later in the block
                if isinstance(st, ast.Assign) and len(st.targets) == 1 and isinstance(st.targets[0], ast.Name) \
                        and isinstance(st.value, ast.List) and not st.value.elts and stores.get(st.targets[0].id) == 1:
                    xs = st.targets[0].id
                    here = stmts[stmts.index(st) + 1:] if st in stmts else []
                    apps = [s_ for s_ in here if isinstance(s_, ast.Expr) and isinstance(s_.value, ast.Call)
                            and isinstance(s_.value.func, ast.Attribute) and s_.value.func.attr == "append"
                            and isinstance(s_.value.func.value, ast.Name) and s_.value.func.value.id == xs
                            and len(s_.value.args) == 1 and not s_.value.keywords]
                    loads_ = [n_ for n_ in ast.walk(fn) if isinstance(n_, ast.Name) and n_.id == xs and isinstance(n_.ctx, ast.Load)]
                    stars = [(c_, a_) for s_ in here for c_ in ast.walk(s_) if isinstance(c_, ast.Call) for a_ in c_.args
                             if isinstance(a_, ast.Starred) and isinstance(a_.value, ast.Name) and a_.value.id == xs]
                    if apps and len(stars) == 1 and len(loads_) == len(apps) + 1 and len(apps) <= 6:
                        taken_ = getattr(fn, "_taken", None)
                        if taken_ is None:
                            taken_ = _all_names(fn)
                            fn._taken = taken_  # type: ignore[attr-defined]
                        names_ = []
                        for i_, ap_ in enumerate(apps):
                            nm_ = "%s_%d" % (xs, i_)
                            while nm_ in taken_:
                                nm_ += "_"
                            taken_.add(nm_)
                            names_.append(nm_)
                            new_ = ast.copy_location(ast.Assign(targets=[ast.copy_location(ast.Name(id=nm_, ctx=ast.Store()), ap_)],
                                                                value=ap_.value.args[0]), ap_)
                            stmts[stmts.index(ap_)] = new_
                        c_, a_ = stars[0]
                        i_ = c_.args.index(a_)
                        c_.args[i_:i_ + 1] = [ast.copy_location(ast.Name(id=nm_, ctx=ast.Load()), a_) for nm_ in names_]
                        changed = True
                        rep.shapes += 1
                        continue
                # x = <quiet expression>  with x never read: nothing
                if isinstance(st, ast.Assign) and len(st.targets) == 1 and isinstance(st.targets[0], ast.Name) \
                        and _quiet(st.value) and _purity(st.value, set()) < 2 and len(stmts) > 1 \
                        and not any(isinstance(n_, ast.Name) and n_.id == st.targets[0].id and isinstance(n_.ctx, ast.Load)
                                    for n_ in ast.walk(fn)) \
                        and not any(isinstance(n_, (ast.Global, ast.Nonlocal)) for n_ in ast.walk(fn)) \
                        and not any(isinstance(n_, ast.Call) and isinstance(n_.func, ast.Name) and n_.func.id in ("locals", "vars", "eval", "exec")
                                    for n_ in ast.walk(fn)):
                    changed = True
                    rep.shapes += 1
                    continue
                # a, b = [f(t) for t in (x, y)]   ->   a, b = [f(x), f(y)]   (a display of known length)
                if isinstance(st, ast.Assign) and len(st.targets) == 1 and isinstance(st.targets[0], ast.Tuple) \
                        and isinstance(st.value, (ast.ListComp, ast.GeneratorExp)) and len(st.value.generators) == 1 \
                        and not st.value.generators[0].ifs and not st.value.generators[0].is_async \
                        and isinstance(st.value.generators[0].target, ast.Name) \
                        and isinstance(st.value.generators[0].iter, (ast.Tuple, ast.List)) \
                        and len(st.value.generators[0].iter.elts) == len(st.targets[0].elts) \
                        and all(isinstance(e_, (ast.Name, ast.Constant)) for e_ in st.value.generators[0].iter.elts) \
                        and not any(isinstance(n_, ScopeT + CompT) for n_ in ast.walk(st.value.elt)):
                    g_ = st.value.generators[0]
                    elts_ = [_Subst({g_.target.id: e_}).visit(copy.deepcopy(st.value.elt)) for e_ in g_.iter.elts]
                    st.value = ast.copy_location(ast.Tuple(elts=elts_, ctx=ast.Load()), st.value)
                    ast.fix_missing_locations(st)
                    out.extend(block([st]))
                    changed = True
                    rep.shapes += 1
                    continue
                # a, b = x, y     (also from a list display)
                if isinstance(st, ast.Assign) and len(st.targets) == 1 and isinstance(st.targets[0], ast.Tuple) \
                        and isinstance(st.value, ast.List) and len(st.value.elts) == len(st.targets[0].elts):
                    st.value = ast.copy_location(ast.Tuple(elts=st.value.elts, ctx=ast.Load()), st.value)
                if isinstance(st, ast.Assign) and len(st.targets) == 1 and isinstance(st.targets[0], ast.Tuple) \
                        and isinstance(st.value, ast.Tuple) and len(st.value.elts) == len(st.targets[0].elts) \
                        and all(isinstance(t, ast.Name) for t in st.targets[0].elts) \
                        and not any(isinstance(e, ast.Starred) for e in st.value.elts):
                    tn = {t.id for t in st.targets[0].elts}  # type: ignore[attr-defined]
                    used = {n.id for e in st.value.elts for n in ast.walk(e) if isinstance(n, ast.Name)}
                    if not (tn & used) and len(tn) == len(st.targets[0].elts):
                        for t, e in zip(st.targets[0].elts, st.value.elts):
                            out.append(ast.copy_location(ast.Assign(targets=[t], value=e), st))
                        changed = True
                        rep.shapes += 1
                        continue
                out.append(st)
            return out

        fn.body = block(fn.body)

        # expression-level
        lambdas: Dict[str, ast.Lambda] = {}
        for n in _walk_scope(fn):
            if isinstance(n, ast.Assign) and len(n.targets) == 1 and isinstance(n.targets[0], ast.Name) \
                    and isinstance(n.value, ast.Lambda) and stores.get(n.targets[0].id) == 1:
                lambdas[n.targets[0].id] = n.value
        # a local bound once to a lambda and only ever called
        for nm in list(lambdas):
            uses = [n for n in ast.walk(fn) if isinstance(n, ast.Name) and n.id == nm and isinstance(n.ctx, ast.Load)]
            called = [n for n in ast.walk(fn) if isinstance(n, ast.Call) and isinstance(n.func, ast.Name) and n.func.id == nm]
            if len(uses) != len(called) or not uses:
                del lambdas[nm]

        # a local bound once to functools.partial(F, <stable arguments>) and only ever called:
        # p(x) is F(<those arguments>, x)
        partials: Dict[str, ast.Call] = {}
        for n in _walk_scope(fn):
            if isinstance(n, ast.Assign) and len(n.targets) == 1 and isinstance(n.targets[0], ast.Name) \
                    and isinstance(n.value, ast.Call) and attr_path_(n.value.func) in (("functools", "partial"), ("partial",)) \
                    and stores.get(n.targets[0].id) == 1 and n.value.args and \
                    not any(isinstance(a_, ast.Starred) for a_ in n.value.args) and \
                    all(k_.arg is not None for k_ in n.value.keywords) and \
                    all(Normaliser._atomic(a_) and (isinstance(a_, ast.Constant) or stores.get(attr_path_(a_)[0], 0) == 0)
                        for a_ in list(n.value.args) + [k_.value for k_ in n.value.keywords]):
                nm_ = n.targets[0].id
                uses_ = [x for x in ast.walk(fn) if isinstance(x, ast.Name) and x.id == nm_ and isinstance(x.ctx, ast.Load)]
                called_ = [x for x in ast.walk(fn) if isinstance(x, ast.Call) and isinstance(x.func, ast.Name) and x.func.id == nm_]
                if uses_ and len(uses_) == len(called_):
                    partials[nm_] = n.value
        # a nested function sees the partials of the functions around it (names it does not rebind)
        inherited = getattr(fn, "_inherited_partials", {})
        own_stores = {n.id for n in _walk_scope(fn) if isinstance(n, ast.Name) and not isinstance(n.ctx, ast.Load)} | {
            a_.arg for a_ in ast.walk(fn.args) if isinstance(a_, ast.arg)}
        for nm_, pc_ in inherited.items():
            if nm_ not in own_stores and nm_ not in partials and not any(
                    isinstance(x, ast.Name) and x.id in own_stores for a_ in list(pc_.args) + [k_.value for k_ in pc_.keywords]
                    for x in ast.walk(a_)):
                partials[nm_] = pc_
        for inner in [n for n in ast.walk(fn) if isinstance(n, ast.FunctionDef) and n is not fn]:
            inner._inherited_partials = dict(partials)  # type: ignore[attr-defined]

        # a local bound once to an instance of a private "function object" class of this module
        # (``__init__`` only stores its arguments, ``__call__`` is one expression over them) and
        # only ever called: d(x) is that expression over the constructor's arguments
        fobjs: Dict[str, Tuple[ast.Lambda, Dict[str, ast.expr]]] = {}
        for n in _walk_scope(fn):
            if isinstance(n, ast.Assign) and len(n.targets) == 1 and isinstance(n.targets[0], ast.Name) \
                    and isinstance(n.value, ast.Call) and isinstance(n.value.func, ast.Name) \
                    and stores.get(n.targets[0].id) == 1 and not n.value.keywords \
                    and not any(isinstance(a_, ast.Starred) for a_ in n.value.args):
                rec = self._function_object_class(getattr(fn, "_mod", ""), n.value.func.id)
                if rec is None:
                    continue
                fields, lam_ = rec
                if len(fields) != len(n.value.args) or not all(
                        Normaliser._atomic(a_) and (isinstance(a_, ast.Constant) or stores.get(attr_path_(a_)[0], 0) == 0)
                        for a_ in n.value.args):
                    continue
                nm_ = n.targets[0].id
                uses_ = [x for x in ast.walk(fn) if isinstance(x, ast.Name) and x.id == nm_ and isinstance(x.ctx, ast.Load)]
                called_ = [x for x in ast.walk(fn) if isinstance(x, ast.Call) and isinstance(x.func, ast.Name) and x.func.id == nm_]
                if uses_ and len(uses_) == len(called_):
                    fobjs[nm_] = (lam_, dict(zip(fields, n.value.args)))

        # d = {"k": v, ...} used only as f(**d)  ->  f(k=v, ...);   xs = [] ; xs.append(a) ... ; f(*xs) -> f(a, ...)
        for n in list(_walk_scope(fn)):
            if isinstance(n, ast.Assign) and len(n.targets) == 1 and isinstance(n.targets[0], ast.Name) \
                    and stores.get(n.targets[0].id) == 1 and isinstance(n.value, ast.Dict) and n.value.keys \
                    and all(isinstance(k_, ast.Constant) and isinstance(k_.value, str) and k_.value.isidentifier()
                            for k_ in n.value.keys) \
                    and all(Normaliser._atomic(v_) and (isinstance(v_, ast.Constant) or stores.get(attr_path_(v_)[0], 0) == 0)
                            for v_ in n.value.values):
                nm_ = n.targets[0].id
                loads_ = [x for x in ast.walk(fn) if isinstance(x, ast.Name) and x.id == nm_ and isinstance(x.ctx, ast.Load)]
                kwuses = [(c_, k_) for c_ in ast.walk(fn) if isinstance(c_, ast.Call) for k_ in c_.keywords
                          if k_.arg is None and isinstance(k_.value, ast.Name) and k_.value.id == nm_]
                if len(loads_) == 1 and len(kwuses) == 1:
                    c_, k_ = kwuses[0]
                    idx_ = c_.keywords.index(k_)
                    c_.keywords[idx_:idx_ + 1] = [ast.keyword(arg=kk.value, value=copy.deepcopy(vv))
                                                  for kk, vv in zip(n.value.keys, n.value.values)]
                    for holder_ in ast.walk(fn):
                        for fld_ in ("body", "orelse", "finalbody"):
                            b_ = getattr(holder_, fld_, None)
                            if isinstance(b_, list) and n in b_ and len(b_) > 1:
                                b_.remove(n)
                    ast.fix_missing_locations(c_)
                    changed = True
                    rep.shapes += 1

        def beta(lam: ast.Lambda, call: ast.Call) -> Optional[ast.expr]:
            a = lam.args
            if a.vararg or a.kwarg or a.kwonlyargs or a.defaults or a.posonlyargs or call.keywords \
                    or any(isinstance(x, ast.Starred) for x in call.args) or len(call.args) != len(a.args):
                return None
            body = lam.body
            once = _once_positions(body)
            mp: Dict[str, ast.expr] = {}
            for prm, arg in zip(a.args, call.args):
                sites = [n for n in ast.walk(body) if isinstance(n, ast.Name) and n.id == prm.arg]
                if not (Normaliser._atomic(arg) or _purity(arg, set()) < 2 or
                        (len(sites) == 1 and id(sites[0]) in once)):
                    return None
                mp[prm.arg] = arg
            # free names of the lambda body must mean the same at the call site: they do when the
            # lambda was written in this function (same scope)
            return _Subst(mp).visit(copy.deepcopy(body))

        norm_absimp = getattr(self, "abs_imports", {}).get(getattr(fn, "_mod", ""), {})

        class X(ast.NodeTransformer):
            def visit_FunctionDef(self, node: ast.FunctionDef) -> ast.AST:
                return self.generic_visit(node) if node is fn else node

            def visit_BinOp(self, node: ast.BinOp) -> ast.AST:
                nonlocal changed
                self.generic_visit(node)
                # "abc" + "def"  (what is left of a name built from a literal table)
                if isinstance(node.op, ast.Add) and isinstance(node.left, ast.Constant) and isinstance(node.right, ast.Constant) \
                        and isinstance(node.left.value, str) and isinstance(node.right.value, str):
                    changed = True
                    rep.shapes += 1
                    return ast.copy_location(ast.Constant(value=node.left.value + node.right.value), node)
                return node

            def visit_Compare(self, node: ast.Compare) -> ast.AST:
                nonlocal changed
                self.generic_visit(node)
                # isinstance(x, T) is True / is False   (isinstance returns a bool)
                if len(node.ops) == 1 and isinstance(node.ops[0], (ast.Is, ast.IsNot)) and isinstance(node.left, ast.Call) \
                        and isinstance(node.left.func, ast.Name) and node.left.func.id == "isinstance" \
                        and isinstance(node.comparators[0], ast.Constant) and isinstance(node.comparators[0].value, bool):
                    positive = node.comparators[0].value == isinstance(node.ops[0], ast.Is)
                    changed = True
                    rep.shapes += 1
                    return node.left if positive else ast.copy_location(ast.UnaryOp(op=ast.Not(), operand=node.left), node)
                # x in frozenset((a, b)) / tuple / list of constants  ->  x in {a, b}
                if len(node.ops) == 1 and isinstance(node.ops[0], (ast.In, ast.NotIn)):
                    c = node.comparators[0]
                    if isinstance(c, ast.Call) and isinstance(c.func, ast.Name) and c.func.id in ("frozenset", "set") \
                            and len(c.args) == 1 and not c.keywords and isinstance(c.args[0], (ast.Tuple, ast.List, ast.Set)) \
                            and c.args[0].elts and all(isinstance(x, ast.Constant) for x in c.args[0].elts):
                        node.comparators[0] = ast.copy_location(ast.Set(elts=list(c.args[0].elts)), c)
                        changed = True
                        rep.shapes += 1
                return node

            def visit_Call(self, node: ast.Call) -> ast.AST:
                nonlocal changed
                self.generic_visit(node)
                f = node.func
                # re.findall(re.compile(P), s)  ==  re.findall(P, s)   (and match / search / ...)
                if node.args and isinstance(node.args[0], ast.Call) and not node.args[0].keywords and \
                        len(node.args[0].args) == 1 and isinstance(node.args[0].args[0], ast.Constant):
                    ai = norm_absimp
                    def org(f_: ast.AST) -> Optional[Tuple[str, str]]:
                        if isinstance(f_, ast.Name) and f_.id in ai and ai[f_.id][1]:
                            return ai[f_.id]
                        if isinstance(f_, ast.Attribute) and isinstance(f_.value, ast.Name) and f_.value.id in ai \
                                and not ai[f_.value.id][1]:
                            return (ai[f_.value.id][0], f_.attr)
                        return None
                    o1, o2 = org(f), org(node.args[0].func)
                    if o1 is not None and o1[0] == "re" and o1[1] in ("findall", "match", "search", "fullmatch", "split",
                                                                       "finditer", "sub", "subn") and o2 == ("re", "compile"):
                        node.args[0] = node.args[0].args[0]
                        changed = True
                        rep.shapes += 1
                # ImportedClass.method(obj, args)  ->  obj.method(args)   (obj an instance of that class)
                if isinstance(f, ast.Attribute) and isinstance(f.value, ast.Name) and f.value.id[:1].isupper() \
                        and f.value.id in norm_absimp and norm_absimp[f.value.id][1] and node.args \
                        and not isinstance(node.args[0], ast.Starred) and Normaliser._atomic(node.args[0]) \
                        and not isinstance(node.args[0], ast.Constant) and not f.attr.startswith("__") \
                        and stores.get(f.value.id, 0) == 0 and (norm_absimp[f.value.id][1], f.attr) in INSTANCE_METHODS:
                    changed = True
                    rep.shapes += 1
                    return _set_loc(ast.Call(func=ast.Attribute(value=node.args[0], attr=f.attr, ctx=ast.Load()),
                                             args=list(node.args[1:]), keywords=list(node.keywords)), node)
                if isinstance(f, ast.Name) and f.id == "getattr" and len(node.args) == 2 and not node.keywords \
                        and isinstance(node.args[1], ast.Constant) and isinstance(node.args[1].value, str) \
                        and node.args[1].value.isidentifier():
                    changed = True
                    rep.shapes += 1
                    return ast.copy_location(ast.Attribute(value=node.args[0], attr=node.args[1].value, ctx=ast.Load()), node)
                fname = f.attr if isinstance(f, ast.Attribute) else f.id if isinstance(f, ast.Name) else None
                if isinstance(f, ast.Name) and f.id in norm_absimp and stores.get(f.id, 0) == 0 and \
                        norm_absimp[f.id][0] in ("operator", "itertools", "functools") and norm_absimp[f.id][1]:
                    fname = norm_absimp[f.id][1]        # ``from operator import attrgetter as _ag``
                plain = not node.keywords and not any(isinstance(a_, ast.Starred) for a_ in node.args)
                qual_ok = isinstance(f, ast.Name) or (isinstance(f, ast.Attribute) and isinstance(f.value, ast.Name)
                                                      and f.value.id in ("operator", "itertools", "functools"))

                def mk_lambda(body: ast.expr) -> ast.Lambda:
                    lam_ = ast.Lambda(args=ast.arguments(posonlyargs=[], args=[ast.arg(arg="x_")], kwonlyargs=[],
                                                         kw_defaults=[], defaults=[]), body=body)
                    return _set_loc(lam_, node)  # type: ignore[return-value]
                # operator.attrgetter('a.b') / itemgetter(k) / methodcaller('m', args)
                if qual_ok and fname == "attrgetter" and plain and len(node.args) == 1 and \
                        isinstance(node.args[0], ast.Constant) and isinstance(node.args[0].value, str) and \
                        all(p_.isidentifier() for p_ in node.args[0].value.split(".")):
                    body: ast.expr = ast.Name(id="x_", ctx=ast.Load())
                    for p_ in node.args[0].value.split("."):
                        body = ast.Attribute(value=body, attr=p_, ctx=ast.Load())
                    changed = True
                    rep.shapes += 1
                    return mk_lambda(body)
                if qual_ok and fname == "itemgetter" and plain and len(node.args) == 1 and \
                        isinstance(node.args[0], ast.Constant):
                    changed = True
                    rep.shapes += 1
                    return mk_lambda(ast.Subscript(value=ast.Name(id="x_", ctx=ast.Load()), slice=node.args[0], ctx=ast.Load()))
                if qual_ok and fname == "methodcaller" and node.args and isinstance(node.args[0], ast.Constant) and \
                        isinstance(node.args[0].value, str) and node.args[0].value.isidentifier() and \
                        all(Normaliser._atomic(a_) for a_ in node.args[1:]) and \
                        all(k.arg is not None and Normaliser._atomic(k.value) for k in node.keywords):
                    call = ast.Call(func=ast.Attribute(value=ast.Name(id="x_", ctx=ast.Load()), attr=node.args[0].value,
                                                       ctx=ast.Load()), args=list(node.args[1:]), keywords=list(node.keywords))
                    changed = True
                    rep.shapes += 1
                    return mk_lambda(call)
                # map(f, it) / filter(f, it) / starmap(f, it) -> generator expressions
                if isinstance(f, ast.Name) and f.id == "map" and plain and len(node.args) == 2:
                    fn_ = node.args[0]
                    lam2 = fn_ if isinstance(fn_, ast.Lambda) else lambdas.get(fn_.id) if isinstance(fn_, ast.Name) else None
                    tgt = ast.Name(id="x_", ctx=ast.Store())
                    callx = ast.Call(func=fn_, args=[ast.Name(id="x_", ctx=ast.Load())], keywords=[])
                    elt: Optional[ast.expr] = None
                    if lam2 is not None:
                        elt = beta(lam2, callx)
                    elif Normaliser._atomic(fn_):
                        elt = callx
                    if elt is not None and "x_" not in _free_names(node.args[1]) and \
                            (lam2 is None or "x_" not in _free_names(lam2)):
                        gen = ast.GeneratorExp(elt=elt, generators=[ast.comprehension(target=tgt, iter=node.args[1], ifs=[], is_async=0)])
                        changed = True
                        rep.shapes += 1
                        return _set_loc(gen, node)
                if fname == "starmap" and qual_ok and plain and len(node.args) == 2 and \
                        Normaliser._atomic(node.args[0]) and "x_" not in _free_names(node.args[1]):
                    gen = ast.GeneratorExp(
                        elt=ast.Call(func=node.args[0], args=[ast.Starred(value=ast.Name(id="x_", ctx=ast.Load()),
                                                                          ctx=ast.Load())], keywords=[]),
                        generators=[ast.comprehension(target=ast.Name(id="x_", ctx=ast.Store()), iter=node.args[1],
                                                      ifs=[], is_async=0)])
                    changed = True
                    rep.shapes += 1
                    return _set_loc(gen, node)
                if isinstance(f, ast.Name) and f.id == "filter" and plain and len(node.args) == 2 and \
                        "x_" not in _free_names(node.args[1]):
                    fn_ = node.args[0]
                    cond: Optional[ast.expr] = None
                    if isinstance(fn_, ast.Constant) and fn_.value is None:
                        cond = ast.Name(id="x_", ctx=ast.Load())
                    elif isinstance(fn_, ast.Lambda):
                        cond = beta(fn_, ast.Call(func=fn_, args=[ast.Name(id="x_", ctx=ast.Load())], keywords=[]))
                    elif Normaliser._atomic(fn_):
                        cond = ast.Call(func=fn_, args=[ast.Name(id="x_", ctx=ast.Load())], keywords=[])
                    if cond is not None:
                        gen = ast.GeneratorExp(elt=ast.Name(id="x_", ctx=ast.Load()), generators=[ast.comprehension(
                            target=ast.Name(id="x_", ctx=ast.Store()), iter=node.args[1], ifs=[cond], is_async=0)])
                        changed = True
                        rep.shapes += 1
                        return _set_loc(gen, node)
                if isinstance(f, ast.Name) and f.id in fobjs:
                    lam_, fieldmap = fobjs[f.id]
                    body_ = beta(lam_, ast.Call(func=lam_, args=list(node.args), keywords=list(node.keywords)))
                    if body_ is not None:
                        class SF(ast.NodeTransformer):
                            def visit_Attribute(self, nd: ast.Attribute) -> ast.AST:
                                self.generic_visit(nd)
                                if isinstance(nd.value, ast.Name) and nd.value.id == "self$" and nd.attr in fieldmap:
                                    return ast.copy_location(copy.deepcopy(fieldmap[nd.attr]), nd)
                                return nd
                        changed = True
                        rep.shapes += 1
                        return _set_loc(SF().visit(body_), node)
                if isinstance(f, ast.Name) and f.id in partials:
                    pc = partials[f.id]
                    merged = ast.Call(func=copy.deepcopy(pc.args[0]),
                                      args=[copy.deepcopy(a_) for a_ in pc.args[1:]] + list(node.args),
                                      keywords=[copy.deepcopy(k_) for k_ in pc.keywords
                                                if k_.arg not in {k2.arg for k2 in node.keywords}] + list(node.keywords))
                    changed = True
                    rep.shapes += 1
                    return _set_loc(merged, node)
                lam = f if isinstance(f, ast.Lambda) else lambdas.get(f.id) if isinstance(f, ast.Name) else None
                if lam is not None:
                    new = beta(lam, node)
                    if new is not None:
                        changed = True
                        rep.shapes += 1
                        return _set_loc(new, node)
                return node
        X().visit(fn)
        # drop partial / function-object bindings no longer referenced
        for nm_ in list(partials) + list(fobjs):
            if not any(isinstance(x, ast.Name) and x.id == nm_ and isinstance(x.ctx, ast.Load) for x in ast.walk(fn)):
                for holder_ in ast.walk(fn):
                    for fld_ in ("body", "orelse", "finalbody"):
                        b_ = getattr(holder_, fld_, None)
                        if isinstance(b_, list):
                            for st_ in list(b_):
                                if isinstance(st_, ast.Assign) and len(st_.targets) == 1 and \
                                        isinstance(st_.targets[0], ast.Name) and st_.targets[0].id == nm_ and len(b_) > 1:
                                    b_.remove(st_)
        # drop lambda bindings no longer referenced
        if lambdas:
            def prune(stmts: List[ast.stmt]) -> None:
                for st in list(stmts):
                    for fld in ("body", "orelse", "finalbody"):
                        sub = getattr(st, fld, None)
                        if isinstance(sub, list) and sub and isinstance(sub[0], ast.stmt) and not isinstance(st, ScopeT):
                            prune(sub)
                    if isinstance(st, ast.Assign) and len(st.targets) == 1 and isinstance(st.targets[0], ast.Name) \
                            and st.targets[0].id in lambdas and isinstance(st.value, ast.Lambda):
                        nm = st.targets[0].id
                        if not any(isinstance(n, ast.Name) and n.id == nm and isinstance(n.ctx, ast.Load)
                                   for n in ast.walk(fn)):
                            stmts.remove(st)
                            if not stmts:
                                stmts.append(ast.copy_location(ast.Pass(), st))
            prune(fn.body)

        # local def with a single return, used only as a value -> lambda
        qual = getattr(fn, "_qual", None)
        for d in [x for x in fn.body if isinstance(x, ast.FunctionDef)]:
            if self.known is not None and qual and ("%s:%s.%s" % (getattr(fn, "_mod", ""), qual, d.name)) in self.known:
                continue
            hb = _body_wo_doc(d)
            a = d.args
            if d.decorator_list or len(hb) != 1 or not isinstance(hb[0], ast.Return) or hb[0].value is None \
                    or a.vararg or a.kwarg or a.kwonlyargs or a.defaults or a.posonlyargs or _is_generator(d):
                continue
            if stores.get(d.name, 0) != 0:
                continue
            refs = [n for n in ast.walk(fn) if isinstance(n, ast.Name) and n.id == d.name and isinstance(n.ctx, ast.Load)]
            inner_refs = [n for n in ast.walk(d) if isinstance(n, ast.Name) and n.id == d.name]
            if not refs or inner_refs:
                continue
            lam = ast.Lambda(args=ast.arguments(posonlyargs=[], args=[ast.arg(arg=x.arg) for x in a.args],
                                                kwonlyargs=[], kw_defaults=[], defaults=[]), body=hb[0].value)

            class R(ast.NodeTransformer):
                def visit_Name(self, node: ast.Name) -> ast.AST:
                    if node.id == d.name and isinstance(node.ctx, ast.Load):
                        return _set_loc(copy.deepcopy(lam), node)
                    return node
            fn.body.remove(d)
            R().visit(fn)
            changed = True
            rep.shapes += 1
        return changed

    # ------------------------------------------------------------------ N2a versions
    def versions(self, fn: ast.FunctionDef) -> bool:
        """a name rebound by plain assignments in the function's top-level statement sequence
        (``x = f(x)``) becomes one name per binding: straight-line single assignment"""
        params = {a.arg for a in fn.args.posonlyargs + fn.args.args + fn.args.kwonlyargs}
        if fn.args.vararg:
            params.add(fn.args.vararg.arg)
        if fn.args.kwarg:
            params.add(fn.args.kwarg.arg)
        escaping: Set[str] = set()
        for n in _walk_scope(fn):
            if isinstance(n, (ast.FunctionDef, ast.Lambda)):
                escaping |= {m.id for m in ast.walk(n) if isinstance(m, ast.Name)}
            elif isinstance(n, (ast.Global, ast.Nonlocal)):
                escaping |= set(n.names)
            elif isinstance(n, CompT):
                # comprehension bodies run later only for generators; keep it simple
                if isinstance(n, ast.GeneratorExp):
                    escaping |= {m.id for m in ast.walk(n) if isinstance(m, ast.Name)}
        top_stores: Dict[str, int] = {}
        for st in fn.body:
            if isinstance(st, ast.Assign) and len(st.targets) == 1 and isinstance(st.targets[0], ast.Name):
                top_stores[st.targets[0].id] = top_stores.get(st.targets[0].id, 0) + 1
        all_stores: Dict[str, int] = {}
        for n in _walk_scope(fn):
            if isinstance(n, ast.Name) and isinstance(n.ctx, (ast.Store, ast.Del)):
                all_stores[n.id] = all_stores.get(n.id, 0) + 1
            elif isinstance(n, ast.ExceptHandler) and n.name:
                all_stores[n.name] = all_stores.get(n.name, 0) + 5
        cands = [n for n, c in top_stores.items() if all_stores.get(n) == c and n not in escaping
                 and (c >= 2 or (n in params and c >= 1))]
        nested_done = self._versions_in_blocks(fn, params, escaping, all_stores)
        if not cands:
            return nested_done
        taken = getattr(fn, "_taken", None)
        if taken is None:
            taken = _all_names(fn)
            fn._taken = taken  # type: ignore[attr-defined]
        for nm in cands:
            cur = nm if nm in params else None
            ver = 0
            for idx, st in enumerate(fn.body):
                is_def = isinstance(st, ast.Assign) and len(st.targets) == 1 and \
                    isinstance(st.targets[0], ast.Name) and st.targets[0].id == nm
                if cur is not None and cur != nm:
                    sub = _Subst({nm: ast.Name(id=cur, ctx=ast.Load())})
                    if is_def:
                        st.value = sub.visit(st.value)          # type: ignore[attr-defined]
                    else:
                        fn.body[idx] = sub.visit(st)
                if is_def:
                    if cur is None and ver == 0:
                        cur = nm            # the first binding of a local keeps the name
                        ver = 1
                        continue
                    ver += 1
                    new = "%s_v%d" % (nm, ver)
                    while new in taken:
                        ver += 1
                        new = "%s_v%d" % (nm, ver)
                    taken.add(new)
                    st.targets[0] = ast.copy_location(ast.Name(id=new, ctx=ast.Store()), st.targets[0])  # type: ignore[attr-defined]
                    cur = new
            self.report.temporaries += 0
        return True

    def _versions_in_blocks(self, fn: ast.FunctionDef, params: Set[str], escaping: Set[str],
                            all_stores: Dict[str, int]) -> bool:
        """the same inside a nested block (a loop body, a branch): a local bound several times by
        plain assignments of that block and used nowhere outside it, every use after a binding"""
        changed = False
        taken = getattr(fn, "_taken", None)
        if taken is None:
            taken = _all_names(fn)
            fn._taken = taken  # type: ignore[attr-defined]

        def blocks(stmts: List[ast.stmt], top: bool) -> None:
            nonlocal changed
            for st in stmts:
                if isinstance(st, ScopeT):
                    continue
                for fld in ("body", "orelse", "finalbody"):
                    sub = getattr(st, fld, None)
                    if isinstance(sub, list) and sub and isinstance(sub[0], ast.stmt):
                        blocks(sub, False)
                if isinstance(st, ast.Try):
                    for hd in st.handlers:
                        blocks(hd.body, False)
            if top:
                return
            counts: Dict[str, int] = {}
            for st in stmts:
                if isinstance(st, ast.Assign) and len(st.targets) == 1 and isinstance(st.targets[0], ast.Name):
                    counts[st.targets[0].id] = counts.get(st.targets[0].id, 0) + 1
            for nm, c in sorted(counts.items()):
                if c < 2 or nm in params or nm in escaping or all_stores.get(nm) != c:
                    continue
                inside = sum(1 for st in stmts for n in [st] + list(_walk_scope(st))
                             if isinstance(n, ast.Name) and n.id == nm)
                total = sum(1 for n in _walk_scope(fn) if isinstance(n, ast.Name) and n.id == nm)
                if inside != total:
                    continue
                # no use before the first binding (a loop would carry the last value round)
                first = next(i for i, st in enumerate(stmts) if isinstance(st, ast.Assign) and len(st.targets) == 1
                             and isinstance(st.targets[0], ast.Name) and st.targets[0].id == nm)
                if any(isinstance(n, ast.Name) and n.id == nm for st in stmts[:first] for n in ast.walk(st)) or \
                        any(isinstance(n, ast.Name) and n.id == nm for n in ast.walk(stmts[first].value)):  # type: ignore[attr-defined]
                    continue
                cur = None
                ver = 0
                for idx, st in enumerate(stmts):
                    is_def = isinstance(st, ast.Assign) and len(st.targets) == 1 and \
                        isinstance(st.targets[0], ast.Name) and st.targets[0].id == nm
                    if cur is not None and cur != nm:
                        sub = _Subst({nm: ast.Name(id=cur, ctx=ast.Load())})
                        if is_def:
                            st.value = sub.visit(st.value)          # type: ignore[attr-defined]
                        else:
                            stmts[idx] = sub.visit(st)
                    if is_def:
                        if cur is None:
                            cur = nm
                            ver = 1
                            continue
                        ver += 1
                        new = "%s_v%d" % (nm, ver)
                        while new in taken:
                            ver += 1
                            new = "%s_v%d" % (nm, ver)
                        taken.add(new)
                        st.targets[0] = ast.copy_location(ast.Name(id=new, ctx=ast.Store()), st.targets[0])  # type: ignore[attr-defined]
                        cur = new
                changed = True
        blocks(fn.body, True)
        # a local bound once in each of several sibling blocks and used only inside the block that
        # bound it (after the binding): one name per block
        all_blocks: List[List[ast.stmt]] = []

        def collect(stmts: List[ast.stmt]) -> None:
            all_blocks.append(stmts)
            for st in stmts:
                if isinstance(st, ScopeT):
                    continue
                for fld in ("body", "orelse", "finalbody"):
                    sub = getattr(st, fld, None)
                    if isinstance(sub, list) and sub and isinstance(sub[0], ast.stmt):
                        collect(sub)
                if isinstance(st, ast.Try):
                    for hd in st.handlers:
                        collect(hd.body)
        collect(fn.body)
        where: Dict[str, List[Tuple[List[ast.stmt], int]]] = {}
        for blk in all_blocks:
            for i, st in enumerate(blk):
                if isinstance(st, ast.Assign) and len(st.targets) == 1 and isinstance(st.targets[0], ast.Name):
                    where.setdefault(st.targets[0].id, []).append((blk, i))
        for nm, sites in sorted(where.items()):
            if len(sites) < 2 or nm in params or nm in escaping or all_stores.get(nm) != len(sites):
                continue
            if len({id(b) for b, _ in sites}) != len(sites):
                continue
            # blocks must be disjoint (none nested in another) and hold every load after the binding
            def inside(blk: List[ast.stmt], i: int) -> int:
                return sum(1 for st in blk[i + 1:] for n in [st] + list(_walk_scope(st))
                           if isinstance(n, ast.Name) and n.id == nm and isinstance(n.ctx, ast.Load))
            total = sum(1 for n in _walk_scope(fn) if isinstance(n, ast.Name) and n.id == nm and isinstance(n.ctx, ast.Load))
            if total != sum(inside(b, i) for b, i in sites):
                continue
            nested = False
            for b1, _i1 in sites:
                for b2, _i2 in sites:
                    if b1 is not b2 and any(any(x is y for y in ast.walk(st)) for st in b1 for x in b2):
                        nested = True
            if nested or any(any(isinstance(n, ast.Name) and n.id == nm for n in ast.walk(b[i].value)) for b, i in sites):  # type: ignore[attr-defined]
                continue
            # loops: a use before the binding in the same block would see the previous iteration
            if any(any(isinstance(n, ast.Name) and n.id == nm for st in b[:i] for n in ast.walk(st)) for b, i in sites):
                continue
            for k, (b, i) in enumerate(sites[1:], start=2):
                new = "%s_v%d" % (nm, k)
                while new in taken:
                    k += 1
                    new = "%s_v%d" % (nm, k)
                taken.add(new)
                b[i].targets[0] = ast.copy_location(ast.Name(id=new, ctx=ast.Store()), b[i].targets[0])  # type: ignore[attr-defined]
                sub = _Subst({nm: ast.Name(id=new, ctx=ast.Load())})
                for j in range(i + 1, len(b)):
                    b[j] = sub.visit(b[j])
            changed = True
        return changed

    # ------------------------------------------------------------------ N2
    def copyprop(self, fn: ast.FunctionDef) -> bool:
        params = {a.arg for a in fn.args.posonlyargs + fn.args.args + fn.args.kwonlyargs}
        if fn.args.vararg:
            params.add(fn.args.vararg.arg)
        if fn.args.kwarg:
            params.add(fn.args.kwarg.arg)
        stores: Dict[str, int] = {}
        escaping: Set[str] = set()
        for n in _walk_scope(fn):
            if isinstance(n, ast.Name) and isinstance(n.ctx, (ast.Store, ast.Del)):
                stores[n.id] = stores.get(n.id, 0) + 1
            elif isinstance(n, ast.ExceptHandler) and n.name:
                stores[n.name] = stores.get(n.name, 0) + 2
            elif isinstance(n, (ast.Global, ast.Nonlocal)):
                escaping |= set(n.names)
            elif isinstance(n, ast.NamedExpr):
                stores[n.target.id] = stores.get(n.target.id, 0) + 2
        # names used by nested functions / lambdas escape (closures see later values)
        for n in _walk_scope(fn):
            if isinstance(n, (ast.FunctionDef, ast.Lambda)):
                # (a name the nested function binds itself - a parameter, a local without
                # nonlocal - is its own)
                own_ = {a_.arg for a_ in ast.walk(n.args) if isinstance(a_, ast.arg)}
                if isinstance(n, ast.FunctionDef) and not any(isinstance(m, (ast.Nonlocal, ast.Global)) for m in ast.walk(n)):
                    own_ |= {m.id for m in _walk_scope(n) if isinstance(m, ast.Name) and not isinstance(m.ctx, ast.Load)}
                for m in ast.walk(n):
                    if isinstance(m, ast.Name) and m.id not in own_:
                        escaping.add(m.id)
        stable = {p for p in params if stores.get(p, 0) == 0} | \
            {n for n, c in stores.items() if c == 1 and n not in params}
        # names never assigned in the function (globals, builtins, class names) are stable too
        stable |= {n.id for n in _walk_scope(fn) if isinstance(n, ast.Name) and n.id not in stores and n.id not in params}

        def find(stmts: List[ast.stmt]) -> bool:
            # nested blocks first, then this block from its last statement backwards: the
            # definition nearest to a use is substituted first, so whatever is still between a
            # definition and its use is there to stay
            for st in stmts:
                for fld in ("body", "orelse", "finalbody"):
                    sub = getattr(st, fld, None)
                    if isinstance(sub, list) and sub and isinstance(sub[0], ast.stmt) and not isinstance(st, ScopeT):
                        if find(sub):
                            return True
                if isinstance(st, ast.Try):
                    for hd in st.handlers:
                        if find(hd.body):
                            return True
            for i in range(len(stmts) - 1, -1, -1):
                st = stmts[i]
                tgt: Optional[str] = None
                val: Optional[ast.expr] = None
                if isinstance(st, ast.Assign) and len(st.targets) == 1 and isinstance(st.targets[0], ast.Name):
                    tgt, val = st.targets[0].id, st.value
                elif isinstance(st, ast.AnnAssign) and isinstance(st.target, ast.Name) and st.value is not None:
                    tgt, val = st.target.id, st.value
                if tgt is None or val is None or tgt in params or tgt in escaping or stores.get(tgt) != 1:
                    continue
                if isinstance(val, ast.GeneratorExp) and not any(
                        isinstance(n, (ast.Yield, ast.YieldFrom, ast.Await, ast.NamedExpr, ast.Lambda) + CompT)
                        for n in ast.walk(val) if n is not val):
                    # a generator expression bound to a local and consumed once: like a call
                    # (creating it evaluates its first iterable), single use, nothing in between
                    if self._try_propagate(fn, stmts, i, tgt, val, stable):
                        return True
                    continue
                if isinstance(val, (ast.Lambda,) + CompT):
                    continue
                if any(isinstance(n, (ast.Yield, ast.YieldFrom, ast.Await, ast.NamedExpr, ast.Lambda) + CompT)
                       for n in ast.walk(val)):
                    continue
                if isinstance(val, ast.IfExp) and sum(
                        1 for n in _walk_scope(fn) if isinstance(n, ast.Name) and n.id == tgt and isinstance(n.ctx, ast.Load)) > 1:
                    continue        # a choice used several times stays a name (jump threading splits it)
                if self._try_propagate(fn, stmts, i, tgt, val, stable):
                    return True
            return False

        changed = False
        for _ in range(400):
            _renumber(fn)
            if not find(fn.body):
                break
            changed = True
        return changed

    def _try_propagate(self, fn: ast.FunctionDef, stmts: List[ast.stmt], i: int, tgt: str,
                       val: ast.expr, stable: Set[str]) -> bool:
        all_loads = [n for n in _walk_scope(fn) if isinstance(n, ast.Name) and n.id == tgt and isinstance(n.ctx, ast.Load)]
        after: List[Tuple[int, ast.Name]] = []
        for j in range(i + 1, len(stmts)):
            for n in [stmts[j]] + list(_walk_scope(stmts[j])):
                if isinstance(n, ast.Name) and n.id == tgt and isinstance(n.ctx, ast.Load):
                    after.append((j, n))
        if len(after) != len(all_loads) or not after:
            return False
        frozen = ("", self.init_only)
        pur = _purity(val, stable - {tgt}, frozen)
        # a bound method cached in a local (``write = stream.write``) and only ever called: looking
        # the method up once or at every call is the same (nobody rebinds methods of live objects)
        if pur == 1 and isinstance(val, ast.Attribute) and self._atomic(val) and \
                isinstance(val.value, ast.Name) and val.value.id in stable:
            callee_ids = {id(c.func) for c in ast.walk(fn) if isinstance(c, ast.Call)}
            calls_only = all(id(n) in callee_ids for _j, n in after)
            if calls_only and not any(isinstance(x, ast.Attribute) and isinstance(x.ctx, (ast.Store, ast.Del))
                                      and x.attr == val.attr for x in ast.walk(fn)):
                pur = 0
        elif pur == 1 and isinstance(val, ast.Attribute) and self._atomic(val) and isinstance(val.value, ast.Attribute):
            # ... the same for a method of ``self.a`` when nothing executed after the binding in
            # this block can assign ``a`` (only this function and constructors ever assign it)
            chain = attr_path_(val.value)
            if chain and chain[0] in stable:
                sites = self._attr_store_sites()
                ctor_ids = self._ctor_ids
                callee_ids = {id(c.func) for c in ast.walk(fn) if isinstance(c, ast.Call)}
                calls_only = all(id(n) in callee_ids for _j, n in after)
                safe = calls_only and "*" not in {k for k in sites if k == "*" and any(
                    a_.lstrip("_") in sites for a_ in chain[1:])}
                for a_ in chain[1:] + (val.attr,):
                    if not (sites.get(a_, set()) <= ({id(fn)} | ctor_ids)):
                        safe = False
                    for st_ in stmts[i + 1:]:
                        if any(isinstance(x, ast.Attribute) and x.attr == a_ and not isinstance(x.ctx, ast.Load)
                               for x in ast.walk(st_)):
                            safe = False
                if safe:
                    pur = 0
        last = max(j for j, _ in after)
        using = sorted({j for j, _ in after})
        # locals the value reads that are bound more than once: none of them may be bound again
        # between the definition and the last use (``e = xs[i]; i += 1; use(e)``)
        own_of_val = {n.id for n in ast.walk(val) if isinstance(n, ast.Name) and not isinstance(n.ctx, ast.Load)} | {
            a_.arg for n in ast.walk(val) if isinstance(n, ast.Lambda) for a_ in ast.walk(n.args) if isinstance(a_, ast.arg)}
        moving = {n.id for n in ast.walk(val) if isinstance(n, ast.Name) and isinstance(n.ctx, ast.Load)} \
            - stable - {tgt} - own_of_val
        if moving:
            for j in range(i + 1, last + 1):
                for n in [stmts[j]] + list(ast.walk(stmts[j])):
                    if isinstance(n, ast.Name) and n.id in moving and not isinstance(n.ctx, ast.Load):
                        return False
                    if isinstance(n, ast.ExceptHandler) and n.name in moving:
                        return False

        def header_ids(st: ast.stmt) -> Set[int]:
            ids: Set[int] = set()
            for h in _headers(st):
                ids |= {id(n) for n in [h] + list(ast.walk(h))}
            return ids

        if pur == 0:
            pass
        elif pur == 1:
            # what val reads must not be able to change between the definition and any use:
            # everything executed on the way to a use is quiet, and in the using statement nothing
            # with an effect is evaluated before the use (an assignment stores after its value)
            def reach_ok(block: List[ast.stmt], upto: int, use: ast.Name) -> bool:
                for k in range(0, upto):
                    if not _quiet(block[k]):
                        return False
                st_ = block[upto]
                if isinstance(st_, ast.If):
                    if _contains(st_.test, use):
                        return _quiet_before(st_.test, tgt)
                    if not _quiet(st_.test):
                        return False
                    for branch in (st_.body, st_.orelse):
                        for k2, s2 in enumerate(branch):
                            if _contains(s2, use):
                                return reach_ok(branch, k2, use)
                    return False
                if isinstance(st_, (ast.For, ast.While, ast.With, ast.Try)):
                    hs = _headers(st_)
                    if hs and all(_contains(h, use) or not _contains(st_, use) for h in hs) and any(_contains(h, use) for h in hs):
                        return all(_quiet_before(h, tgt) for h in hs)
                    return _quiet(st_)
                return _quiet_before(st_, tgt)
            rest = stmts[i + 1:]
            for jj, n in after:
                if not reach_ok(rest, jj - (i + 1), n):
                    return False
        else:
            # val calls something: one use, evaluated exactly once, nothing in between that
            # could observe or be observed by the call
            if len(after) != 1:
                return False
            j, use = after[0]
            for k in range(i + 1, j):
                if not self._is_temp_def(stmts[k]) or _purity(self._def_value(stmts[k]), stable) != 0:
                    return False
            st = stmts[j]
            if isinstance(st, ast.While):
                return False
            if isinstance(st, (ast.Assign, ast.AugAssign, ast.AnnAssign)):
                tg_nodes = st.targets if isinstance(st, ast.Assign) else [st.target]
                if any(_contains(t, use) for t in tg_nodes):
                    return False        # targets are evaluated after the value
            once: Set[int] = set()
            for h in _headers(st):
                once |= _once_positions(h)
            if id(use) not in once:
                return False
            for h in _headers(st):
                for n in ast.walk(h):
                    if _before(n, use) and not _contains(n, use):
                        if isinstance(n, ast.Call) and not (isinstance(n.func, ast.Name) and n.func.id in PURE_CALLS):
                            return False
                        # a read evaluated before the call in the new form but after it in the old
                        if isinstance(n, (ast.Attribute, ast.Subscript)) and isinstance(n.ctx, ast.Load) \
                                and not _is_callee_of_enclosing(n, use, h):
                            return False
        sub = _Subst({tgt: val})
        for j in using:
            stmts[j] = sub.visit(stmts[j])
        del stmts[i]
        self.report.temporaries += 1
        return True

    @staticmethod
    def _is_temp_def(st: ast.stmt) -> bool:
        return (isinstance(st, ast.Assign) and len(st.targets) == 1 and isinstance(st.targets[0], ast.Name)) or \
            (isinstance(st, ast.AnnAssign) and isinstance(st.target, ast.Name) and st.value is not None)

    @staticmethod
    def _def_value(st: ast.stmt) -> ast.expr:
        return st.value  # type: ignore[attr-defined,return-value]

    @staticmethod
    def _def_name(st: ast.stmt) -> str:
        return st.targets[0].id if isinstance(st, ast.Assign) else st.target.id  # type: ignore[attr-defined]

    # ------------------------------------------------------------------ N1
    def call_style(self) -> None:
        self.scan()
        for mod, tree in self.trees.items():
            for call in [n for n in ast.walk(tree) if isinstance(n, ast.Call)]:
                self._restyle(mod, call)

    def _sig_of(self, mod: str, call: ast.Call) -> Optional[Tuple[str, List[str]]]:
        f = call.func
        if isinstance(f, ast.Subscript):
            f = f.value
        nm = self._callee_name(call)
        if nm is None:
            return None
        if nm in EXTERNAL_SIGS:
            return nm, EXTERNAL_SIGS[nm]
        if isinstance(f, ast.Name):
            h = self.module_funcs.get((mod, nm))
            if h is None and nm in self.imports.get(mod, {}):
                m2, n2 = self.imports[mod][nm]
                h = self.module_funcs.get((m2, n2))
            if h is not None:
                return nm, [a.arg for a in h.node.args.args]
            if nm in self.class_names:
                inits = [x for x in self.defs.get("__init__", []) if x.cls is not None and x.cls.split(".")[-1] == nm]
                if len(inits) == 1:
                    return nm, [a.arg for a in inits[0].node.args.args][1:]
            return None
        if isinstance(f, ast.Attribute):
            hs = [h for h in self.defs.get(nm, []) if h.cls is not None]
            if not hs:
                return None
            if isinstance(f.value, ast.Name) and f.value.id in self.class_names:
                # Class.method(...): the method that class defines (or inherits)
                q0 = self.class_by_simple.get(f.value.id)
                seen0: Set[str] = set()
                todo0 = [q0] if q0 else []
                while todo0:
                    c0 = todo0.pop(0)
                    if c0 in seen0:
                        continue
                    seen0.add(c0)
                    m0 = self.class_methods.get(c0, {}).get(nm)
                    if m0 is not None:
                        hs = [m0]
                        break
                    todo0 = [self.class_by_simple.get(b_) for b_ in self.class_bases.get(c0, [])
                             if self.class_by_simple.get(b_)] + todo0
            sigs = {tuple(a.arg for a in h.node.args.args) for h in hs}
            if len(sigs) != 1:
                # the keywords used at the call select among the methods of that name
                used = {k.arg for k in call.keywords}
                hs = [h for h in hs if used and used <= {a.arg for a in h.node.args.args + h.node.args.kwonlyargs}]
                sigs = {tuple(a.arg for a in h.node.args.args) for h in hs}
                if len(sigs) != 1:
                    return None
            h = hs[0]
            ps = [a.arg for a in h.node.args.args]
            recv = f.value
            via_class = isinstance(recv, ast.Name) and recv.id in self.class_names
            if not h.static and not (via_class and not h.classmethod):
                ps = ps[1:]
            return nm, ps
        return None

    def _restyle(self, mod: str, call: ast.Call) -> None:
        if any(isinstance(a, ast.Starred) for a in call.args) or any(k.arg is None for k in call.keywords):
            return
        sg = self._sig_of(mod, call)
        if sg is None:
            return
        nm, params = sg
        want = self.style.get(nm)
        if want is None:
            want = len(params)          # a callee the pinned tree does not call: positional
        npos = len(call.args)
        kws = {k.arg: k for k in call.keywords}
        changed = False
        while npos < want and npos < len(params) and params[npos] in kws:
            k = kws.pop(params[npos])
            call.args.append(k.value)
            call.keywords.remove(k)
            npos += 1
            changed = True
        while npos > want and npos <= len(params):
            v = call.args.pop()
            npos -= 1
            call.keywords.insert(0, ast.keyword(arg=params[npos], value=v, lineno=v.lineno, col_offset=v.col_offset,
                                                end_lineno=getattr(v, "end_lineno", v.lineno),
                                                end_col_offset=getattr(v, "end_col_offset", v.col_offset)))
            changed = True
        if changed:
            self.report.call_style += 1

    # ------------------------------------------------------------------ N10 parameter names
    def parameter_names(self) -> None:
        """a private or nested function of the pinned tree whose parameters were renamed gets
        its old parameter names back (alpha-renaming; keyword arguments at its call sites follow)"""
        table = self.vocab.get("params")
        if not table:
            return
        for mod, tree in self.trees.items():
            def visit(stmts: List[ast.stmt], q: str, nested: bool) -> None:
                for st in stmts:
                    if isinstance(st, ast.ClassDef):
                        visit(st.body, q + st.name + ".", nested)
                    elif isinstance(st, ast.FunctionDef):
                        key = "%s:%s%s" % (mod, q, st.name)
                        private = st.name.startswith("_") and not (st.name.startswith("__") and st.name.endswith("__"))
                        if key in table and (private or nested):
                            self._rename_params(mod, st, table[key])
                        visit(st.body, q + st.name + ".", True)
                    elif isinstance(st, (ast.If, ast.For, ast.While, ast.With, ast.Try)):
                        for fld in ("body", "orelse", "finalbody"):
                            visit(getattr(st, fld, []) or [], q, nested)
            visit(tree.body, "", False)

    def _rename_params(self, mod: str, fn: ast.FunctionDef, want: List[str]) -> None:
        a = fn.args
        have = [x for x in a.posonlyargs + a.args + a.kwonlyargs]
        if len(have) != len(want) or [x.arg for x in have] == want:
            return
        if have and want and have[0].arg in ("self", "cls") and have[0].arg != want[0]:
            return
        mapping = {x.arg: w for x, w in zip(have, want) if x.arg != w}
        used = _all_names(fn)
        if any(w in used and w not in mapping for w in mapping.values()):
            return              # the old name now means something else here
        ren = {k: ast.Name(id=v, ctx=ast.Load()) for k, v in mapping.items()}
        for x in have:
            if x.arg in mapping:
                x.arg = mapping[x.arg]
        sub = _Subst(ren)
        fn.body = [sub.visit(s_) for s_ in fn.body]
        # keyword arguments at the call sites
        for tree in self.trees.values():
            for c in ast.walk(tree):
                if isinstance(c, ast.Call) and self._callee_name(c) == fn.name:
                    for k in c.keywords:
                        if k.arg in mapping:
                            k.arg = mapping[k.arg]
        self.report.shapes += 1

    # ------------------------------------------------------------------ N9 module constants
    def module_constants(self) -> None:
        """a private module-level name bound once to a literal, not part of the pinned tree's
        vocabulary, is the literal"""
        names = self.vocab.get("module_names")
        if names is None:
            return
        known = set(names)

        def literal(e: ast.AST) -> bool:
            if isinstance(e, ast.Constant):
                return True
            if isinstance(e, (ast.Tuple, ast.List)):
                return all(literal(x) for x in e.elts)
            if isinstance(e, ast.UnaryOp) and isinstance(e.op, ast.USub):
                return literal(e.operand)
            # a member of an imported module or class (CodeBlock_pb2.DecodeMode, IntervalTree.add):
            # import bindings are never rebound in this package
            p_ = attr_path_(e)
            if p_ and len(p_) >= 2 and p_[0] in imported and not counts.get(p_[0]):
                return True
            # a member of a class of this module (an enum member): _ADDED = _EventType.ADDED
            if p_ and len(p_) == 2 and p_[0] in toplevel_classes and not counts.get(p_[0]) and p_[1].isupper():
                return True
            # a private record (NamedTuple) built from literals
            if isinstance(e, ast.Call) and isinstance(e.func, ast.Name) and not e.keywords and e.args and \
                    self._record_class(mod, e.func.id) is not None:
                saved_ = nested_in_tuple[0]
                nested_in_tuple[0] = True
                try:
                    return all(literal(a_) for a_ in e.args)
                finally:
                    nested_in_tuple[0] = saved_
            # an immutable value built from literals: re.compile("..."), frozenset((...))
            if isinstance(e, ast.Call) and not e.keywords and len(e.args) == 1 and _lit0_args(e):
                fo = origin(e.func)
                if fo in (("re", "compile"), ("builtins", "frozenset"), ("builtins", "tuple")):
                    return True
            # the name of a class / function defined or imported at module level (as an element
            # of a table): looked up when the using function runs, like the table's name was
            if isinstance(e, ast.Name) and nested_in_tuple[0] and (e.id in imported or e.id in toplevel) \
                    and not counts.get(e.id):
                return True
            return False
        def _lit0_args(c: ast.Call) -> bool:
            a = c.args[0]
            return isinstance(a, ast.Constant) or (isinstance(a, (ast.Tuple, ast.List, ast.Set)) and all(
                isinstance(x, ast.Constant) for x in a.elts))

        def origin(f: ast.AST) -> Optional[Tuple[str, str]]:
            """(module, name) an expression in callee position refers to, through this module's imports"""
            if isinstance(f, ast.Name):
                if f.id in absimp_cur and absimp_cur[f.id][1]:
                    return absimp_cur[f.id]
                if f.id in ("frozenset", "tuple") and not counts.get(f.id) and f.id not in absimp_cur:
                    return ("builtins", f.id)
                return None
            if isinstance(f, ast.Attribute) and isinstance(f.value, ast.Name) and f.value.id in absimp_cur \
                    and not absimp_cur[f.value.id][1]:
                return (absimp_cur[f.value.id][0], f.attr)
            return None
        nested_in_tuple = [False]
        _lit0 = literal

        def literal(e: ast.AST) -> bool:  # noqa: F811
            if isinstance(e, ast.Dict) and e.keys and all(k is not None for k in e.keys):
                saved = nested_in_tuple[0]
                nested_in_tuple[0] = True
                try:
                    def key_ok(k: ast.AST) -> bool:
                        if isinstance(k, ast.Constant):
                            return True
                        p_ = attr_path_(k)          # EnumClass.MEMBER of a class of this module / imported
                        return bool(p_) and len(p_) == 2 and (p_[0] in toplevel or p_[0] in imported) and not counts.get(p_[0])
                    return all(key_ok(k) for k in e.keys) and all(
                        literal(v) or (attr_path_(v) is not None and len(attr_path_(v)) >= 2 and (
                            attr_path_(v)[0] in toplevel or attr_path_(v)[0] in imported)) for v in e.values)
                finally:
                    nested_in_tuple[0] = saved
            if isinstance(e, (ast.Tuple, ast.List)):
                saved = nested_in_tuple[0]
                nested_in_tuple[0] = True
                try:
                    return all(literal(x) for x in e.elts)
                finally:
                    nested_in_tuple[0] = saved
            return _lit0(e)
        self.scan()
        for mod, tree in self.trees.items():
            absimp_cur = self.abs_imports.get(mod, {})
            toplevel = {st.name for st in tree.body if isinstance(st, (ast.ClassDef, ast.FunctionDef))}
            toplevel_classes = {st.name for st in tree.body if isinstance(st, ast.ClassDef)}
            imported: Set[str] = set()
            for st in tree.body:
                for x in ([st] if not isinstance(st, ast.If) else list(st.body) + list(st.orelse)):
                    if isinstance(x, (ast.Import, ast.ImportFrom)):
                        for a in x.names:
                            imported.add((a.asname or a.name).split(".")[0])
            cands: Dict[str, Tuple[ast.stmt, ast.expr]] = {}
            counts: Dict[str, int] = {}
            for n in ast.walk(tree):
                if isinstance(n, ast.Name) and isinstance(n.ctx, (ast.Store, ast.Del)):
                    counts[n.id] = counts.get(n.id, 0) + 1
                elif isinstance(n, (ast.Global, ast.Nonlocal)):
                    for x in n.names:
                        counts[x] = counts.get(x, 0) + 5
            for st in tree.body:
                nm: Optional[str] = None
                val: Optional[ast.expr] = None
                if isinstance(st, ast.Assign) and len(st.targets) == 1 and isinstance(st.targets[0], ast.Name):
                    nm, val = st.targets[0].id, st.value
                elif isinstance(st, ast.AnnAssign) and isinstance(st.target, ast.Name) and st.value is not None:
                    nm, val = st.target.id, st.value
                if nm is None or val is None or not nm.startswith("_") or nm.startswith("__"):
                    continue
                if ("%s:%s" % (mod, nm)) in known or counts.get(nm) != 1 or not literal(val):
                    continue
                # nobody imports it
                if any(isinstance(x, ast.ImportFrom) and any(a.name == nm for a in x.names)
                       for t in self.trees.values() for x in ast.walk(t)):
                    continue
                if isinstance(val, ast.Dict):
                    # a table: only ever indexed (T[k]) — anything else could mutate or hand it out
                    uses = [x for x in ast.walk(tree) if isinstance(x, ast.Name) and x.id == nm and isinstance(x.ctx, ast.Load)]
                    subs = [x for x in ast.walk(tree) if isinstance(x, ast.Subscript) and isinstance(x.value, ast.Name)
                            and x.value.id == nm and isinstance(x.ctx, ast.Load)]
                    if len(uses) != len(subs) or not uses:
                        continue
                cands[nm] = (st, val)
            self._class_constants(mod, tree, literal, counts, imported)
            if not cands:
                continue
            # names shadowed by a parameter or local somewhere are left alone
            shadow: Set[str] = set()
            for n in ast.walk(tree):
                if isinstance(n, ast.arg) and n.arg in cands:
                    shadow.add(n.arg)
            for nm in shadow:
                del cands[nm]
            if not cands:
                continue
            _Subst({k: v for k, (_st, v) in cands.items()}).visit(tree)
            for nm, (st, _v) in cands.items():
                if st in tree.body:
                    tree.body.remove(st)
                self.report.constants += 1

    def _class_constants(self, mod: str, tree: ast.Module, literal: Any, counts: Dict[str, int],
                         imported: Set[str]) -> None:
        """a private class-level name bound once to a literal (constants, tuples, names of imported
        or module-level classes), not part of the pinned tree's vocabulary, only ever read, and
        only in this module, is the literal"""
        known = self.vocab.get("class_attrs")
        if known is None:
            return
        known = set(known)
        toplevel = {st.name for st in tree.body if isinstance(st, (ast.ClassDef, ast.FunctionDef))}

        def lit2(e: ast.AST) -> bool:
            if isinstance(e, (ast.Tuple, ast.List)):
                return all(lit2(x) for x in e.elts)
            if isinstance(e, ast.Name):
                return (e.id in toplevel or e.id in imported) and not counts.get(e.id)
            return literal(e)

        def visit(stmts: List[ast.stmt], q: str) -> None:
            for st in stmts:
                if not isinstance(st, ast.ClassDef):
                    continue
                visit(st.body, q + st.name + ".")
                for b in list(st.body):
                    nm = val = None
                    if isinstance(b, ast.Assign) and len(b.targets) == 1 and isinstance(b.targets[0], ast.Name):
                        nm, val = b.targets[0].id, b.value
                    elif isinstance(b, ast.AnnAssign) and isinstance(b.target, ast.Name) and b.value is not None:
                        nm, val = b.target.id, b.value
                    if nm is None or val is None or not nm.startswith("_") or nm.startswith("__"):
                        continue
                    if ("%s:%s%s.%s" % (mod, q, st.name, nm)) in known or not lit2(val):
                        continue
                    uses: List[ast.Attribute] = []
                    bad = False
                    for m2, t2 in self.trees.items():
                        for n in ast.walk(t2):
                            if isinstance(n, ast.Attribute) and n.attr == nm:
                                if not isinstance(n.ctx, ast.Load) or m2 != mod or not attr_path_(n.value):
                                    bad = True
                                uses.append(n)
                            elif isinstance(n, ast.Name) and n.id == nm and n is not (
                                    b.targets[0] if isinstance(b, ast.Assign) else b.target):
                                bad = True
                            elif isinstance(n, ast.Constant) and n.value == nm:
                                bad = True          # getattr(x, "_NAME") and the like
                    if bad or not uses:
                        continue
                    ids = {id(u) for u in uses}

                    class R(ast.NodeTransformer):
                        def visit_Attribute(self, node: ast.Attribute) -> ast.AST:
                            if id(node) in ids:
                                return ast.copy_location(copy.deepcopy(val), node)
                            return self.generic_visit(node)
                    R().visit(tree)
                    st.body.remove(b)
                    if not st.body:
                        st.body.append(ast.copy_location(ast.Pass(), st))
                    self.report.constants += 1
        visit(tree.body, "")

    def _qualify_all(self) -> None:
        for mod, tree in self.trees.items():
            def visit(stmts: List[ast.stmt], cls: Optional[str]) -> None:
                for st in stmts:
                    if isinstance(st, ast.ClassDef):
                        visit(st.body, (cls + "." if cls else "") + st.name)
                    elif isinstance(st, ast.FunctionDef):
                        self._qualify(st, (cls + "." if cls else "") + st.name, mod)
                    elif isinstance(st, ast.If):
                        visit(st.body, cls)
                        visit(st.orelse, cls)
            visit(tree.body, None)

    def dead_local_defs(self, fn: ast.FunctionDef) -> bool:
        """a function defined inside ``fn`` that the pinned tree does not have and that nothing
        refers to any more (every call was spliced) is dropped"""
        if self.known is None:
            return False
        q = getattr(fn, "_qual", None)
        mod = getattr(fn, "_mod", "")
        if not q:
            return False
        changed = False
        for owner in [fn] + [n for n in _walk_scope(fn)]:
            for fld in ("body", "orelse", "finalbody"):
                lst = getattr(owner, fld, None)
                if not isinstance(lst, list):
                    continue
                for st in list(lst):
                    if isinstance(st, ast.FunctionDef) and st is not fn and not st.decorator_list \
                            and ("%s:%s.%s" % (mod, q, st.name)) not in self.known:
                        refs = [x for x in ast.walk(fn) if isinstance(x, ast.Name) and x.id == st.name
                                and not any(x is y for y in ast.walk(st))]
                        if not refs:
                            lst.remove(st)
                            if not lst:
                                lst.append(ast.copy_location(ast.Pass(), st))
                            changed = True
                            self.report.dropped.append("%s:%s.%s" % (mod, q, st.name)) if hasattr(self.report, "dropped") else None
        return changed

    def _local_passes_fn(self, fn: ast.FunctionDef) -> None:
        self._attr_sites = None
        for _ in range(4):
            x = self.dead_local_defs(fn)
            c = self.copyprop(fn)
            d = self.shapes(fn)
            g = self.records(fn)
            if not (c or d or g or x):
                break

    def _local_passes(self) -> None:
        self._attr_sites = None
        for tree in self.trees.values():
            for fn in [n for n in ast.walk(tree) if isinstance(n, ast.FunctionDef)]:
                for _ in range(8):
                    a = self.fold(fn)
                    b = self.if_assign(fn)
                    v = self.versions(fn)
                    e = self.attr_alias(fn)
                    c = self.copyprop(fn)
                    d = self.shapes(fn)
                    t = self.thread(fn)
                    r = self.early_returns(fn)
                    g = self.records(fn)
                    if not (a or b or c or d or v or e or t or r or g):
                        break

    def _record_class(self, mod: str, name: str) -> Optional[Tuple[List[str], Dict[str, ast.expr], ast.ClassDef]]:
        """(field names, defaults, class) for a private module-level NamedTuple class of ``mod`` that
        the pinned tree does not have"""
        tree = self.trees.get(mod)
        if tree is None or not name.startswith("_"):
            return None
        rc = getattr(self, "_record_cache", None)
        if rc is None:
            rc = self._record_cache = {}
        ck = (mod, name, id(tree), len(tree.body))
        if ck in rc:
            return rc[ck]
        rc[ck] = None
        res = self._record_class_uncached(mod, name)
        rc[ck] = res
        return res

    def _record_class_uncached(self, mod: str, name: str) -> Optional[Tuple[List[str], Dict[str, ast.expr], ast.ClassDef]]:
        tree = self.trees[mod]
        c = next((n for n in tree.body if isinstance(n, ast.ClassDef) and n.name == name), None)
        if c is not None and not c.bases and not c.keywords and not c.decorator_list:
            return self._plain_record_class(mod, name, c)
        if c is None or len(c.bases) != 1 or (attr_path_(c.bases[0]) or ("",))[-1] != "NamedTuple" or c.keywords \
                or c.decorator_list:
            return None
        if self.known is not None and any(k.startswith("%s:%s." % (mod, name)) for k in self.known):
            return None
        if any(k.startswith("%s:%s." % (mod, name)) for k in (self.vocab.get("class_attrs") or [])):
            return None
        fields: List[str] = []
        defaults: Dict[str, ast.expr] = {}
        for b in c.body:
            if isinstance(b, ast.AnnAssign) and isinstance(b.target, ast.Name):
                fields.append(b.target.id)
                if b.value is not None:
                    defaults[b.target.id] = b.value
            elif isinstance(b, ast.FunctionDef):
                if b.name in ("__new__", "__init__", "__getattr__", "__getattribute__", "__iter__", "__getitem__", "__len__"):
                    return None
            elif isinstance(b, ast.Expr) and isinstance(b.value, ast.Constant):
                continue
            elif isinstance(b, ast.Pass):
                continue
            else:
                return None
        return (fields, defaults, c) if fields else None

    def _plain_record_class(self, mod: str, name: str, c: ast.ClassDef
                            ) -> Optional[Tuple[List[str], Dict[str, ast.expr], ast.ClassDef]]:
        """a private class without bases whose ``__init__`` only stores its parameters in attributes
        (one each) and whose other methods only read them: a record with methods"""
        if self.known is not None and any(k.startswith("%s:%s." % (mod, name)) for k in self.known):
            return None
        init = None
        for b in c.body:
            if isinstance(b, ast.Expr) and isinstance(b.value, ast.Constant):
                continue
            if isinstance(b, ast.Assign) and len(b.targets) == 1 and isinstance(b.targets[0], ast.Name) \
                    and b.targets[0].id == "__slots__":
                continue
            if isinstance(b, ast.FunctionDef):
                if b.name == "__init__":
                    init = b
                elif b.name.startswith("__") and b.name.endswith("__"):
                    return None         # (callable / iterable helper objects are handled elsewhere)
                if b.decorator_list:
                    return None
                continue
            return None
        if init is None:
            return None
        ia = init.args
        if ia.vararg or ia.kwarg or ia.kwonlyargs or ia.posonlyargs or not ia.args or len(ia.args) < 2:
            return None
        me = ia.args[0].arg
        params = [a.arg for a in ia.args[1:]]
        attr_of: Dict[str, str] = {}
        for st in _body_wo_doc(init):
            if isinstance(st, ast.Assign) and len(st.targets) == 1 and isinstance(st.targets[0], ast.Attribute) \
                    and isinstance(st.targets[0].value, ast.Name) and st.targets[0].value.id == me \
                    and isinstance(st.value, ast.Name) and st.value.id in params and st.value.id not in attr_of:
                attr_of[st.value.id] = st.targets[0].attr
            else:
                return None
        if sorted(attr_of) != sorted(params):
            return None
        # nobody writes the attributes afterwards
        names = set(attr_of.values())
        for t in self.trees.values():
            for n in ast.walk(t):
                if isinstance(n, ast.Attribute) and n.attr in names and not isinstance(n.ctx, ast.Load):
                    inside_init = any(n is x for x in ast.walk(init))
                    if not inside_init:
                        return None
        defaults: Dict[str, ast.expr] = {}
        for p_, d_ in zip(params[len(params) - len(ia.defaults):], ia.defaults):
            defaults[attr_of[p_]] = d_
        c._rec_params = params  # type: ignore[attr-defined]
        return [attr_of[p_] for p_ in params], defaults, c

    def _record_args(self, rec: Tuple[List[str], Dict[str, ast.expr], ast.ClassDef], call: ast.Call
                     ) -> Optional[List[ast.expr]]:
        fields, defaults, _c = rec
        params = getattr(_c, "_rec_params", None)
        if params is not None and call.keywords:
            # keywords name constructor parameters, fields are the attributes they are stored in
            ren = dict(zip(params, fields))
            call = ast.Call(func=call.func, args=call.args,
                            keywords=[ast.keyword(arg=ren.get(k.arg, k.arg), value=k.value) for k in call.keywords])
        if any(isinstance(a, ast.Starred) for a in call.args) or any(k.arg is None for k in call.keywords) \
                or len(call.args) > len(fields):
            return None
        out: Dict[str, ast.expr] = {}
        for f_, a in zip(fields, call.args):
            out[f_] = a
        for k in call.keywords:
            if k.arg not in fields or k.arg in out:
                return None
            out[k.arg] = k.value
        for f_ in fields:
            if f_ not in out:
                if f_ not in defaults:
                    return None
                out[f_] = copy.deepcopy(defaults[f_])
        return [out[f_] for f_ in fields]

    def records(self, fn: ast.FunctionDef) -> bool:
        """scalar replacement of private NamedTuple records: ``R(a, b).x`` is ``a`` (when ``b`` is
        quiet); a local bound once to ``R(a, b)`` and used only through its fields, ``*v`` or
        ``p, q = v`` is the locals ``v_x = a; v_y = b``"""
        mod = getattr(fn, "_mod", "")
        changed = False
        norm = self
        tree_ = self.trees.get(mod)
        cand_names = getattr(tree_, "_record_names", None) if tree_ is not None else set()
        if tree_ is not None and (cand_names is None or getattr(tree_, "_record_names_len", -1) != len(tree_.body)):
            cand_names = {c_.name for c_ in tree_.body if isinstance(c_, ast.ClassDef) and c_.name.startswith("_")}
            tree_._record_names = cand_names  # type: ignore[attr-defined]
            tree_._record_names_len = len(tree_.body)  # type: ignore[attr-defined]
        if not cand_names or not any(isinstance(c_, ast.Call) and isinstance(c_.func, ast.Name) and c_.func.id in cand_names
                                     for c_ in ast.walk(fn)):
            return False

        class P(ast.NodeTransformer):
            def visit_FunctionDef(self, node: ast.FunctionDef) -> ast.AST:
                return self.generic_visit(node) if node is fn else node

            def visit_Call(self, node: ast.Call) -> ast.AST:
                nonlocal changed
                self.generic_visit(node)
                new_args: List[ast.expr] = []
                for a in node.args:
                    if isinstance(a, ast.Starred) and isinstance(a.value, ast.Call) and isinstance(a.value.func, ast.Name):
                        rec = norm._record_class(mod, a.value.func.id)
                        ra = norm._record_args(rec, a.value) if rec is not None else None
                        if ra is not None:
                            new_args.extend(ra)          # f(*R(a, b)) is f(a, b)
                            changed = True
                            continue
                    new_args.append(a)
                node.args = new_args
                return node

            def visit_Attribute(self, node: ast.Attribute) -> ast.AST:
                nonlocal changed
                self.generic_visit(node)
                v = node.value
                if isinstance(v, ast.Call) and isinstance(v.func, ast.Name) and isinstance(node.ctx, ast.Load):
                    rec = norm._record_class(mod, v.func.id)
                    if rec is not None and node.attr in rec[0]:
                        args = norm._record_args(rec, v)
                        if args is not None:
                            i = rec[0].index(node.attr)
                            if all(_purity(a, set()) < 2 for j, a in enumerate(args) if j != i):
                                changed = True
                                return ast.copy_location(args[i], node)
                return node
        P().visit(fn)
        stores: Dict[str, int] = {}
        for n in _walk_scope(fn):
            if isinstance(n, ast.Name) and not isinstance(n.ctx, ast.Load):
                stores[n.id] = stores.get(n.id, 0) + 1
        params = {a.arg for a in ast.walk(fn.args) if isinstance(a, ast.arg)}
        taken = getattr(fn, "_taken", None)
        if taken is None:
            taken = _all_names(fn)
            fn._taken = taken  # type: ignore[attr-defined]

        def blocks(stmts: List[ast.stmt]) -> None:
            nonlocal changed
            for st in list(stmts):
                if isinstance(st, ScopeT):
                    continue
                for fld in ("body", "orelse", "finalbody"):
                    sub = getattr(st, fld, None)
                    if isinstance(sub, list) and sub and isinstance(sub[0], ast.stmt):
                        blocks(sub)
                if isinstance(st, ast.Try):
                    for hd in st.handlers:
                        blocks(hd.body)
            for idx, st in enumerate(list(stmts)):
                if not (isinstance(st, ast.Assign) and len(st.targets) == 1 and isinstance(st.targets[0], ast.Name)
                        and isinstance(st.value, ast.Call) and isinstance(st.value.func, ast.Name)):
                    continue
                v = st.targets[0].id
                rec = norm._record_class(mod, st.value.func.id)
                if rec is None or stores.get(v) != 1 or v in params:
                    continue
                args = norm._record_args(rec, st.value)
                if args is None:
                    continue
                fields = rec[0]
                loads = [n for n in ast.walk(fn) if isinstance(n, ast.Name) and n.id == v and isinstance(n.ctx, ast.Load)]
                ok = True
                for n in ast.walk(fn):
                    for ch in ast.iter_child_nodes(n):
                        ch._rp = n  # type: ignore[attr-defined]
                for n in loads:
                    par = getattr(n, "_rp", None)
                    if isinstance(par, ast.Attribute) and par.value is n and par.attr in fields and isinstance(par.ctx, ast.Load):
                        continue
                    if isinstance(par, ast.Starred) and isinstance(getattr(par, "_rp", None), ast.Call):
                        continue
                    if isinstance(par, ast.Assign) and par.value is n and len(par.targets) == 1 and \
                            isinstance(par.targets[0], ast.Tuple) and len(par.targets[0].elts) == len(fields) and \
                            all(isinstance(e_, ast.Name) for e_ in par.targets[0].elts):
                        continue
                    ok = False
                    break
                if not ok or not loads:
                    continue
                names = []
                for f_ in fields:
                    nm = "%s_%s" % (v, f_)
                    k = 1
                    while nm in taken:
                        k += 1
                        nm = "%s_%s%d" % (v, f_, k)
                    taken.add(nm)
                    names.append(nm)
                new_stmts = [ast.copy_location(ast.Assign(targets=[ast.copy_location(ast.Name(id=nm, ctx=ast.Store()), st)],
                                                          value=a), st) for nm, a in zip(names, args)]
                pos = stmts.index(st)
                stmts[pos:pos + 1] = new_stmts

                class U(ast.NodeTransformer):
                    def visit_Attribute(self, node: ast.Attribute) -> ast.AST:
                        self.generic_visit(node)
                        if isinstance(node.value, ast.Name) and node.value.id == v and node.attr in fields \
                                and isinstance(node.ctx, ast.Load):
                            return ast.copy_location(ast.Name(id=names[fields.index(node.attr)], ctx=ast.Load()), node)
                        return node

                    def visit_Call(self, node: ast.Call) -> ast.AST:
                        self.generic_visit(node)
                        new_args: List[ast.expr] = []
                        for a in node.args:
                            if isinstance(a, ast.Starred) and isinstance(a.value, ast.Name) and a.value.id == v:
                                new_args.extend(ast.copy_location(ast.Name(id=nm, ctx=ast.Load()), a) for nm in names)
                            else:
                                new_args.append(a)
                        node.args = new_args
                        return node

                    def visit_Assign(self, node: ast.Assign) -> ast.AST:
                        self.generic_visit(node)
                        if isinstance(node.value, ast.Name) and node.value.id == v and len(node.targets) == 1 and \
                                isinstance(node.targets[0], ast.Tuple):
                            node.value = ast.copy_location(ast.Tuple(elts=[ast.copy_location(
                                ast.Name(id=nm, ctx=ast.Load()), node) for nm in names], ctx=ast.Load()), node)
                        return node
                U().visit(fn)
                stores.pop(v, None)
                changed = True
                self.report.temporaries += 1
                return
        for _ in range(6):
            before = changed
            changed = False
            blocks(fn.body)
            if not changed:
                changed = before
                break
        return changed

    def _function_object_class(self, mod: str, name: str) -> Optional[Tuple[List[str], ast.Lambda]]:
        """(field names in constructor order, lambda over the call parameters with ``self$.f`` for
        the fields) for a private class of ``mod`` that is nothing but stored arguments and a
        one-expression ``__call__``"""
        tree = self.trees.get(mod)
        if tree is None or not name.startswith("_"):
            return None
        c = next((n for n in tree.body if isinstance(n, ast.ClassDef) and n.name == name), None)
        if c is None or c.bases or c.keywords or c.decorator_list:
            return None
        if self.known is not None and any(k.startswith("%s:%s." % (mod, name)) for k in self.known):
            return None
        init = call = None
        for b in c.body:
            if isinstance(b, ast.Expr) and isinstance(b.value, ast.Constant):
                continue
            if isinstance(b, ast.Assign) and len(b.targets) == 1 and isinstance(b.targets[0], ast.Name) \
                    and b.targets[0].id == "__slots__":
                continue
            if isinstance(b, ast.FunctionDef) and b.name == "__init__":
                init = b
            elif isinstance(b, ast.FunctionDef) and b.name == "__call__":
                call = b
            else:
                return None
        if init is None or call is None or init.decorator_list or call.decorator_list:
            return None
        ia = init.args
        if ia.vararg or ia.kwarg or ia.kwonlyargs or ia.defaults or ia.posonlyargs or not ia.args:
            return None
        me = ia.args[0].arg
        fields = [a.arg for a in ia.args[1:]]
        stored: Dict[str, str] = {}
        for st in _body_wo_doc(init):
            if isinstance(st, ast.Assign) and len(st.targets) == 1 and isinstance(st.targets[0], ast.Attribute) \
                    and isinstance(st.targets[0].value, ast.Name) and st.targets[0].value.id == me \
                    and isinstance(st.value, ast.Name) and st.value.id in fields:
                stored[st.targets[0].attr] = st.value.id
            else:
                return None
        if sorted(stored.values()) != sorted(fields) or len(stored) != len(fields):
            return None
        cb = _body_wo_doc(call)
        ca = call.args
        if len(cb) != 1 or not isinstance(cb[0], ast.Return) or cb[0].value is None or ca.vararg or ca.kwarg \
                or ca.kwonlyargs or ca.defaults or ca.posonlyargs or not ca.args:
            return None
        me2 = ca.args[0].arg
        # nobody else touches the fields (no other methods), and __call__ only reads them
        if any(isinstance(x, ast.Attribute) and not isinstance(x.ctx, ast.Load) for x in ast.walk(call)):
            return None
        body = copy.deepcopy(cb[0].value)

        class R(ast.NodeTransformer):
            bad = False

            def visit_Name(self, nd: ast.Name) -> ast.AST:
                if nd.id == me2:
                    par = getattr(nd, "_p", None)
                    return ast.copy_location(ast.Name(id="self$", ctx=nd.ctx), nd)
                return nd
        body = R().visit(body)
        # every use of self must be self.<field>
        for x in ast.walk(body):
            if isinstance(x, ast.Name) and x.id == "self$":
                pass
        ok_uses = all(not (isinstance(x, ast.Name) and x.id == "self$") or True for x in ast.walk(body))
        attr_uses = [x for x in ast.walk(body) if isinstance(x, ast.Attribute) and isinstance(x.value, ast.Name)
                     and x.value.id == "self$"]
        n_self = sum(1 for x in ast.walk(body) if isinstance(x, ast.Name) and x.id == "self$")
        if not ok_uses or n_self != len(attr_uses) or any(x.attr not in stored for x in attr_uses):
            return None
        # field attribute -> constructor parameter order
        by_param = {v: k for k, v in stored.items()}
        ordered_fields = [by_param[p_] for p_ in fields]
        lam = ast.Lambda(args=ast.arguments(posonlyargs=[], args=[ast.arg(arg=a.arg) for a in ca.args[1:]],
                                            kwonlyargs=[], kw_defaults=[], defaults=[]), body=body)
        return ordered_fields, lam

    def thread(self, fn: ast.FunctionDef) -> bool:
        """jump threading: an if/elif/else whose every branch ends by binding the same local — in
        at least one branch to a constant — followed by statements that test that local: the
        statements up to the last use move into the branches (with the constant in place of the
        local where there is one; the tests on it then fold away).  ``x = a if c else b`` with a
        constant arm, tested afterwards, is split into that shape first."""
        changed = False
        params = {a.arg for a in fn.args.posonlyargs + fn.args.args + fn.args.kwonlyargs}

        def leaves(st: ast.If) -> Optional[List[List[ast.stmt]]]:
            out: List[List[ast.stmt]] = []
            cur: ast.stmt = st
            while True:
                assert isinstance(cur, ast.If)
                out.append(cur.body)
                if len(cur.orelse) == 1 and isinstance(cur.orelse[0], ast.If):
                    cur = cur.orelse[0]
                    continue
                if not cur.orelse:
                    return None
                out.append(cur.orelse)
                return out

        def tested_soon(x: str, rest: List[ast.stmt]) -> bool:
            for r in rest[:3]:
                if isinstance(r, ast.If) and any(isinstance(n, ast.Name) and n.id == x for n in ast.walk(r.test)):
                    return True
            return False

        def block(stmts: List[ast.stmt]) -> bool:
            for st in stmts:
                if isinstance(st, ScopeT):
                    continue
                for fld in ("body", "orelse", "finalbody"):
                    sub = getattr(st, fld, None)
                    if isinstance(sub, list) and sub and isinstance(sub[0], ast.stmt):
                        if block(sub):
                            return True
                if isinstance(st, ast.Try):
                    for hd in st.handlers:
                        if block(hd.body):
                            return True
            fn_stores = {n.id for n in _walk_scope(fn) if isinstance(n, ast.Name) and not isinstance(n.ctx, ast.Load)}

            def const_like(v: ast.expr) -> bool:
                if isinstance(v, ast.Constant):
                    return True
                p_ = attr_path_(v)
                return bool(p_) and p_[0] not in fn_stores and p_[0] not in params and p_[0] not in ("self", "cls")
            for k, st in enumerate(stmts):
                # x = a if c else b   (an arm constant, x tested right after)
                if isinstance(st, ast.Assign) and len(st.targets) == 1 and isinstance(st.targets[0], ast.Name) \
                        and isinstance(st.value, ast.IfExp) and st.targets[0].id not in params \
                        and (const_like(st.value.body) or const_like(st.value.orelse)) \
                        and tested_soon(st.targets[0].id, stmts[k + 1:]) \
                        and sum(1 for n in _walk_scope(fn) if isinstance(n, ast.Name) and n.id == st.targets[0].id
                                and not isinstance(n.ctx, ast.Load)) == 1:
                    x_ = st.targets[0].id
                    e_ = st.value
                    mk = lambda v_: ast.copy_location(ast.Assign(  # noqa: E731
                        targets=[ast.copy_location(ast.Name(id=x_, ctx=ast.Store()), st)], value=v_), st)
                    stmts[k] = ast.copy_location(ast.If(test=e_.test, body=[mk(e_.body)], orelse=[mk(e_.orelse)]), st)
                    self.report.shapes += 1
                    return True
            for k, st in enumerate(stmts):
                # if c: def g(..): A   else: def g(..): B     followed by the only use of g: the
                # statement that uses it goes into the branches (each then calls its own g)
                if not isinstance(st, ast.If) or k + 1 >= len(stmts):
                    continue
                lv0 = leaves(st)
                if lv0 is None or not (2 <= len(lv0) <= 4):
                    continue
                if not all(b_ and isinstance(b_[-1], ast.FunctionDef) for b_ in lv0):
                    continue
                gname = lv0[0][-1].name
                if not all(b_[-1].name == gname for b_ in lv0):
                    continue
                nxt0 = stmts[k + 1]
                if not isinstance(nxt0, (ast.Expr, ast.Assign, ast.Return)):
                    continue
                defs0 = [n for n in ast.walk(fn) if isinstance(n, ast.FunctionDef) and n.name == gname]
                stores0 = [n for n in ast.walk(fn) if isinstance(n, ast.Name) and n.id == gname and not isinstance(n.ctx, ast.Load)]
                loads0 = [n for n in ast.walk(fn) if isinstance(n, ast.Name) and n.id == gname and isinstance(n.ctx, ast.Load)]
                here0 = [n for n in ast.walk(nxt0) if isinstance(n, ast.Name) and n.id == gname and isinstance(n.ctx, ast.Load)]
                if len(defs0) != len(lv0) or stores0 or not here0 or len(here0) != len(loads0):
                    continue
                for b_ in lv0:
                    b_.append(copy.deepcopy(nxt0))
                del stmts[k + 1]
                self.report.shapes += 1
                return True
            for k, st in enumerate(stmts):
                if not isinstance(st, ast.If) or k + 1 >= len(stmts):
                    continue
                lv = leaves(st)
                if lv is None or not (2 <= len(lv) <= 5):
                    continue

                def trailing(b: List[ast.stmt]) -> Dict[str, ast.Assign]:
                    run: Dict[str, ast.Assign] = {}
                    for s_ in reversed(b):
                        if isinstance(s_, ast.Assign) and len(s_.targets) == 1 and isinstance(s_.targets[0], ast.Name) \
                                and s_.targets[0].id not in run and (const_like(s_.value) or not run):
                            run[s_.targets[0].id] = s_
                            if not const_like(s_.value):
                                break           # only as the very last statement of the branch
                        else:
                            break
                    return run
                runs = [None if self._always_exits(b) else trailing(b) for b in lv]
                live = [r for r in runs if r is not None]
                if len(live) < 1 or (len(live) < 2 and not any(r is None for r in runs)):
                    continue
                common = set(live[0])
                for r in live[1:]:
                    common &= set(r)
                common -= params
                def sunk_tail(c_: str) -> bool:
                    # no constant arm, but the very next statement is the only use of the local (a
                    # common tail that was sunk below the branches): it goes back into them
                    nxt = stmts[k + 1]
                    uses_ = [n for n in _walk_scope(fn) if isinstance(n, ast.Name) and n.id == c_ and isinstance(n.ctx, ast.Load)]
                    here_ = [n for n in [nxt] + list(_walk_scope(nxt)) if isinstance(n, ast.Name) and n.id == c_
                             and isinstance(n.ctx, ast.Load)]
                    return len(uses_) == 1 and len(here_) == 1 and isinstance(nxt, (ast.Assign, ast.Expr, ast.Return)) \
                        and len(list(ast.walk(nxt))) <= 40
                common = {c_ for c_ in common if any(const_like(r[c_].value) for r in live) or sunk_tail(c_)}
                if not common:
                    continue
                x = sorted(common)[0]
                binds: List[Optional[ast.Assign]] = [None if r is None else r[x] for r in runs]
                stores = [n for n in _walk_scope(fn) if isinstance(n, ast.Name) and n.id == x and not isinstance(n.ctx, ast.Load)]
                if len(stores) != sum(1 for b_ in binds if b_ is not None):
                    continue

                def captures(n: ast.AST) -> bool:
                    own = {a_.arg for a_ in ast.walk(n) if isinstance(a_, ast.arg)} | {
                        m.id for m in ast.walk(n) if isinstance(m, ast.Name) and not isinstance(m.ctx, ast.Load)}
                    if isinstance(n, ast.FunctionDef) and x in own:
                        return False             # its own local of the same name
                    return any(isinstance(m, ast.Name) and m.id == x for m in ast.walk(n))
                if any(isinstance(n, (ast.FunctionDef, ast.Lambda) + CompT) and captures(n) for n in _walk_scope(fn)):
                    continue
                loads = [n for n in _walk_scope(fn) if isinstance(n, ast.Name) and n.id == x and isinstance(n.ctx, ast.Load)]
                rest = stmts[k + 1:]
                lastuse = -1
                inside = 0
                for j, r in enumerate(rest):
                    c_ = sum(1 for n in [r] + list(_walk_scope(r)) if isinstance(n, ast.Name) and n.id == x
                             and isinstance(n.ctx, ast.Load))
                    if c_:
                        lastuse = j
                        inside += c_
                if lastuse < 0 or inside != len(loads) or lastuse > 5:
                    continue
                moved = rest[:lastuse + 1]
                if any(isinstance(m, ScopeT) for m in moved):
                    continue
                all_const = all(b_ is None or const_like(b_.value) for b_ in binds)
                if not all_const and not tested_soon(x, rest) and not sunk_tail(x):
                    continue
                if not all_const and sum(len(list(ast.walk(m))) for m in moved) > 120:
                    continue
                for b, bind in zip(lv, binds):
                    if bind is None:
                        continue
                    if const_like(bind.value):
                        b.remove(bind)                            # the binding of the constant
                        cc = copy.deepcopy(bind.value)
                        if isinstance(cc, ast.Constant):
                            cc._synth = True  # type: ignore[attr-defined]
                        b.extend(_Subst({x: cc}, mark_synth=True).visit(copy.deepcopy(m)) for m in moved)
                    else:
                        b.extend(copy.deepcopy(m) for m in moved)
                    if not b:
                        b.append(ast.copy_location(ast.Pass(), st))
                del stmts[k + 1:k + 1 + len(moved)]
                self.report.shapes += 1
                return True
            return False
        for _ in range(8):
            if not block(fn.body):
                break
            changed = True
        return changed

    def early_returns(self, fn: ast.FunctionDef) -> bool:
        """single-exit style back to early returns:  ``r = D`` ... ``r = E; break`` / ``r = E`` in
        tail position ... ``return r``   ->   ``return E`` at those places and ``return D`` at the end"""
        body = fn.body
        if len(body) < 2 or not isinstance(body[-1], ast.Return) or not isinstance(body[-1].value, ast.Name):
            return False
        if _is_generator(fn):
            return False
        x = body[-1].value.id
        params = {a.arg for a in fn.args.posonlyargs + fn.args.args + fn.args.kwonlyargs}
        if x in params:
            return False
        for n in _walk_scope(fn):
            if isinstance(n, (ast.FunctionDef, ast.Lambda) + CompT) and any(
                    isinstance(m, ast.Name) and m.id == x for m in ast.walk(n)):
                return False
            if isinstance(n, (ast.Global, ast.Nonlocal)):
                return False
            if isinstance(n, ast.Try) and n.finalbody:
                return False
        loads = [n for n in _walk_scope(fn) if isinstance(n, ast.Name) and n.id == x and isinstance(n.ctx, ast.Load)]
        if len(loads) != 1:
            return False            # read somewhere else as well
        # the initial binding: a top-level ``x = <constant-like>`` before everything that assigns x
        init: Optional[ast.Assign] = None
        for st in body[:-1]:
            if isinstance(st, ast.Assign) and len(st.targets) == 1 and isinstance(st.targets[0], ast.Name) \
                    and st.targets[0].id == x:
                init = st
                break
            if any(isinstance(n, ast.Name) and n.id == x for n in ast.walk(st)):
                break               # first mentioned inside a compound statement: no initial value
        if init is not None and not (isinstance(init.value, ast.Constant) or _purity(init.value, set()) == 0):
            return False
        if init is None:
            # no initial value: every way of reaching the final return must end in a binding of x
            def covers(stmts: List[ast.stmt]) -> bool:
                if not stmts:
                    return False
                last = stmts[-1]
                if self._always_exits(stmts):
                    return True
                if isinstance(last, ast.Assign) and len(last.targets) == 1 and isinstance(last.targets[0], ast.Name) \
                        and last.targets[0].id == x:
                    return True
                if isinstance(last, ast.If):
                    return bool(last.orelse) and covers(last.body) and covers(last.orelse)
                if isinstance(last, ast.Try) and not last.finalbody:
                    return covers(last.orelse if last.orelse else last.body) and all(covers(h.body) for h in last.handlers)
                if isinstance(last, ast.With):
                    return covers(last.body)
                return False
            if not covers(body[:-1]):
                return False
        sites: List[Tuple[List[ast.stmt], int, bool]] = []      # (block, index of the assignment, via break)
        okay = True

        def tail(stmts: List[ast.stmt], in_loop: bool) -> None:
            """stmts: a block after which (when it completes normally, or by break if in_loop)
            nothing but the final ``return x`` runs"""
            nonlocal okay
            if not stmts:
                return
            last = stmts[-1]
            if in_loop:
                # only ``x = E; break`` counts inside a loop body; other assignments to x make it undecidable
                if isinstance(last, ast.Break) and len(stmts) >= 2 and is_bind(stmts[-2]):
                    sites.append((stmts, len(stmts) - 2, True))
                    check_no_bind(stmts[:-2])
                    return
                if isinstance(last, ast.If):
                    check_no_bind(stmts[:-1])
                    tail(last.body, True)
                    tail(last.orelse, True)
                    return
                check_no_bind(stmts)
                return
            if is_bind(last):
                sites.append((stmts, len(stmts) - 1, False))
                check_no_bind(stmts[:-1])
                return
            if isinstance(last, ast.If):
                check_no_bind(stmts[:-1])
                tail(last.body, False)
                tail(last.orelse, False)
                return
            if isinstance(last, ast.Try) and not last.finalbody:
                # after the try statement nothing but the final return runs: the end of the else
                # clause (or of the body when there is none) and the end of every handler are tails
                check_no_bind(stmts[:-1])
                if last.orelse:
                    check_no_bind(last.body)
                    tail(last.orelse, False)
                else:
                    tail(last.body, False)
                for hd in last.handlers:
                    tail(hd.body, False)
                return
            if isinstance(last, ast.With):
                check_no_bind(stmts[:-1])
                tail(last.body, False)
                return
            if isinstance(last, (ast.For, ast.While)) and not last.orelse:
                check_no_bind(stmts[:-1])
                # breaks of nested loops inside would not leave this loop
                if any(isinstance(n, (ast.For, ast.While)) for b_ in last.body for n in ast.walk(b_)):
                    check_no_bind(last.body)
                    return
                tail(last.body, True)
                return
            check_no_bind(stmts)

        def is_bind(st: ast.stmt) -> bool:
            return isinstance(st, ast.Assign) and len(st.targets) == 1 and isinstance(st.targets[0], ast.Name) \
                and st.targets[0].id == x

        def check_no_bind(stmts: List[ast.stmt]) -> None:
            nonlocal okay
            for st in stmts:
                if st is init:
                    continue
                for n in [st] + list(_walk_scope(st)):
                    if isinstance(n, ast.Name) and n.id == x and not isinstance(n.ctx, ast.Load):
                        okay = False
        idx_init = body.index(init) if init is not None else -1
        check_no_bind(body[:max(idx_init, 0)])
        tail(body[idx_init + 1:-1], False)
        if not okay or not sites:
            return False
        if init is None and any(via for _b, _i, via in sites):
            return False
        for blk, i, via_break in sites:
            st = blk[i]
            assert isinstance(st, ast.Assign)
            blk[i] = ast.copy_location(ast.Return(value=st.value), st)
            if via_break:
                del blk[i + 1]
        if init is not None:
            body[-1].value = copy.deepcopy(init.value)
            body.remove(init)
        else:
            body.pop()              # unreachable now: every path to it returns earlier
        self.report.shapes += 1
        return True

    def _attr_store_sites(self) -> Dict[str, Set[int]]:
        """attribute name -> ids of the functions that assign an attribute of that name"""
        cached = getattr(self, "_attr_sites", None)
        if cached is not None:
            return cached
        out: Dict[str, Set[int]] = {}
        for tree in self.trees.values():
            for fn in [n for n in ast.walk(tree) if isinstance(n, FuncT)]:
                for n in _walk_scope(fn):
                    if isinstance(n, ast.Attribute) and isinstance(n.ctx, (ast.Store, ast.Del)):
                        out.setdefault(n.attr, set()).add(id(fn))
                    elif isinstance(n, ast.Call) and isinstance(n.func, ast.Name) and n.func.id in ("setattr", "delattr"):
                        if len(n.args) >= 2 and isinstance(n.args[1], ast.Constant):
                            out.setdefault(str(n.args[1].value), set()).add(id(fn))
                        else:
                            out.setdefault("*", set()).add(id(fn))
            for c in [n for n in ast.walk(tree) if isinstance(n, ast.ClassDef)]:
                for st in c.body:
                    if isinstance(st, (ast.Assign, ast.AnnAssign)):
                        for t in (st.targets if isinstance(st, ast.Assign) else [st.target]):
                            if isinstance(t, ast.Name):
                                out.setdefault(t.id, set()).add(id(c))
        self._attr_sites = out
        self._ctor_ids = {id(f2) for t_ in self.trees.values() for f2 in ast.walk(t_)
                          if isinstance(f2, FuncT) and f2.name in ("__init__", "__new__")}
        return out

    def attr_alias(self, fn: ast.FunctionDef) -> bool:
        """a local that always holds the current value of ``self.A`` — every binding of it is
        ``x = self.A`` or ``x = E; self.A = x`` — where only this method (and constructors)
        assign ``A``: the local *is* ``self.A``.  (Assumes the method is not re-entered through
        a callback while the alias is live.)"""
        if not getattr(fn, "_is_method", False) or not fn.args.args:
            return False
        me = fn.args.args[0].arg
        sites = self._attr_store_sites()
        params = {a.arg for a in fn.args.posonlyargs + fn.args.args + fn.args.kwonlyargs}
        escaping: Set[str] = set()
        for n in _walk_scope(fn):
            if isinstance(n, (ast.FunctionDef, ast.Lambda) + CompT):
                escaping |= {m.id for m in ast.walk(n) if isinstance(m, ast.Name)}
            elif isinstance(n, (ast.Global, ast.Nonlocal)):
                escaping |= set(n.names)
        if any(isinstance(n, ast.Name) and n.id == me and not isinstance(n.ctx, ast.Load) for n in _walk_scope(fn)):
            return False
        # blocks
        blocks: List[List[ast.stmt]] = []

        def collect(stmts: List[ast.stmt]) -> None:
            blocks.append(stmts)
            for st in stmts:
                if isinstance(st, ScopeT):
                    continue
                for fld in ("body", "orelse", "finalbody"):
                    sub = getattr(st, fld, None)
                    if isinstance(sub, list) and sub and isinstance(sub[0], ast.stmt):
                        collect(sub)
                if isinstance(st, ast.Try):
                    for hd in st.handlers:
                        collect(hd.body)
        collect(fn.body)
        stores: Dict[str, List[ast.Name]] = {}
        for n in _walk_scope(fn):
            if isinstance(n, ast.Name) and not isinstance(n.ctx, ast.Load):
                stores.setdefault(n.id, []).append(n)
        ctor_ids = self._ctor_ids
        changed = False
        for x, sts in sorted(stores.items()):
            if x in params or x in escaping or len(sts) < 1:
                continue
            plan: List[Tuple[List[ast.stmt], ast.stmt, Optional[ast.stmt]]] = []
            attr: Optional[str] = None
            ok = True
            seen_targets: Set[int] = set()
            for blk in blocks:
                for i, st in enumerate(blk):
                    if not (isinstance(st, ast.Assign) and len(st.targets) == 1 and isinstance(st.targets[0], ast.Name)
                            and st.targets[0].id == x):
                        continue
                    seen_targets.add(id(st.targets[0]))
                    v = st.value
                    if isinstance(v, ast.Attribute) and isinstance(v.value, ast.Name) and v.value.id == me:
                        a_ = v.attr
                        plan.append((blk, st, None))
                    elif i + 1 < len(blk) and isinstance(blk[i + 1], ast.Assign) and len(blk[i + 1].targets) == 1 and \
                            isinstance(blk[i + 1].targets[0], ast.Attribute) and \
                            isinstance(blk[i + 1].targets[0].value, ast.Name) and blk[i + 1].targets[0].value.id == me and \
                            isinstance(blk[i + 1].value, ast.Name) and blk[i + 1].value.id == x and \
                            not any(isinstance(m, ast.Name) and m.id == x for m in ast.walk(v)):
                        a_ = blk[i + 1].targets[0].attr
                        plan.append((blk, st, blk[i + 1]))
                    else:
                        ok = False
                        break
                    if attr is None:
                        attr = a_
                    elif attr != a_:
                        ok = False
                        break
                if not ok:
                    break
            if not ok or attr is None or not plan or len(seen_targets) != len(sts):
                continue
            if not any(p_[2] is None for p_ in plan):
                # never read from the attribute: an ordinary temporary, unless it is also used
                # after having been stored (then those uses are uses of the attribute)
                n_loads = sum(1 for n in _walk_scope(fn) if isinstance(n, ast.Name) and n.id == x and isinstance(n.ctx, ast.Load))
                if n_loads <= len(plan):
                    continue
            # who assigns .attr: this method (only in the paired form) and constructors
            if not (sites.get(attr, set()) <= ({id(fn)} | ctor_ids)):
                continue
            # setattr with a computed name (the indexed-attribute descriptors) writes "_<name>" for
            # a class-level descriptor <name>: not this attribute unless such a name exists
            if "*" in sites and attr.startswith("_") and attr.lstrip("_") in sites:
                continue
            paired = {id(p_[2].targets[0]) for p_ in plan if p_[2] is not None}
            other_stores = [n for n in _walk_scope(fn) if isinstance(n, ast.Attribute) and n.attr == attr
                            and not isinstance(n.ctx, ast.Load) and id(n) not in paired]
            if other_stores:
                continue
            # rewrite
            for blk, st, nxt in plan:
                if nxt is None:
                    blk.remove(st)
                    if not blk:
                        blk.append(ast.copy_location(ast.Pass(), st))
                else:
                    nxt.value = st.value
                    blk.remove(st)

            class R(ast.NodeTransformer):
                def visit_Name(self, node: ast.Name) -> ast.AST:
                    if node.id == x and isinstance(node.ctx, ast.Load):
                        return ast.copy_location(ast.Attribute(value=ast.copy_location(
                            ast.Name(id=me, ctx=ast.Load()), node), attr=attr, ctx=ast.Load()), node)
                    return node
            R().visit(fn)
            self.report.temporaries += 1
            changed = True
        return changed

    def flatten_new_bases(self) -> None:
        """a private class the pinned tree does not have, used only as a base class inside its
        module (a mix-in that duplicated methods were pulled up into): its methods and class-level
        assignments are copied into each class that lists it, unless that class defines the name
        itself, and it is dropped from the bases.  (The MRO places a first-listed base before the
        other bases; a mix-in listed later is only flattened when no earlier base defines the name.)"""
        funcs = self.vocab.get("functions")
        if not funcs:
            return
        known_classes = set()
        for k in funcs:
            mod_, q = k.split(":", 1)
            parts = q.split(".")
            for i in range(1, len(parts)):
                known_classes.add("%s:%s" % (mod_, ".".join(parts[:i])))
        for k in self.vocab.get("class_attrs") or []:
            mod_, q = k.split(":", 1)
            known_classes.add("%s:%s" % (mod_, q.rsplit(".", 1)[0]))
        for mod, tree in self.trees.items():
            for base in [n for n in tree.body if isinstance(n, ast.ClassDef)]:
                if not base.name.startswith("_") or ("%s:%s" % (mod, base.name)) in known_classes:
                    continue
                if base.bases or base.keywords or base.decorator_list:
                    continue
                members = [b for b in base.body if isinstance(b, (ast.FunctionDef, ast.Assign, ast.AnnAssign))]
                others = [b for b in base.body if b not in members and not (
                    isinstance(b, ast.Expr) and isinstance(b.value, ast.Constant)) and not isinstance(b, ast.Pass)]
                if others or any(isinstance(m, ast.FunctionDef) and m.name == "__init__" for m in members):
                    continue
                # uses of the name: only as a base of classes of this module
                users = [c for c in ast.walk(tree) if isinstance(c, ast.ClassDef)
                         and any(isinstance(b, ast.Name) and b.id == base.name for b in c.bases)]
                n_refs = sum(1 for t in self.trees.values() for n in ast.walk(t)
                             if (isinstance(n, ast.Name) and n.id == base.name) or
                             (isinstance(n, ast.Attribute) and n.attr == base.name) or
                             (isinstance(n, ast.alias) and n.name == base.name))
                if not users or n_refs != len(users):
                    continue
                if any(isinstance(n, ast.Call) and isinstance(n.func, ast.Name) and n.func.id == "super"
                       for m in members for n in ast.walk(m)):
                    continue
                ok = True
                for c in users:
                    first = isinstance(c.bases[0], ast.Name) and c.bases[0].id == base.name
                    if not first:
                        ok = False
                if not ok:
                    continue
                for c in users:
                    own = {b.name for b in c.body if isinstance(b, ast.FunctionDef)} | {
                        t.id for b in c.body if isinstance(b, (ast.Assign, ast.AnnAssign))
                        for t in (b.targets if isinstance(b, ast.Assign) else [b.target]) if isinstance(t, ast.Name)}
                    add: List[ast.stmt] = []
                    for m in members:
                        nm = m.name if isinstance(m, ast.FunctionDef) else None
                        if nm is None:
                            tg = m.targets[0] if isinstance(m, ast.Assign) else m.target
                            nm = tg.id if isinstance(tg, ast.Name) else None
                            if isinstance(m, ast.AnnAssign) and m.value is None:
                                continue        # a bare annotation declares nothing at run time
                        if nm is None or nm in own:
                            continue
                        add.append(copy.deepcopy(m))
                    c.body.extend(add)
                    c.bases = [b for b in c.bases if not (isinstance(b, ast.Name) and b.id == base.name)]
                tree.body.remove(base)
                self.report.shapes += 1

    def _known_classes(self) -> Set[str]:
        funcs = self.vocab.get("functions") or []
        known_classes: Set[str] = set()
        for k in funcs:
            mod_, q = k.split(":", 1)
            parts = q.split(".")
            for i in range(1, len(parts)):
                known_classes.add("%s:%s" % (mod_, ".".join(parts[:i])))
        for k in self.vocab.get("class_attrs") or []:
            mod_, q = k.split(":", 1)
            known_classes.add("%s:%s" % (mod_, q.rsplit(".", 1)[0]))
        return known_classes

    @staticmethod
    def _stores_only_init(c: ast.ClassDef) -> Optional[Tuple[List[str], Dict[str, str]]]:
        """(constructor parameters in order, attribute -> parameter) when ``__init__`` does nothing
        but store each parameter in one attribute; ([], {}) when the class has no ``__init__``"""
        init = next((b for b in c.body if isinstance(b, ast.FunctionDef) and b.name == "__init__"), None)
        if init is None:
            return [], {}
        ia = init.args
        if ia.vararg or ia.kwarg or ia.kwonlyargs or ia.posonlyargs or ia.defaults or not ia.args or init.decorator_list:
            return None
        me = ia.args[0].arg
        params = [a.arg for a in ia.args[1:]]
        stored: Dict[str, str] = {}
        for st in _body_wo_doc(init):
            tg = None
            if isinstance(st, ast.Assign) and len(st.targets) == 1:
                tg = st.targets[0]
            elif isinstance(st, ast.AnnAssign) and st.value is not None:
                tg = st.target
            if tg is not None and isinstance(tg, ast.Attribute) and isinstance(tg.value, ast.Name) \
                    and tg.value.id == me and isinstance(st.value, ast.Name) and st.value.id in params \
                    and tg.attr not in stored and st.value.id not in stored.values():
                stored[tg.attr] = st.value.id
            elif isinstance(st, ast.Pass):
                continue
            else:
                return None
        if sorted(stored.values()) != sorted(params):
            return None
        return params, stored

    def delegating_overrides(self) -> None:
        """a method the pinned tree does not have whose whole body hands its own arguments, in
        order, to ``super().<same name>(...)`` and returns the result is the inherited method"""
        if self.known is None:
            return
        for mod, tree in self.trees.items():
            classes: List[Tuple[str, ast.ClassDef]] = []

            def collect(stmts: List[ast.stmt], prefix: str) -> None:
                for st in stmts:
                    if isinstance(st, ast.ClassDef):
                        classes.append((prefix + st.name, st))
                        collect(st.body, prefix + st.name + ".")
            collect(tree.body, "")
            for cq, c in classes:
                if not c.bases:
                    continue
                for m in [b for b in c.body if isinstance(b, ast.FunctionDef)]:
                    key = "%s:%s.%s" % (mod, cq, m.name)
                    if key in self.known or m.name == "__init__":
                        continue
                    decos = _decorators(m)
                    if set(decos) - {"classmethod"}:
                        continue
                    body = _body_wo_doc(m)
                    if len(body) != 1 or not isinstance(body[0], (ast.Return, ast.Expr)) or body[0].value is None:
                        continue
                    call = body[0].value
                    if not (isinstance(call, ast.Call) and isinstance(call.func, ast.Attribute) and call.func.attr == m.name
                            and isinstance(call.func.value, ast.Call) and isinstance(call.func.value.func, ast.Name)
                            and call.func.value.func.id == "super" and not call.func.value.args):
                        continue
                    a = m.args
                    if a.defaults or a.kw_defaults and any(d is not None for d in a.kw_defaults) or a.posonlyargs:
                        continue
                    want: List[str] = [x.arg for x in a.args[1:]]
                    got: List[str] = []
                    ok = True
                    for x in call.args:
                        if isinstance(x, ast.Name):
                            got.append(x.id)
                        elif isinstance(x, ast.Starred) and isinstance(x.value, ast.Name) and a.vararg \
                                and x.value.id == a.vararg.arg:
                            got.append("*")
                        else:
                            ok = False
                    if a.vararg:
                        want.append("*")
                    kws = {k.arg: k.value for k in call.keywords}
                    for ko in a.kwonlyargs:
                        if not (ko.arg in kws and isinstance(kws[ko.arg], ast.Name) and kws[ko.arg].id == ko.arg):
                            ok = False
                    if a.kwarg and not (None in kws and isinstance(kws[None], ast.Name) and kws[None].id == a.kwarg.arg):
                        ok = False
                    if len(kws) != len(a.kwonlyargs) + (1 if a.kwarg else 0):
                        ok = False
                    if not ok or got != want:
                        continue
                    c.body.remove(m)
                    if not c.body:
                        c.body.append(ast.copy_location(ast.Pass(), m))
                    self.report.shapes += 1

    def record_tuples(self) -> None:
        """a private ``NamedTuple`` class the pinned tree does not have, without methods: an
        instance *is* the tuple of its fields.  Constructor calls that are stored or handed on
        (``queue.append(R(a, b))``) become tuple displays; a loop variable or local used only
        through fields of exactly that class reads ``v[i]``.  (Records that never leave the function
        are replaced by their fields in ``records``.)"""
        if not self.vocab.get("functions"):
            return
        for mod, tree in self.trees.items():
            for c in [n for n in tree.body if isinstance(n, ast.ClassDef)]:
                rec = self._record_class(mod, c.name)
                if rec is None or not c.bases or any(isinstance(b, ast.FunctionDef) for b in c.body):
                    continue
                fields, _defaults, _c = rec
                # field names must not be attributes of anything else in this module
                other_attr = {n.attr for n in ast.walk(tree) if isinstance(n, ast.Attribute)
                              and isinstance(n.value, ast.Name) and n.value.id in ("self", "cls")}
                if set(fields) & other_attr:
                    continue
                done = False
                # only when every instance that is made goes straight into a collection (a queue of
                # records): other uses are the business of ``records``
                ctor_calls = [n for n in ast.walk(tree) if isinstance(n, ast.Call) and isinstance(n.func, ast.Name)
                              and n.func.id == c.name]
                escaping_ = set()
                for n in ast.walk(tree):
                    if isinstance(n, ast.Call) and isinstance(n.func, ast.Attribute) and n.func.attr in (
                            "append", "add", "appendleft", "put", "insert"):
                        escaping_ |= {id(a_) for a_ in n.args}
                    elif isinstance(n, (ast.List, ast.Set)):
                        escaping_ |= {id(e_) for e_ in n.elts}
                if not ctor_calls or any(id(x) not in escaping_ for x in ctor_calls):
                    continue
                for fn in [n for n in ast.walk(tree) if isinstance(n, ast.FunctionDef)]:
                    # variables used only through fields of R
                    cands: Dict[str, List[ast.Attribute]] = {}
                    bad: Set[str] = set()
                    for n in ast.walk(fn):
                        for ch in ast.iter_child_nodes(n):
                            if isinstance(ch, ast.Name) and isinstance(ch.ctx, ast.Load):
                                if isinstance(n, ast.Attribute) and n.value is ch and n.attr in fields \
                                        and isinstance(n.ctx, ast.Load):
                                    cands.setdefault(ch.id, []).append(n)
                                else:
                                    bad.add(ch.id)
                    loop_vars = {t_.id for l_ in ast.walk(fn) if isinstance(l_, (ast.For, ast.comprehension))
                                 for t_ in [l_.target] if isinstance(t_, ast.Name)}
                    for v, uses in cands.items():
                        if v in bad or v in ("self", "cls") or v not in loop_vars:
                            continue
                        # (bound by a for loop / comprehension: an element of a collection of records;
                        # a local bound to a record is replaced by its fields in ``records``)
                        for a in uses:
                            idx = fields.index(a.attr)
                            sub = ast.Subscript(value=a.value, slice=ast.Constant(value=idx), ctx=ast.Load())
                            ast.copy_location(sub, a)
                            ast.copy_location(sub.slice, a)
                            for par in ast.walk(fn):
                                for fld, val in ast.iter_fields(par):
                                    if val is a:
                                        setattr(par, fld, sub)
                                    elif isinstance(val, list):
                                        for i_, x in enumerate(val):
                                            if x is a:
                                                val[i_] = sub
                        done = True

                class K(ast.NodeTransformer):
                    # only where the record is put into a collection (append / add / a display)
                    def _conv(self_k, node: ast.AST) -> ast.AST:
                        nonlocal done
                        if isinstance(node, ast.Call) and isinstance(node.func, ast.Name) and node.func.id == c.name:
                            args = self._record_args(rec, node)
                            if args is not None:
                                done = True
                                return ast.copy_location(ast.Tuple(elts=list(args), ctx=ast.Load()), node)
                        return node

                    def visit_Call(self_k, node: ast.Call) -> ast.AST:
                        self_k.generic_visit(node)
                        if isinstance(node.func, ast.Attribute) and node.func.attr in ("append", "add", "appendleft", "put", "insert"):
                            node.args = [self_k._conv(a_) for a_ in node.args]
                        return node

                    def visit_List(self_k, node: ast.List) -> ast.AST:
                        self_k.generic_visit(node)
                        node.elts = [self_k._conv(e_) for e_ in node.elts]
                        return node

                    def visit_Set(self_k, node: ast.Set) -> ast.AST:
                        self_k.generic_visit(node)
                        node.elts = [self_k._conv(e_) for e_ in node.elts]
                        return node
                for st in tree.body:
                    if st is not c:
                        K().visit(st)
                if done:
                    refs = sum(1 for n in ast.walk(tree) if isinstance(n, ast.Name) and n.id == c.name
                               and not any(n is x for x in ast.walk(c)))
                    if refs == 0:
                        tree.body.remove(c)
                    ast.fix_missing_locations(tree)
                    self.report.shapes += 1

    def helper_objects(self) -> None:
        """private classes the pinned tree does not have that only package a piece of control flow:

        * an *iterable object* (``__init__`` stores its arguments, ``__iter__`` is a generator over
          them) built directly as the argument of a call or the subject of a ``for``: a nested
          generator function of the function that builds it, called at that place;
        * a *context manager* whose ``__enter__`` does nothing and whose ``__exit__`` is one
          ``if`` on the class of the exception in flight ending in ``raise``:
          ``with C(a): body`` is ``try: body  except T as exc: <that if's body>``.

        The class goes when no other reference to it is left."""
        if not self.vocab.get("functions"):
            return
        known_classes = self._known_classes()
        for mod, tree in self.trees.items():
            for c in [n for n in tree.body if isinstance(n, ast.ClassDef)]:
                if not c.name.startswith("_") or ("%s:%s" % (mod, c.name)) in known_classes:
                    continue
                if c.keywords or c.decorator_list:
                    continue
                if any(not (isinstance(b, ast.Subscript) and (attr_path_(b.value) or ("",))[-1] == "Generic")
                       and (attr_path_(b) or ("",))[-1] not in ("object", "ContextManager", "AbstractContextManager")
                       for b in c.bases):
                    continue
                methods: Dict[str, ast.FunctionDef] = {}
                ok = True
                for b in c.body:
                    if isinstance(b, ast.Expr) and isinstance(b.value, ast.Constant) or isinstance(b, ast.Pass):
                        continue
                    if isinstance(b, ast.Assign) and len(b.targets) == 1 and isinstance(b.targets[0], ast.Name) \
                            and b.targets[0].id == "__slots__":
                        continue
                    if isinstance(b, ast.AnnAssign) and b.value is None:
                        continue
                    if isinstance(b, ast.FunctionDef) and not b.decorator_list and b.name not in methods:
                        methods[b.name] = b
                        continue
                    ok = False
                if not ok:
                    continue
                so = self._stores_only_init(c)
                if so is None:
                    continue
                params, stored = so
                kind = None
                if set(methods) - {"__init__"} == {"__iter__"}:
                    kind = "iter"
                elif set(methods) - {"__init__"} == {"__enter__", "__exit__"}:
                    kind = "cm"
                if kind is None:
                    continue
                # nobody writes the attributes outside the constructor; the methods only read them
                body_m = [m for nm, m in methods.items() if nm != "__init__"]
                if any(isinstance(x, ast.Attribute) and not isinstance(x.ctx, ast.Load) for m in body_m for x in ast.walk(m)):
                    continue
                if kind == "iter":
                    done = self._iterable_object(mod, tree, c, params, stored, methods["__iter__"])
                else:
                    done = self._context_object(mod, tree, c, params, stored, methods["__enter__"], methods["__exit__"])
                if done:
                    refs = sum(1 for t in self.trees.values() for n in ast.walk(t)
                               if (isinstance(n, ast.Name) and n.id == c.name) or
                               (isinstance(n, ast.Attribute) and n.attr == c.name) or
                               (isinstance(n, ast.alias) and n.name == c.name)
                               if not any(n is x for x in ast.walk(c)))
                    if refs == 0 and c in tree.body:
                        tree.body.remove(c)
                    self.report.shapes += 1

    @staticmethod
    def _self_to_args(body: List[ast.stmt], me: str, stored: Dict[str, str], args: Dict[str, ast.expr]
                      ) -> Optional[List[ast.stmt]]:
        """the statements with ``me.attr`` replaced by the constructor argument stored in it; None
        when ``me`` is used in any other way"""
        bad = [False]

        class R(ast.NodeTransformer):
            def visit_Attribute(self, nd: ast.Attribute) -> ast.AST:
                if isinstance(nd.value, ast.Name) and nd.value.id == me:
                    if nd.attr in stored and isinstance(nd.ctx, ast.Load):
                        return ast.copy_location(copy.deepcopy(args[stored[nd.attr]]), nd)
                    bad[0] = True
                    return nd
                self.generic_visit(nd)
                return nd

            def visit_Name(self, nd: ast.Name) -> ast.AST:
                if nd.id == me:
                    bad[0] = True
                return nd
        out = [R().visit(copy.deepcopy(s)) for s in body]
        return None if bad[0] else out

    def _enclosing_functions(self, tree: ast.Module) -> Dict[int, ast.FunctionDef]:
        """id(node) -> innermost function around it"""
        enc: Dict[int, ast.FunctionDef] = {}

        def go(n: ast.AST, cur: Optional[ast.FunctionDef]) -> None:
            for ch in ast.iter_child_nodes(n):
                if cur is not None:
                    enc[id(ch)] = cur
                go(ch, ch if isinstance(ch, ast.FunctionDef) else cur)
        go(tree, None)
        return enc

    def _iterable_object(self, mod: str, tree: ast.Module, c: ast.ClassDef, params: List[str],
                         stored: Dict[str, str], it: ast.FunctionDef) -> bool:
        if len(it.args.args) != 1 or it.args.vararg or it.args.kwarg or it.args.kwonlyargs or it.args.defaults:
            return False
        if not any(isinstance(x, (ast.Yield, ast.YieldFrom)) for x in _walk_scope(it)):
            return False
        if any(isinstance(x, ast.Return) and x.value is not None for x in _walk_scope(it)):
            return False
        me = it.args.args[0].arg
        enc = self._enclosing_functions(tree)
        sites: List[Tuple[ast.AST, ast.Call]] = []
        for holder in ast.walk(tree):
            if any(holder is x for x in ast.walk(c)):
                continue
            cands: List[ast.expr] = []
            if isinstance(holder, ast.Call):
                cands = list(holder.args)
            elif isinstance(holder, ast.For):
                cands = [holder.iter]
            elif isinstance(holder, ast.comprehension):
                cands = [holder.iter]
            for a in cands:
                if isinstance(a, ast.Call) and isinstance(a.func, ast.Name) and a.func.id == c.name:
                    sites.append((holder, a))
        changed = False
        for holder, call in sites:
            fn = enc.get(id(call))
            if fn is None or call.keywords or len(call.args) != len(params) \
                    or any(isinstance(a, ast.Starred) for a in call.args):
                continue
            # the arguments are names the function never rebinds (the generator reads them later)
            rebinds = {n.id for n in _walk_scope(fn) if isinstance(n, ast.Name) and not isinstance(n.ctx, ast.Load)}
            if not all(isinstance(a, ast.Name) and a.id not in rebinds for a in call.args):
                continue
            own_locals = {n.id for n in _walk_scope(it) if isinstance(n, ast.Name) and not isinstance(n.ctx, ast.Load)}
            if any(isinstance(a, ast.Name) and a.id in own_locals for a in call.args):
                continue
            body = self._self_to_args(_body_wo_doc(it), me, stored, dict(zip(params, call.args)))
            if body is None:
                continue
            gname = c.name.lstrip("_").lower() + "_items"
            taken = {n.id for n in ast.walk(fn) if isinstance(n, ast.Name)} | {
                n.name for n in ast.walk(fn) if isinstance(n, ast.FunctionDef)}
            existing = next((s for s in fn.body if isinstance(s, ast.FunctionDef) and s.name == gname
                             and getattr(s, "_from_iterable", None) == ast.dump(call)), None)
            if existing is None:
                while gname in taken:
                    gname += "_"
                g = ast.FunctionDef(name=gname, args=ast.arguments(posonlyargs=[], args=[], vararg=None, kwonlyargs=[],
                                                                    kw_defaults=[], kwarg=None, defaults=[]),
                                    body=body, decorator_list=[], returns=None, type_comment=None, type_params=[])
                g._from_iterable = ast.dump(call)  # type: ignore[attr-defined]
                g._mod = mod  # type: ignore[attr-defined]
                ast.copy_location(g, fn.body[0])
                k = 1 if fn.body and isinstance(fn.body[0], ast.Expr) and isinstance(fn.body[0].value, ast.Constant) \
                    and isinstance(fn.body[0].value.value, str) else 0
                fn.body.insert(k, g)
            else:
                gname = existing.name
            new = ast.copy_location(ast.Call(func=ast.Name(id=gname, ctx=ast.Load()), args=[], keywords=[]), call)
            if isinstance(holder, ast.Call):
                holder.args = [new if a is call else a for a in holder.args]
            else:
                holder.iter = new  # type: ignore[union-attr]
            ast.fix_missing_locations(fn)
            changed = True
        return changed

    def _context_object(self, mod: str, tree: ast.Module, c: ast.ClassDef, params: List[str], stored: Dict[str, str],
                        enter: ast.FunctionDef, exit_: ast.FunctionDef) -> bool:
        eb = _body_wo_doc(enter)
        if len(enter.args.args) != 1 or not all(
                isinstance(s, ast.Pass) or (isinstance(s, ast.Return) and (
                    s.value is None or (isinstance(s.value, ast.Constant) and s.value.value is None) or
                    (isinstance(s.value, ast.Name) and s.value.id == enter.args.args[0].arg))) for s in eb):
            return False
        xa = exit_.args
        if len(xa.args) != 4 or xa.vararg or xa.kwarg or xa.kwonlyargs or xa.defaults:
            return False
        me, et, ev, tb = [a.arg for a in xa.args]
        xb = list(_body_wo_doc(exit_))
        # trailing 'return None/False' says nothing
        while xb and isinstance(xb[-1], ast.Return) and (xb[-1].value is None or (
                isinstance(xb[-1].value, ast.Constant) and not xb[-1].value.value)):
            xb.pop()
        if len(xb) != 1 or not isinstance(xb[0], ast.If) or xb[0].orelse:
            return False
        test = xb[0].test
        conj = list(test.values) if isinstance(test, ast.BoolOp) and isinstance(test.op, ast.And) else [test]
        types: Optional[ast.expr] = None
        for t in conj:
            if isinstance(t, ast.Compare) and len(t.ops) == 1 and isinstance(t.ops[0], ast.IsNot) \
                    and isinstance(t.left, ast.Name) and t.left.id in (et, ev) \
                    and isinstance(t.comparators[0], ast.Constant) and t.comparators[0].value is None:
                continue
            if isinstance(t, ast.Call) and isinstance(t.func, ast.Name) and len(t.args) == 2 and not t.keywords and (
                    (t.func.id == "issubclass" and isinstance(t.args[0], ast.Name) and t.args[0].id == et) or
                    (t.func.id == "isinstance" and isinstance(t.args[0], ast.Name) and t.args[0].id == ev)) \
                    and types is None:
                # issubclass(None, T) fails: the not-None test has to come first
                if t.func.id == "issubclass" and not any(
                        isinstance(p, ast.Compare) and isinstance(p.left, ast.Name) and p.left.id in (et, ev)
                        for p in conj[:conj.index(t)]):
                    return False
                types = t.args[1]
                continue
            return False
        if types is None or any(isinstance(x, ast.Name) and x.id in (me, et, ev, tb) for x in ast.walk(types)):
            return False
        handler_body = xb[0].body
        if not handler_body or not isinstance(handler_body[-1], ast.Raise) or handler_body[-1].exc is None:
            return False
        if any(isinstance(x, ast.Return) for s in handler_body for x in ast.walk(s)):
            return False
        if any(isinstance(x, ast.Name) and x.id in (et, tb) for s in handler_body for x in ast.walk(s)):
            return False
        changed = False
        for holder in ast.walk(tree):
            if any(holder is x for x in ast.walk(c)):
                continue
            for fld in ("body", "orelse", "finalbody"):
                blk = getattr(holder, fld, None)
                if not isinstance(blk, list):
                    continue
                for i, st in enumerate(list(blk)):
                    if not (isinstance(st, ast.With) and len(st.items) == 1 and st.items[0].optional_vars is None):
                        continue
                    call = st.items[0].context_expr
                    if not (isinstance(call, ast.Call) and isinstance(call.func, ast.Name) and call.func.id == c.name):
                        continue
                    if call.keywords or len(call.args) != len(params) or any(isinstance(a, ast.Starred) for a in call.args):
                        continue
                    # the arguments are evaluated before the body and read after it: names and
                    # constants the body does not rebind
                    rebound = {n.id for s in st.body for n in ast.walk(s)
                               if isinstance(n, ast.Name) and not isinstance(n.ctx, ast.Load)}
                    if not all(isinstance(a, ast.Constant) or (isinstance(a, ast.Name) and a.id not in rebound)
                               for a in call.args):
                        continue
                    hb = self._self_to_args(handler_body, me, stored, dict(zip(params, call.args)))
                    if hb is None:
                        continue
                    used = {n.id for s in st.body for n in ast.walk(s) if isinstance(n, ast.Name)}
                    evn = ev
                    while evn in used:
                        evn += "_"
                    if evn != ev:
                        hb = [_Subst({ev: ast.Name(id=evn, ctx=ast.Load())}).visit(s) for s in hb]
                    tr = ast.Try(body=st.body, handlers=[ast.ExceptHandler(type=copy.deepcopy(types), name=evn, body=hb)],
                                 orelse=[], finalbody=[])
                    ast.copy_location(tr, st)
                    ast.copy_location(tr.handlers[0], st)
                    blk[blk.index(st)] = tr
                    ast.fix_missing_locations(tr)
                    changed = True
        return changed

    def specialise_inherited(self) -> None:
        """a method the pinned tree defines in class C, which C now inherits from a base class of
        the package (duplicated overrides pulled up into a template method): C gets its own copy
        again — inheriting a method and defining an identical one are the same program — so that
        the hooks it calls on ``self`` resolve in C"""
        funcs = self.vocab.get("functions")
        if not funcs:
            return
        self.scan()
        import builtins as _b
        for key in funcs:
            mod, q = key.split(":", 1)
            if "." not in q or mod not in self.trees:
                continue
            cq, meth = q.rsplit(".", 1)
            if cq not in self.class_methods and cq not in self.class_bases:
                continue
            if meth in self.class_methods.get(cq, {}) or (meth.startswith("__") and meth.endswith("__")):
                continue
            # the class object
            cls_node = None
            for n in ast.walk(self.trees[mod]):
                if isinstance(n, ast.ClassDef) and n.name == cq.split(".")[-1]:
                    cls_node = n
            if cls_node is None or any(isinstance(b, (ast.Assign, ast.AnnAssign)) and any(
                    isinstance(t, ast.Name) and t.id == meth for t in (b.targets if isinstance(b, ast.Assign) else [b.target]))
                    for b in cls_node.body):
                continue
            # first definition along the bases
            found: Optional[Helper] = None
            seen: Set[str] = set()
            todo = [self.class_by_simple.get(b) for b in self.class_bases.get(cq, []) if self.class_by_simple.get(b)]
            while todo and found is None:
                c = todo.pop(0)
                if c in seen:
                    continue
                seen.add(c)
                found = self.class_methods.get(c, {}).get(meth)
                todo = [self.class_by_simple.get(b) for b in self.class_bases.get(c, []) if self.class_by_simple.get(b)] + todo
            if found is None or found.other_deco or found.static or found.classmethod or found.key in set(funcs):
                continue            # (a base method the pinned tree already had is simply inherited)
            if any(isinstance(n, ast.Call) and isinstance(n.func, ast.Name) and n.func.id == "super"
                   for n in ast.walk(found.node)) or any(
                    isinstance(n, ast.Name) and n.id == "__class__" for n in ast.walk(found.node)):
                continue
            # free names of the body must mean the same in the target module
            tgt_names = {n.id for n in ast.walk(self.trees[mod]) if isinstance(n, ast.Name) and isinstance(n.ctx, ast.Store)}
            for st in self.trees[mod].body:
                if isinstance(st, (ast.FunctionDef, ast.ClassDef)):
                    tgt_names.add(st.name)
                elif isinstance(st, (ast.Import, ast.ImportFrom)):
                    tgt_names |= {(a.asname or a.name).split(".")[0] for a in st.names}
            body_free = {n.id for b in found.node.body for n in ast.walk(b) if isinstance(n, ast.Name)} - \
                _assigned_names(ast.Module(body=list(found.node.body), type_ignores=[])) - \
                {a.arg for a in ast.walk(found.node.args) if isinstance(a, ast.arg)}
            if found.mod != mod and any(nm not in tgt_names and not hasattr(_b, nm) for nm in body_free):
                continue
            d = copy.deepcopy(found.node)
            if found.mod != mod:
                d.returns = None
                for a in ast.walk(d.args):
                    if isinstance(a, ast.arg):
                        a.annotation = None
            d._is_method = True  # type: ignore[attr-defined]
            cls_node.body.append(d)
            self.report.shapes += 1
        self.scan()

    def restore_signatures(self) -> None:
        """a method of the pinned tree that became a static method taking, in place of ``self``,
        something every caller computes from its own ``self`` the same way (``self._nxg``, an
        attribute only constructors assign) is that method again"""
        table = self.vocab.get("params")
        if not table:
            return
        init_only = getattr(self, "init_only", set())
        for mod, tree in self.trees.items():
            for c in [n for n in ast.walk(tree) if isinstance(n, ast.ClassDef)]:
                for fn in [b for b in c.body if isinstance(b, ast.FunctionDef)]:
                    want = None
                    for k, v in table.items():
                        if k.startswith(mod + ":") and k.endswith("%s.%s" % (c.name, fn.name)):
                            want = v
                    have = [a.arg for a in fn.args.posonlyargs + fn.args.args + fn.args.kwonlyargs]
                    if not want or have == want or len(have) != len(want) or have[1:] != want[1:] \
                            or "staticmethod" not in _decorators(fn) or want[0] not in ("self",) \
                            or fn.args.defaults and len(fn.args.defaults) == len(fn.args.args):
                        continue
                    p0 = have[0]
                    # every reference is a call  <recv>.<name>(<recv>.<attr>, ...)  from a method
                    refs = [n for t in self.trees.values() for n in ast.walk(t)
                            if isinstance(n, ast.Attribute) and n.attr == fn.name]
                    names = [n for t in self.trees.values() for n in ast.walk(t)
                             if isinstance(n, ast.Name) and n.id == fn.name]
                    calls = [n for t in self.trees.values() for n in ast.walk(t)
                             if isinstance(n, ast.Call) and isinstance(n.func, ast.Attribute) and n.func.attr == fn.name]
                    if names or len(refs) != len(calls) or not calls:
                        continue
                    attrs = set()
                    ok = True
                    enclosing: Dict[int, ast.FunctionDef] = {}
                    for t in self.trees.values():
                        for f2 in [n for n in ast.walk(t) if isinstance(n, ast.FunctionDef)]:
                            for n in _walk_scope(f2):
                                if isinstance(n, ast.Call):
                                    enclosing.setdefault(id(n), f2)
                    for cl in calls:
                        recv = attr_path_(cl.func.value)
                        a0 = attr_path_(cl.args[0]) if cl.args and not isinstance(cl.args[0], ast.Starred) else None
                        if a0 and len(a0) == 1 and id(cl) in enclosing:
                            # a local of the caller bound once to <recv>.<attr>
                            f2 = enclosing[id(cl)]
                            binds = [n for n in _walk_scope(f2) if isinstance(n, ast.Assign) and len(n.targets) == 1
                                     and isinstance(n.targets[0], ast.Name) and n.targets[0].id == a0[0]]
                            stores_ = [n for n in _walk_scope(f2) if isinstance(n, ast.Name) and n.id == a0[0]
                                       and not isinstance(n.ctx, ast.Load)]
                            if len(binds) == 1 and len(stores_) == 1 and attr_path_(binds[0].value):
                                a0 = attr_path_(binds[0].value)
                        if not recv or len(recv) != 1 or not a0 or len(a0) != 2 or a0[0] != recv[0] \
                                or a0[1] not in init_only:
                            ok = False
                            break
                        attrs.add(a0[1])
                    if not ok or len(attrs) != 1:
                        continue
                    if any(isinstance(n, ast.Name) and n.id == p0 and not isinstance(n.ctx, ast.Load) for n in ast.walk(fn)) \
                            or any(isinstance(n, ast.Name) and n.id == "self" for n in ast.walk(fn)):
                        continue
                    attr = attrs.pop()
                    fn.decorator_list = [d for d in fn.decorator_list if ast.unparse(d) != "staticmethod"]
                    fn.args.args[0] = ast.copy_location(ast.arg(arg="self", annotation=None), fn.args.args[0])
                    repl = ast.Attribute(value=ast.Name(id="self", ctx=ast.Load()), attr=attr, ctx=ast.Load())
                    fn.body = [_Subst({p0: repl}).visit(b) for b in fn.body]
                    for cl in calls:
                        del cl.args[0]
                    self.report.call_style += 1

    # ------------------------------------------------------------------ driver
    def plain_assignments(self) -> None:
        """inside a function the annotation of a local is never evaluated: ``x: T = v`` is
        ``x = v`` and a bare ``x: T`` is nothing (the annotation stays available to the type
        resolver as a hint: ``_ann`` on the assignment, ``_local_anns`` on the function)"""
        for tree in self.trees.values():
            for fn in [n for n in ast.walk(tree) if isinstance(n, FuncT)]:
                for holder in [n for n in _walk_scope(fn)] + [fn]:
                    for fld in ("body", "orelse", "finalbody"):
                        body = getattr(holder, fld, None)
                        if not isinstance(body, list):
                            continue
                        for st in list(body):
                            if not isinstance(st, ast.AnnAssign) or not isinstance(st.target, ast.Name):
                                continue
                            anns = getattr(fn, "_local_anns", None)
                            if anns is None:
                                anns = fn._local_anns = {}  # type: ignore[attr-defined]
                            anns.setdefault(st.target.id, st.annotation)
                            if st.value is None:
                                if len(body) > 1:
                                    body.remove(st)
                                else:
                                    body[body.index(st)] = ast.copy_location(ast.Pass(), st)
                            else:
                                new = ast.copy_location(ast.Assign(targets=[st.target], value=st.value, type_comment=None), st)
                                for a in ("_ord", "_parent"):
                                    if hasattr(st, a):
                                        setattr(new, a, getattr(st, a))
                                new._ann = st.annotation  # type: ignore[attr-defined]
                                body[body.index(st)] = new
                            self.report.shapes += 1

    def run(self) -> Report:
        self.init_only = self._init_only_attrs()
        for tree in self.trees.values():
            for c in [n for n in ast.walk(tree) if isinstance(n, ast.ClassDef)]:
                for st in c.body:
                    if isinstance(st, ast.FunctionDef) and "staticmethod" not in _decorators(st):
                        st._is_method = True  # type: ignore[attr-defined]
        self.plain_assignments()
        self.flatten_new_bases()
        self.specialise_inherited()
        self.restore_signatures()
        self.delegating_overrides()
        self.helper_objects()
        self.record_tuples()
        self.module_constants()
        self.parameter_names()
        # helpers are brought into normal form before they are inlined (merged guards, no
        # temporaries), their callers afterwards
        self._qualify_all()
        self._local_passes()
        self.inline_helpers()
        self._local_passes()
        self.call_style()
        for tree in self.trees.values():
            ast.fix_missing_locations(tree)
        return self.report


def _set_only_missing(new: ast.AST, at: ast.AST) -> None:
    for n in ast.walk(new):
        if not hasattr(n, "lineno") or getattr(n, "lineno", 0) == 0:
            if isinstance(n, (ast.expr, ast.stmt)):
                ast.copy_location(n, at)


def _pos(n: ast.AST) -> Tuple[int, int]:
    o = getattr(n, "_ord", None)
    if o is not None:
        return (0, o)
    return (getattr(n, "lineno", 0), getattr(n, "col_offset", 0))


def _after(a: ast.AST, b: ast.AST) -> bool:
    """a is evaluated after everything under b (evaluation-order numbering)"""
    last = max((_pos(n) for n in ast.walk(b) if isinstance(n, (ast.expr, ast.stmt))), default=(0, 0))
    return _pos(a) > last


def _renumber(root: ast.AST) -> None:
    """evaluation-order index of every node under root (source positions are useless once code
    from elsewhere has been spliced in at a call site)"""
    k = 0
    stack = [root]
    while stack:
        n = stack.pop()
        n._ord = k  # type: ignore[attr-defined]
        k += 1
        kids = list(ast.iter_child_nodes(n))
        if isinstance(n, ast.Assign):
            kids = [n.value] + list(n.targets)          # the value is evaluated before the targets
        elif isinstance(n, (ast.AugAssign, ast.AnnAssign)) and getattr(n, "value", None) is not None:
            kids = [n.value] + [c for c in kids if c is not n.value]
        stack.extend(reversed(kids))


def _before(a: ast.AST, b: ast.AST) -> bool:
    return _pos(a) < _pos(b)


def _contains(outer: ast.AST, inner: ast.AST) -> bool:
    return any(n is inner for n in ast.walk(outer))


def _is_callee_of_enclosing(n: ast.AST, use: ast.AST, header: ast.AST) -> bool:
    """``n`` is (part of) the callee expression of a call that has ``use`` among its arguments:
    ``out.write(t)`` — looking up ``out.write`` before or after computing t makes no difference
    unless computing t rebinds the attribute, which the package never does"""
    for c in ast.walk(header):
        if isinstance(c, ast.Call) and _contains(c.func, n) and any(_contains(a, use) for a in
                                                                      list(c.args) + [k.value for k in c.keywords]):
            return True
    return False


def _quiet_before(header: ast.AST, tgt: str) -> bool:
    """no call is evaluated in ``header`` before the last use of ``tgt`` (a call whose receiver or
    arguments contain the use is evaluated after it)"""
    uses = [n for n in ast.walk(header) if isinstance(n, ast.Name) and n.id == tgt and isinstance(n.ctx, ast.Load)]
    if not uses:
        return True
    once = _once_positions(header, at_most_once=True)
    if any(id(u) not in once for u in uses):
        return False
    lastuse = max(uses, key=_pos)
    for n in ast.walk(header):
        if isinstance(n, ast.Call) and not (isinstance(n.func, ast.Name) and n.func.id in PURE_CALLS):
            if _before(n, lastuse) and not _contains(n, lastuse):
                return False
    return True


# ---------------------------------------------------------------------- vocabulary
def gen_vocab(root: Path) -> Dict[str, object]:
    pkg = root / "python" / "gtirb"
    funcs: List[str] = []
    params: Dict[str, List[str]] = {}
    modnames: List[str] = []
    gens: List[str] = []
    clsattrs: List[str] = []
    style: Dict[str, int] = {}
    for p in sorted(pkg.glob("*.py")):
        tree = ast.parse(p.read_text())

        def visit(stmts: Sequence[ast.stmt], q: str) -> None:
            for st in stmts:
                if isinstance(st, ast.ClassDef):
                    for b in st.body:
                        if isinstance(b, (ast.Assign, ast.AnnAssign)):
                            for t in (b.targets if isinstance(b, ast.Assign) else [b.target]):
                                if isinstance(t, ast.Name):
                                    clsattrs.append("%s:%s%s.%s" % (p.stem, q, st.name, t.id))
                    visit(st.body, q + st.name + ".")
                elif isinstance(st, ast.FunctionDef):
                    funcs.append("%s:%s%s" % (p.stem, q, st.name))
                    if _is_generator(st):
                        gens.append("%s:%s%s" % (p.stem, q, st.name))
                    a = st.args
                    params["%s:%s%s" % (p.stem, q, st.name)] = [x.arg for x in a.posonlyargs + a.args + a.kwonlyargs]
                    visit(st.body, q + st.name + ".")
                elif isinstance(st, (ast.If, ast.For, ast.While, ast.With, ast.Try)):
                    for fld in ("body", "orelse", "finalbody"):
                        visit(getattr(st, fld, []) or [], q)
        visit(tree.body, "")
        for st in tree.body:
            for n in ast.walk(st) if isinstance(st, (ast.Assign, ast.AnnAssign, ast.AugAssign)) else []:
                if isinstance(n, ast.Name) and isinstance(n.ctx, ast.Store):
                    modnames.append("%s:%s" % (p.stem, n.id))
        for c in ast.walk(tree):
            if isinstance(c, ast.Call):
                nm = Normaliser._callee_name(c)
                if nm is None or any(isinstance(a, ast.Starred) for a in c.args):
                    continue
                style[nm] = max(style.get(nm, 0), len(c.args))
    return {"comment": "vocabulary of the pinned tree: function names that are not private helpers "
                       "to be inlined, and how many arguments each callee is passed positionally",
            "functions": sorted(set(funcs)), "module_names": sorted(set(modnames)), "params": params,
            "generators": sorted(set(gens)), "class_attrs": sorted(set(clsattrs)), "call_style": dict(sorted(style.items()))}


def main() -> int:
    argv = sys.argv[1:]
    root = Path(os.environ.get("VERIF_REPO", "/repo"))
    if argv and argv[0] == "--gen-vocab":
        VOCAB.write_text(json.dumps(gen_vocab(root), indent=1) + "\n")
        print("wrote %s" % VOCAB)
        return 0
    if argv and argv[0] == "--show":
        pkg = root / "python" / "gtirb"
        trees = {p.stem: ast.parse(p.read_text()) for p in sorted(pkg.glob("*.py"))}
        rep = Normaliser(trees).run()
        print(ast.unparse(trees[argv[1]]))
        print("# " + json.dumps(rep.as_dict()))
        return 0
    print(__doc__)
    return 2


if __name__ == "__main__":
    sys.exit(main())
