"""E5 (part): a light-weight type resolver for attribute chains.

``attr_types(C, 'sections')`` -> [Module._NodeSet]; ``expr_types(expr, fi)``
resolves ``self._node.ir`` / ``v._section.byte_intervals`` through annotations,
constructor assignments, property return annotations and descriptors.
"""
from __future__ import annotations

import ast
from typing import Dict, List, Optional, Tuple

from .model import (ClassInfo, FuncInfo, ModuleInfo, Repo, annotation_names,
                    attr_path, dotted, local_aliases, walk_no_nested)


class TypeEnv:
    def __init__(self, repo: Repo):
        self.repo = repo
        self._attr_cache: Dict[Tuple[str, str], List[ClassInfo]] = {}

    # -- names ------------------------------------------------------------
    def resolve_ann(self, ann: Optional[ast.AST], mod: ModuleInfo,
                    scope: Optional[ClassInfo]) -> List[ClassInfo]:
        out: List[ClassInfo] = []
        for nm in annotation_names(ann):
            out.extend(self._resolve_type_name(nm, mod, scope, 0))
        return _uniq(out)

    def _resolve_type_name(self, nm: str, mod: ModuleInfo,
                           scope: Optional[ClassInfo], depth: int) -> List[ClassInfo]:
        c = self.repo.resolve_name(mod, nm.split(".")[-1] if nm.startswith("typing.") else nm, scope)
        if c is not None:
            return [c]
        # TypeVar with a bound
        last = nm.split(".")[-1]
        v = mod.assigns.get(last)
        if depth < 3 and isinstance(v, ast.Call):
            p = dotted(v.func)
            if p and p[-1] == "TypeVar":
                for kw in v.keywords:
                    if kw.arg == "bound":
                        out: List[ClassInfo] = []
                        for n2 in annotation_names(kw.value):
                            out.extend(self._resolve_type_name(n2, mod, scope, depth + 1))
                        return out
        return []

    # -- attributes -------------------------------------------------------
    def attr_types(self, cls: ClassInfo, name: str) -> List[ClassInfo]:
        key = (cls.qualname, name)
        if key in self._attr_cache:
            return self._attr_cache[key]
        self._attr_cache[key] = []
        out: List[ClassInfo] = []
        for c in cls.mro_classes():
            if name in c.props and c.props[name].getter is not None:
                g = c.props[name].getter
                out.extend(self.resolve_ann(g.node.returns, c.module, c))
                break
            if name in c.indexed:
                # _IndexedAttribute[T]() -> T
                v = c.indexed[name].node.value
                inner = v.func.func  # type: ignore[attr-defined]
                if isinstance(inner, ast.Subscript):
                    out.extend(self.resolve_ann(inner.slice, c.module, c))
                break
            if name in c.class_annots:
                out.extend(self.resolve_ann(c.class_annots[name], c.module, c))
            found = False
            for f in list(c.methods.values()) + [p.setter for p in c.props.values() if p.setter]:
                me = f.self_name
                if me is None:
                    continue
                for n in walk_no_nested(f.node):
                    tgt = val = ann = None
                    if isinstance(n, ast.AnnAssign):
                        tgt, val, ann = n.target, n.value, n.annotation
                    elif isinstance(n, ast.Assign) and len(n.targets) == 1:
                        tgt, val = n.targets[0], n.value
                    if tgt is None or attr_path(tgt) != (me, name):
                        continue
                    found = True
                    if ann is not None:
                        out.extend(self.resolve_ann(ann, c.module, c))
                    if val is not None:
                        out.extend(self._value_types(val, f))
            if found or out:
                break
        res = _uniq(out)
        self._attr_cache[key] = res
        return res

    def _value_types(self, val: ast.AST, f: FuncInfo) -> List[ClassInfo]:
        if isinstance(val, ast.Call):
            fn = val.func
            if isinstance(fn, ast.Subscript):   # LazyIntervalTree[int, X](...)
                fn = fn.value
            p = dotted(fn)
            if p:
                c = self.repo.resolve_name(f.module, ".".join(p), f.cls)
                if c is not None:
                    return [c]
        if isinstance(val, ast.Name):
            for a in f.params:
                if a.arg == val.id:
                    return self.resolve_ann(a.annotation, f.module, f.cls)
        return []

    # -- expressions -------------------------------------------------------
    def expr_types(self, expr: ast.AST, f: FuncInfo,
                   aliases: Optional[Dict[str, ast.AST]] = None,
                   depth: int = 0) -> List[ClassInfo]:
        if depth > 10:
            return []
        if aliases is None:
            aliases = local_aliases(f.node)
        if isinstance(expr, ast.Name):
            if f.self_name and expr.id == f.self_name and f.cls is not None \
                    and not f.is_classmethod:
                return [f.cls]
            for a in f.params:
                if a.arg == expr.id:
                    return self.resolve_ann(a.annotation, f.module, f.cls)
            # annotated local: ``block: ByteBlock``
            for n in walk_no_nested(f.node):
                if isinstance(n, ast.AnnAssign) and isinstance(n.target, ast.Name) \
                        and n.target.id == expr.id:
                    ts = self.resolve_ann(n.annotation, f.module, f.cls)
                    if ts:
                        return ts
            la = getattr(f.node, "_local_anns", None)
            if la and expr.id in la:
                ts = self.resolve_ann(la[expr.id], f.module, f.cls)
                if ts:
                    return ts
            if expr.id in aliases:
                return self.expr_types(aliases[expr.id], f, aliases, depth + 1)
            # enclosing function (nested defs: closures over ir, self ...)
            if f.outer is not None:
                return self.expr_types(expr, f.outer, None, depth + 1)
            # loop variables: ``for x in <expr of known element type>`` not resolved
            return []
        if isinstance(expr, ast.Attribute):
            out: List[ClassInfo] = []
            for c in self.expr_types(expr.value, f, aliases, depth + 1):
                out.extend(self.attr_types(c, expr.attr))
            return _uniq(out)
        if isinstance(expr, ast.Call):
            p = attr_path(expr.func)
            if p == ("super",):
                return []
            if p == ("getattr",) and len(expr.args) >= 2:
                return []
            if p == ("cls",) and f.cls is not None:
                return [f.cls]
            if p and len(p) == 1:
                # a function nested in f (or in its enclosing function)
                g: Optional[FuncInfo] = f
                while g is not None:
                    for nm, nf in g.nested().items():
                        if nm == p[0] and nf.node.returns is not None:
                            return self.resolve_ann(nf.node.returns, f.module, f.cls)
                    g = g.outer
            if p and len(p) >= 2 and p[-1] in ("_from_protobuf", "_decode_protobuf"):
                if p[0] == "cls" and f.cls is not None:
                    return [f.cls]
                c0 = self.repo.resolve_name(f.module, ".".join(p[:-1]), f.cls)
                if c0 is not None:
                    return [c0]
            fn = expr.func
            if isinstance(fn, ast.Subscript):
                fn = fn.value
            d = dotted(fn)
            if d:
                c = self.repo.resolve_name(f.module, ".".join(d), f.cls)
                if c is not None:
                    return [c]
        return []


def _uniq(xs: List[ClassInfo]) -> List[ClassInfo]:
    out: List[ClassInfo] = []
    for x in xs:
        if x not in out:
            out.append(x)
    return out
