"""C05 — Block lookups by address or offset equal a fresh scan at every scope."""
from __future__ import annotations

from ..model import AnalysisError
from ..report import Check
from .lookups import (bias_consumers, delegation, index_forwarders, index_key_rule, kind_filter,
                      notify_protocol, tree_lookup, tree_sites)
from .bounds import at_impl, on_impl
from .ownership import ownership

RULES = {
    "R05.1": "index key subset of notifying attributes: every stored attribute the block-index "
             "interval builder reads is a notify-parent descriptor whose parent is the byte interval",
    "R05.2": "notify protocol: discard from the parent's index, store, add back; index methods "
             "forward to the tree the lookups read",
    "R05.3": "membership maintains the index: attach adds to / detach discards from the owner's index",
    "R05.4": "lookups read the maintained index freshly through the helper of the same kind",
    "R05.5": "sibling agreement: code/data variants are isinstance filters of the byte variant; "
             "section/module/IR methods are same-name unions over their children",
    "R05.7": "boundary logic of the tree helpers as difference constraints: 'on' keeps exactly "
             "B < STOP and B+size > START with size != 0; 'at' keeps exactly begin-in-range",
    "R12.x": "the lazy wrapper behind the index: edit-time capture, in-order replay or rebuild on "
             "every path, queue cleared, client discipline (R12.2-R12.4, shared with C12)",
    "R05.8": "forest integrity ('each exactly once'): every node is in one collection once - the "
             "attach/detach pairing and store routing of C04 (R03.3, R03.5)",
    "R05.6": "bias agreement: builders encode [b, b+size] as Interval(b, b+size+1) and every "
             "consumer of an interval end subtracts that bias",
}
SUFFIXES = ("on", "at", "on_offset", "at_offset")


def run(chk: Check) -> None:
    chk.explanation = (
        "Decides the maintenance discipline that makes the per-interval block index a function "
        "of the current structure (index keys are notifying attributes; the descriptor and the "
        "membership primitives keep the index paired on every path) and the agreement of the 30 "
        "lookup methods with each other (term normalisation).  The comparison logic inside the "
        "tree helpers is decided as a difference-constraint normal form (R05.7: library fact of "
        "IntervalTree.overlap + the helper's filters, bias substituted, compared with the "
        "constraint set the property states); arithmetic on values is not executed.")
    for k, v in RULES.items():
        chk.rule(k, v)
    repo = chk.repo
    own = ownership(repo)
    for f in own.functions:
        chk.functions.add(f)
    sites = [s for s in tree_sites(repo) if s.owner.name == "ByteInterval"]
    if len(sites) != 1:
        raise AnalysisError("expected one LazyIntervalTree on ByteInterval, found %d" % len(sites))
    site = sites[0]
    index_key_rule(chk, site, own, "R05.1")
    notify_protocol(chk, "R05.2")
    index_forwarders(chk, site, "R05.2")
    n53 = 0
    for prop, rule, construct, ok, loc, msg, facts in own.obs:
        if prop == "C05":
            chk.ob(rule, construct, ok, loc, msg, facts)
            n53 += 1
        elif rule == "R05.3":
            # section / module / IR scopes answer through the section index
            chk.ob(rule, construct, ok, loc, msg, facts)
    chk.floor("R05.3", "index halves of the block-set primitives", n53, 2)

    bi = repo.cls("ByteInterval")
    n = 0
    for s in SUFFIXES:
        name = "byte_blocks_" + s
        f = bi.methods.get(name)
        if f is None:
            chk.ob("R05.4", "ByteInterval.%s" % name, False, bi.loc(), "lookup vanished")
            continue
        n += 1
        tree_lookup(chk, f, site, "on" if s.startswith("on") else "at",
                    "offset" if s.endswith("offset") else "address", not s.endswith("offset"), "R05.4")
        for kind, klass in (("code", "CodeBlock"), ("data", "DataBlock")):
            n += 1
            kind_filter(chk, bi, "%s_blocks_%s" % (kind, s), name, klass, "R05.5")
    sec = repo.cls("Section")
    mod = repo.cls("Module")
    ir = repo.cls("IR")
    for s in ("on", "at"):
        name = "byte_blocks_" + s
        n += 1
        delegation(chk, sec, name, [("attr", ("self",), "byte_intervals"),
                                    ("call", ("attr", ("self",), "byte_intervals_on"), ("$param",))],
                   "R05.5")
        for kind, klass in (("code", "CodeBlock"), ("data", "DataBlock")):
            n += 1
            kind_filter(chk, sec, "%s_blocks_%s" % (kind, s), name, klass, "R05.5",
                        also_delegation=[("attr", ("self",), "byte_intervals"),
                                         ("call", ("attr", ("self",), "byte_intervals_on"), ("$param",))])
        for stem in ("byte", "code", "data"):
            n += 2
            delegation(chk, mod, "%s_blocks_%s" % (stem, s), [("attr", ("self",), "sections")], "R05.5")
            delegation(chk, ir, "%s_blocks_%s" % (stem, s), [("attr", ("self",), "modules")], "R05.5")
    chk.floor("R05.5", "block lookup methods", n, 21)
    bias_consumers(chk, "R05.6", ["util", "section"])
    for prop, rule, construct, ok, loc, msg, facts in own.obs:
        if prop == "C04" and rule in ("R03.3", "R03.5"):
            chk.ob("R05.8", construct, ok, loc, msg, facts)
    from .c12 import _capture, _get, _ownership
    lt = repo.cls("LazyIntervalTree")
    sub = chk.sub()
    _ownership(sub, lt)
    _capture(sub, lt)
    _get(sub, lt)
    chk.adopt(sub)
    from .bounds import range_helpers
    range_helpers(chk, "R05.7")
    on_impl(chk, "R05.7")
    at_impl(chk, "R05.7")
