"""C01 — Save then load reproduces the IR exactly."""
from __future__ import annotations

import ast
from typing import Dict, List, Optional, Set, Tuple

from ..model import (AnalysisError, ClassInfo, FuncInfo, Repo, attr_path, dotted, local_aliases,
                     unparse, walk_no_nested)
from ..proto_schema import INT_SCALARS, Schema
from ..report import Check
from ..types import TypeEnv
from .c02 import PI, _facts

RULES = {
    "R01.1": "persisted-state agreement: every constructor-declared state attribute of every "
             "persisted class is read by a writer and re-established by a reader",
    "R01.2": "no falsy drop: integer/string schema scalars (and the attributes they mirror) "
             "never stand in boolean context in a writer or reader; presence is decided by "
             "'is None' / HasField / isinstance",
    "R01.5": "loaded objects do not share state: constructor arguments/defaults are copied (R04.5) "
             "and the AuxData / codec path keeps no hidden state (R14.1, R14.2, R14.5)",
    "R01.3": "staged decode: every decoder registers the node it returns and consumer stages follow "
             "producer stages (a valid saved file must load)",
    "R01.4": "AuxData persistence: the writer iterates the whole aux_data mapping, the reader "
             "the whole proto map, unfiltered",
}

PARENT_PARAMS = {"ir", "module", "section", "byte_interval", "lazy_container"}
# constructor parameter -> observable attributes, where they differ (frozen, with reason)
PARAM_ATTRS = {
    ("Symbol", "payload"): ("value", "referent"),     # one stored payload, two typed views
}
DERIVED = {("ByteInterval", "initialized_size"): "derived from contents (C19 R19.1)"}
BOOL_FIELD_EXEMPT = {"has_address", "at_end", "conditional", "direct"}
BYTES_EXEMPT = {"entry_point": "proto3 empty bytes *is* absence", "contents": "bytes", "data": "bytes"}
PERSISTED = ["IR", "Module", "Section", "ByteInterval", "CodeBlock", "DataBlock", "ProxyBlock",
             "Symbol", "SymAddrConst", "SymAddrAddr", "AuxData"]


def _is_writer(f: FuncInfo) -> bool:
    g: Optional[FuncInfo] = f
    while g is not None:
        if g.name in ("_to_protobuf", "_write_protobuf_aux_data", "save_protobuf_file"):
            return True
        g = g.outer
    return False


def _is_reader(f: FuncInfo) -> bool:
    g: Optional[FuncInfo] = f
    while g is not None:
        if g.name in ("_decode_protobuf", "_from_protobuf", "_decode_symbolic_expressions",
                      "_read_protobuf_aux_data", "load_protobuf_file"):
            return True
        g = g.outer
    return False


def _base(name: str) -> str:
    """a parameter that is bound again is renamed <name>_v<k> by the normal form"""
    import re as _re
    return _re.sub(r"^(\w+?)_v\d+$", r"\1", name)


def run(chk: Check) -> None:
    chk.explanation = (
        "Round-trip equality over all IRs is a statement about runtime values; decided here is "
        "that nothing the object model holds (the constructor-declared state of the 11 persisted "
        "classes) can be dropped on the way out or in, that no field is dropped for a falsy "
        "value (boolean-context scan over every writer and reader function), and that AuxData "
        "maps travel whole.  Field-level schema agreement is C02's; value equality and "
        "byte-identical re-save are not decided.")
    for k, v in RULES.items():
        chk.rule(k, v)
    repo = chk.repo
    types = TypeEnv(repo)
    schema, pf = _facts(chk)
    _state_agreement(chk, repo, types)
    _falsy(chk, repo, schema)
    _auxdata(chk, repo)
    from .c02 import _write_paths
    sub = chk.sub()
    _write_paths(sub, schema, pf, [m for m in schema.reachable("IR")] + ["Offset"])
    chk.adopt(sub, None, "R01.1")
    from .c02 import _fresh_objects, _presence_flag, _submessage_presence, _whole_collections, _write_conditions
    sub = chk.sub()
    msgs_all = [m for m in schema.reachable("IR")] + ["Offset"]
    _whole_collections(sub, schema, pf, msgs_all)
    _fresh_objects(sub, schema, pf)
    _presence_flag(sub, pf)
    _submessage_presence(sub, schema, pf, msgs_all)
    _write_conditions(sub, schema, pf, msgs_all)
    chk.adopt(sub, None, "R01.1")
    from .loader import stage_order
    from .ownership import ownership
    sub = chk.sub()
    from .loader import deferred_stage
    deferred_stage(sub, "R01.3")
    stage_order(sub, "R01.3")
    for prop_, rule_, construct_, ok_, loc_, msg_, facts_ in ownership(repo).obs:
        if rule_ == "R03.6":
            sub.ob("R01.3", construct_, ok_, loc_, msg_, facts_)
    chk.adopt(sub)
    from .c04 import _ctor_copies
    from .c14 import _to_protobuf, _typestate
    from .purity import codec_state
    sub = chk.sub()
    _ctor_copies(sub)
    _typestate(sub, repo.cls("AuxData"))
    _to_protobuf(sub, repo.cls("AuxData"))
    from .c14 import _from_protobuf as _aux_from_protobuf
    _aux_from_protobuf(sub, repo.cls("AuxData"))
    codec_state(sub, "R14.5", ("auxdata", "serialization"))
    chk.adopt(sub, None, "R01.5")
    # what is loaded must be what was saved: references resolve to the loaded nodes (tables are
    # not decoded while nodes are still missing), nothing is skipped or swallowed on the way in,
    # and presence is never decided by truthiness of a node
    from .c09 import _no_decode_during_load
    from .c17 import _no_swallow
    from .lookups import truthiness_safe
    from .c02 import _reader_agreement
    sub = chk.sub()
    _no_decode_during_load(sub)
    _no_swallow(sub)
    truthiness_safe(sub, "R01.3")
    _reader_agreement(sub, schema, pf, msgs_all)
    chk.adopt(sub, None, "R01.3")
    # save -> load -> deep_eq rests on the writer/reader agreeing with the schema (C02), on the
    # AuxData codec and table handling (C07, C14), on references resolving to the loaded nodes
    # (C09) and on the loader accepting and linking what save wrote (C17, without its rules on
    # how a foreign file is rejected): where one of those is violated, a saved IR does not come
    # back as it was
    chk.adopt_property("C02", "R01.6")
    chk.adopt_property("C07", "R01.7")
    chk.adopt_property("C09", "R01.8")
    chk.adopt_property("C14", "R01.9")
    chk.adopt_property("C17", "R01.10", lambda o: o.rule not in ("R17.1", "R17.2"))
    chk.adopt_property("C18", "R01.11")


# ---------------------------------------------------------------------------


def _state(repo: Repo, c: ClassInfo) -> List[Tuple[str, Tuple[str, ...]]]:
    init = c.find_method("__init__")
    if init is None:
        return []
    out = []
    for p in init.param_names()[1:]:
        if p in PARENT_PARAMS:
            continue
        if (c.name, p) in DERIVED:
            continue
        out.append((p, PARAM_ATTRS.get((c.name, p), (p,))))
    return out


def _related(a: ClassInfo, b: ClassInfo) -> bool:
    return a is b or a.is_subclass_of(b) or b.is_subclass_of(a)


def _state_agreement(chk: Check, repo: Repo, types: TypeEnv) -> None:
    # gather writer loads and reader establishments once
    loads: List[Tuple[FuncInfo, ast.Attribute, List[ClassInfo]]] = []
    estab: List[Tuple[FuncInfo, ast.AST, str, List[ClassInfo]]] = []
    ctor_kw: List[Tuple[FuncInfo, ast.Call, ClassInfo, Set[str]]] = []
    for f in repo.all_functions():
        if _is_writer(f):
            chk.saw(f)
            al = local_aliases(f.node)
            for n in walk_no_nested(f.node):
                if isinstance(n, ast.Attribute) and isinstance(n.ctx, ast.Load):
                    loads.append((f, n, types.expr_types(n.value, f, al)))
        if _is_reader(f):
            chk.saw(f)
            al = local_aliases(f.node)
            for n in walk_no_nested(f.node):
                if isinstance(n, (ast.Assign, ast.AnnAssign, ast.AugAssign)):
                    tgs = n.targets if isinstance(n, ast.Assign) else [n.target]
                    for t in tgs:
                        if isinstance(t, ast.Attribute):
                            estab.append((f, n, t.attr, types.expr_types(t.value, f, al)))
                        elif isinstance(t, ast.Subscript) and isinstance(t.value, ast.Attribute):
                            estab.append((f, n, t.value.attr, types.expr_types(t.value.value, f, al)))
                elif isinstance(n, ast.Call):
                    if isinstance(n.func, ast.Attribute) and n.func.attr in ("update", "extend", "add", "append") \
                            and isinstance(n.func.value, ast.Attribute):
                        estab.append((f, n, n.func.value.attr,
                                      types.expr_types(n.func.value.value, f, al)))
                    d = dotted(n.func)
                    K: Optional[ClassInfo] = None
                    if d == ("cls",) and f.cls is not None:
                        K = f.cls
                    elif d:
                        K = repo.resolve_name(f.module, ".".join(d), f.cls)
                    if K is not None and (K.find_method("__init__") is not None):
                        init = K.find_method("__init__")
                        names = {k.arg for k in n.keywords if k.arg}
                        ps = init.param_names()[1:]
                        for i, a in enumerate(n.args):
                            if i < len(ps) and not isinstance(a, ast.Starred):
                                names.add(ps[i])
                        ctor_kw.append((f, n, K, names))
    n_attrs = 0
    for cname in PERSISTED:
        c = repo.cls(cname)
        st = _state(repo, c)
        if not st:
            raise AnalysisError("no constructor state derived for %s" % cname)
        init_k = c.find_method("__init__")
        for p, attrs in st:
            n_attrs += 1
            # ---- the constructor itself establishes the attribute from its parameter
            if init_k is not None:
                me_k = init_k.self_name
                stored = False
                for n0 in walk_no_nested(init_k.node):
                    if isinstance(n0, (ast.Assign, ast.AnnAssign)) and n0.value is not None:
                        tgs = n0.targets if isinstance(n0, ast.Assign) else [n0.target]
                        if any(isinstance(t, ast.Attribute) and attr_path(t.value) == (me_k,) for t in tgs) and \
                                any(isinstance(x, ast.Name) and _base(x.id) == p for x in ast.walk(n0.value)):
                            stored = True
                    elif isinstance(n0, ast.Call) and isinstance(n0.func, ast.Attribute) and \
                            n0.func.attr in ("__init__", "update", "extend", "add") and \
                            any(isinstance(x, ast.Name) and _base(x.id) == p
                                for a0 in list(n0.args) + [k0.value for k0 in n0.keywords] for x in ast.walk(a0)):
                        stored = True
                    elif isinstance(n0, ast.For) and any(isinstance(x, ast.Name) and _base(x.id) == p for x in ast.walk(n0.iter)):
                        # for x in <param>: self.<attr>.add(x)
                        tn0 = {t.id for t in ast.walk(n0.target) if isinstance(t, ast.Name)}
                        if any(isinstance(c0, ast.Call) and isinstance(c0.func, ast.Attribute)
                               and c0.func.attr in ("add", "append", "update", "extend", "__setitem__")
                               and any(isinstance(x, ast.Name) and x.id in tn0 for a0 in c0.args for x in ast.walk(a0))
                               for b0 in n0.body for c0 in ast.walk(b0)):
                            stored = True
                chk.ob("R01.1", "%s.%s:constructor-stores" % (cname, p), stored, init_k.loc(),
                       "%s.__init__ takes '%s' but never stores it: the attribute is missing or stale "
                       "on every constructed (and loaded) %s" % (cname, p, cname), 2)
            # ---- writer side
            missing = []
            for a in attrs:
                hit = False
                for f, n, ts in loads:
                    if n.attr != a and not (a == "uuid" and n.attr == "uuid"):
                        continue
                    if ts:
                        if any(_related(t, c) for t in ts):
                            hit = True
                            break
                    else:
                        hit = True       # untyped receiver: credited by name
                        break
                if not hit:
                    missing.append(a)
            w = c.find_method("_to_protobuf")
            chk.ob("R01.1", "%s.%s:written" % (cname, p), not missing,
                   w.loc() if w else c.loc(),
                   "state attribute %s.%s (constructor parameter '%s') is never read by a writer: "
                   "it does not reach the file" % (cname, "/".join(missing), p), 2)
            # ---- reader side
            missing = []
            for a in attrs:
                hit = False
                for f, call, K, names in ctor_kw:
                    if _related(K, c) and p in names and f.cls is not None and _related(f.cls, c) \
                            or (K is c and p in names):
                        hit = True
                        break
                if not hit:
                    for f, n, attr, ts in estab:
                        if attr != a:
                            continue
                        if ts:
                            if any(_related(t, c) for t in ts):
                                hit = True
                                break
                        else:
                            hit = True
                            break
                if not hit:
                    missing.append(a)
            r = c.find_method("_decode_protobuf") or c.find_method("_from_protobuf")
            chk.ob("R01.1", "%s.%s:re-established" % (cname, p), not missing,
                   r.loc() if r else c.loc(),
                   "state attribute %s.%s (constructor parameter '%s') is not re-established by any "
                   "reader: a loaded %s always has the default" % (cname, "/".join(missing), p, cname), 2)
    chk.floor("R01.1", "persisted state attributes", n_attrs, 28)
    # block offset: not a constructor keyword of the message, but of the block
    # (covered above through CodeBlock/DataBlock 'offset')


# ---------------------------------------------------------------------------


def _scalar_names(schema: Schema) -> Set[str]:
    names: Set[str] = set()
    for m in schema.messages.values():
        for f in m.fields.values():
            if f.label in ("repeated", "map"):
                continue
            if f.type in INT_SCALARS or f.type == "string":
                names.add(f.name)
                names.add(PI.get((m.name, f.name), f.name))
    # keys of integer-keyed maps (symbolic expression offsets)
    for m in schema.messages.values():
        for f in m.fields.values():
            if f.label == "map" and f.key_type in INT_SCALARS:
                names.add("offset")
    return names - BOOL_FIELD_EXEMPT


def _bool_operands(e: ast.AST) -> List[ast.AST]:
    if isinstance(e, ast.BoolOp):
        out: List[ast.AST] = []
        for v in e.values:
            out.extend(_bool_operands(v))
        return out
    if isinstance(e, ast.UnaryOp) and isinstance(e.op, ast.Not):
        return _bool_operands(e.operand)
    return [e]


def _falsy(chk: Check, repo: Repo, schema: Schema) -> None:
    _, pf = _facts(chk)
    names = _scalar_names(schema)
    chk.extra["scalar_names"] = sorted(names)
    n_ctx = 0
    n_funcs = 0
    for f in repo.all_functions():
        if not (_is_writer(f) or _is_reader(f)):
            continue
        n_funcs += 1
        al = local_aliases(f.node)
        ctxs: List[Tuple[ast.AST, ast.AST]] = []
        for n in walk_no_nested(f.node):
            if isinstance(n, (ast.If, ast.While, ast.IfExp)):
                ctxs.append((n.test, n))
            elif isinstance(n, ast.Assert):
                continue      # asserts establish types, they do not steer persistence
            elif isinstance(n, ast.comprehension):
                for c in n.ifs:
                    ctxs.append((c, n))
            elif isinstance(n, ast.Call) and attr_path(n.func) in (("bool",), ("any",), ("all",), ("len",)) \
                    and len(n.args) == 1:
                # bool(x), and any(x) / all(x) / len(x) of a stored scalar used as a test of presence
                par_ = getattr(n, "_parent", None)
                if attr_path(n.func) == ("bool",) or isinstance(par_, (ast.If, ast.While, ast.IfExp, ast.BoolOp, ast.UnaryOp)):
                    ctxs.append((n.args[0], n))
            elif isinstance(n, ast.BoolOp):
                par = getattr(n, "_parent", None)
                if not isinstance(par, (ast.If, ast.While, ast.IfExp, ast.BoolOp, ast.UnaryOp, ast.comprehension)):
                    # value-position ``a or b`` / ``a and b``
                    ctxs.append((n, n))
        for test, holder in ctxs:
            if isinstance(getattr(holder, "_parent", None), ast.Assert):
                continue
            for op in _bool_operands(test):
                n_ctx += 1
                bad = None
                e = op
                if isinstance(e, ast.Name) and e.id in al:
                    e2 = al[e.id]
                    # a local holding a decoded scalar (``version = int.from_bytes(...)``)
                    if isinstance(e2, ast.Call) and attr_path(e2.func) in (("int", "from_bytes"), ("int",)):
                        bad = e.id
                    elif isinstance(e2, ast.Attribute) and e2.attr in names:
                        bad = e2.attr
                elif isinstance(e, ast.Attribute) and e.attr in names:
                    bad = e.attr
                if bad is None and isinstance(e, (ast.Name, ast.Attribute)):
                    t = pf.ptype(e, pf.envs.get(f.qualname, {}), f)
                    if t is not None and t[0] == "scalar" and t[1] == "*":
                        bad = "<node message>.%s" % t[2]        # the uuid field every node message has
                    if t is not None and t[0] == "scalar" and t[1] in schema.messages:
                        fld = schema.messages[t[1]].fields.get(t[2])
                        if fld is not None and (fld.type in INT_SCALARS or fld.type == "string"
                                                or fld.type in schema.enums):
                            bad = "%s.%s" % (t[1], t[2])
                elif isinstance(e, ast.Name) and e.id in names and e.id in f.param_names():
                    bad = None    # parameters such as 'name' are not persisted scalars here
                key = "%s:truthiness(%s)" % (f.qualname, bad or "-")
                if bad is not None:
                    chk.ob("R01.2", key, False, f.loc(op),
                           "%s decides by the truthiness of '%s' (%s): the value 0 / '' is a legal "
                           "value and would be dropped or mistaken for absence; test 'is None' or "
                           "HasField instead" % (f.qualname, bad, unparse(test)[:50]), 2)
        chk.ob("R01.2", "%s:boolean-contexts" % f.qualname, True, f.loc(),
               "boolean contexts scanned", 1)
    chk.floor("R01.2", "writer/reader functions scanned", n_funcs, 21)
    chk.extra["boolean_contexts"] = n_ctx
    # constructors of model classes receive those scalars from the decoders: defaulting one by its
    # truthiness (``name or default``, ``if not size:``) replaces a legal stored '' / 0 on load
    node = repo.cls("Node")
    for c in repo.classes.values():
        if not (c is node or c.is_subclass_of(node)):
            continue
        init = c.methods.get("__init__")
        if init is None:
            continue
        chk.saw(init)
        params = {p for p in init.param_names()[1:] if p in names}
        for n in walk_no_nested(init.node):
            tests: List[ast.AST] = []
            if isinstance(n, (ast.If, ast.While, ast.IfExp)):
                tests.append(n.test)
            elif isinstance(n, ast.BoolOp) and not isinstance(getattr(n, "_parent", None), (
                    ast.If, ast.While, ast.IfExp, ast.BoolOp, ast.UnaryOp, ast.Assert)):
                tests.append(n)
            for t in tests:
                for op in _bool_operands(t):
                    if isinstance(op, ast.Name) and op.id in params:
                        chk.ob("R01.2", "%s:truthiness(%s)" % (init.qualname, op.id), False, init.loc(op),
                               "%s decides by the truthiness of its parameter '%s' (%s): the decoder passes "
                               "the stored field, for which '' / 0 is a legal value that would be replaced"
                               % (init.qualname, op.id, unparse(t)[:50]), 2)


# ---------------------------------------------------------------------------


def _auxdata(chk: Check, repo: Repo) -> None:
    c = repo.cls("AuxDataContainer")
    w = c.methods.get("_write_protobuf_aux_data")
    r = c.methods.get("_read_protobuf_aux_data")
    if w is None or r is None:
        raise AnalysisError("anchor vanished: AuxDataContainer._write/_read_protobuf_aux_data")
    chk.saw(w)
    chk.saw(r)
    me = w.self_name
    cont = w.param_names()[1]
    ok = False
    why = "no loop over self.aux_data.items() filling the container"
    for n in walk_no_nested(w.node):
        if isinstance(n, ast.For) and isinstance(n.iter, ast.Call) and isinstance(n.iter.func, ast.Attribute) \
                and n.iter.func.attr == "items" and attr_path(n.iter.func.value) == (me, "aux_data") \
                and isinstance(n.target, ast.Tuple) and len(n.target.elts) == 2:
            k, v = [e.id if isinstance(e, ast.Name) else None for e in n.target.elts]
            body_ok = False
            filtered = any(isinstance(s, (ast.If, ast.Continue, ast.Break)) for s in ast.walk(n) if s is not n)
            for c2 in ast.walk(n):
                if isinstance(c2, ast.Call) and isinstance(c2.func, ast.Attribute) and c2.func.attr == "CopyFrom":
                    tgt = c2.func.value
                    if isinstance(tgt, ast.Subscript) and attr_path(tgt.value) == (cont,) and \
                            attr_path(tgt.slice) == (k,) and c2.args and \
                            isinstance(c2.args[0], ast.Call) and attr_path(c2.args[0].func) == (v, "_to_protobuf"):
                        body_ok = True
            ok = body_ok and not filtered
            why = "loop body filters entries or does not store container[key] = value._to_protobuf()"
    chk.ob("R01.4", "AuxDataContainer._write_protobuf_aux_data:whole-map", ok, w.loc(),
           "the AuxData writer must copy every (name, table) of self.aux_data into the message map (%s)" % why, 3)
    cont = r.param_names()[1]
    ok = False
    for n in walk_no_nested(r.node):
        gens = []
        if isinstance(n, ast.DictComp):
            gens = n.generators
            val = n.value
            keyexpr = n.key
        else:
            continue
        if len(gens) == 1 and not gens[0].ifs and isinstance(gens[0].iter, ast.Call) and \
                isinstance(gens[0].iter.func, ast.Attribute) and gens[0].iter.func.attr == "items" and \
                attr_path(gens[0].iter.func.value) == (cont,) and isinstance(gens[0].target, ast.Tuple):
            k, v = [e.id if isinstance(e, ast.Name) else None for e in gens[0].target.elts]
            ok = attr_path(keyexpr) == (k,) and isinstance(val, ast.Call) and \
                (dotted(val.func) or ("",))[-1] == "_from_protobuf" and val.args and attr_path(val.args[0]) == (v,)
    if not ok:
        # statement form
        for n in walk_no_nested(r.node):
            if isinstance(n, ast.For) and isinstance(n.iter, ast.Call) and isinstance(n.iter.func, ast.Attribute) \
                    and n.iter.func.attr == "items" and attr_path(n.iter.func.value) == (cont,):
                filtered = any(isinstance(s, (ast.If, ast.Continue, ast.Break)) for s in ast.walk(n) if s is not n)
                has = any(isinstance(s, ast.Call) and (dotted(s.func) or ("",))[-1] == "_from_protobuf"
                          for s in ast.walk(n))
                ok = has and not filtered
    chk.ob("R01.4", "AuxDataContainer._read_protobuf_aux_data:whole-map", ok, r.loc(),
           "the AuxData reader must build one AuxData per entry of the message map, unfiltered", 3)
    # both containers use them
    for cname in ("IR", "Module"):
        k = repo.cls(cname)
        for meth, helper in (("_to_protobuf", "_write_protobuf_aux_data"),
                             ("_decode_protobuf", "_read_protobuf_aux_data")):
            f = k.methods.get(meth)
            used = f is not None and any(isinstance(n, ast.Call) and isinstance(n.func, ast.Attribute)
                                         and n.func.attr == helper for n in walk_no_nested(f.node))
            chk.ob("R01.4", "%s.%s:uses(%s)" % (cname, meth, helper), used, f.loc() if f else k.loc(),
                   "%s.%s does not call %s: its AuxData tables are not persisted" % (cname, meth, helper), 1)
