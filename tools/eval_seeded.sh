#!/bin/sh
# usage: eval_seeded.sh <dir-with-mutN.diff> <PROP>  -> runs all checks on each diff
D=$1; P=$2
for d in $D/mut*.diff; do
  [ -f "$d" ] || continue
  echo "##### $P $(basename $d): $(head -c 200 ${d%.diff}.txt 2>/dev/null | head -2 | tr '\n' ' ')"
  /verif/tools/try_mutation.sh $d | grep '^==' | tr '\n' ' '; echo
done
