"""Rules one property borrows from another: a property cannot hold where a rule that a second
property rests on is violated *and* the violated rule is a necessary condition of the first
property too.  Each entry says why.  Applied after the property's own rules (called from
wellformed.check, which every runner calls)."""
from __future__ import annotations

import re

from ..report import Check

_ATTACH = re.compile(r"(\.update|\.add|\._add|\.insert[^:]*):(set-backptr|leave-previous-owner|"
                     r"leave-before-relink|table-add|table-add-target|store-add|add-hook)$")


def extra(chk: Check) -> None:
    if getattr(chk, "_shared_done", False):
        return
    chk._shared_done = True  # type: ignore[attr-defined]
    p = chk.prop
    repo = chk.repo
    if p in ("C17", "C09", "C07", "C08", "C03"):
        from .loader import uuid_parse_exact
        n = uuid_parse_exact(chk, {"C17": "R17.3", "C09": "R09.1", "C07": "R07.4", "C08": "R08.2", "C03": "R03.6"}[p],
                             codec_side=p in ("C07", "C08"))
        chk.floor("R00.0", "UUID(bytes=...) construction sites", n, 1)
    if p == "C07":
        # "UUID/Offset entries naming nodes of the given IR come back as those node objects":
        # a table decoded while the IR is still being loaded sees only the nodes loaded so far
        from .c09 import _no_decode_during_load
        sub = chk.sub()
        _no_decode_during_load(sub)
        chk.adopt(sub, None, "R07.7")
    if p == "C10":
        # the name and referent indexes are dicts of sets of symbols keyed by blocks: they work
        # by identity
        from .c04 import _identity
        from .ownership import ownership
        sub = chk.sub()
        _identity(sub, ownership(repo))
        chk.adopt(sub, lambda o: o.rule == "R04.6", "R10.5")
    if p in ("C05", "C12"):
        # size and offset of every block kind are the indexed attributes ByteBlock declares: a
        # subclass that redefines one bypasses the index notifications
        from .c19 import _block_views
        sub = chk.sub()
        _block_views(sub)
        chk.adopt(sub, lambda o: o.construct.endswith(":not-redefined") and (
            ".size:" in o.construct or ".offset:" in o.construct), "R05.9" if p == "C05" else "R12.7")
    if p == "C15":
        # every table that is written or read goes through Serialization.encode/decode with its
        # type name, i.e. through the parser: no path around it for some names
        from .c14 import _from_protobuf, _to_protobuf, _typestate
        sub = chk.sub()
        aux = repo.cls("AuxData")
        _typestate(sub, aux)
        _to_protobuf(sub, aux)
        _from_protobuf(sub, aux)
        chk.adopt(sub, None, "R15.8")
    if p == "C17":
        # the decoders attach what they build through the owning collections: the attach side of
        # every hook is on the load path (C03/C04 for the returned IR)
        from .ownership import ownership
        for _prop, rule, construct, ok, loc, msg, facts in ownership(repo).obs:
            if rule == "R03.3" and _ATTACH.search(construct) and "__setitem__" not in construct:
                chk.ob("R17.4", construct, ok, loc, msg, facts)
    if p == "C17":
        # "... and can be saved again"
        from .c02 import writers_total
        writers_total(chk, "R17.6")
    if p == "C19":
        # "loading rejects more stored bytes than the interval's size": the rejection must reach
        # the caller
        from .c17 import _no_swallow
        sub = chk.sub()
        _no_swallow(sub)
        chk.adopt(sub, None, "R19.5")
    if p == "C19":
        # the stored bytes of one interval belong to that interval alone
        from .c04 import _ctor_copies
        sub = chk.sub()
        _ctor_copies(sub)
        chk.adopt(sub, lambda o: "ByteInterval" in o.construct or "ByteBlock" in o.construct, "R19.5")
    if p == "C18":
        # "changing any single compared field of one side makes it false": two nodes never share
        # a mutable attribute value
        from .c04 import _ctor_copies
        sub = chk.sub()
        _ctor_copies(sub)
        chk.adopt(sub, None, "R18.6")
