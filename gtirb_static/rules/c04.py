"""C04 — Containment is a forest kept consistent from both ends."""
from __future__ import annotations

import ast
from typing import Dict, List, Optional, Set, Tuple

from ..cfg import CFG
from ..model import (AnalysisError, ClassInfo, FuncInfo, annotation_names, attr_path,
                     dotted, expand_path, local_aliases, unparse, walk_no_nested)
from ..report import Check
from ..terms import OutsideFragment, function_term, show
from .ownership import Ownership, Relation, ownership

RULES = {
    "R03.2": "who-may-write: back-pointers are assigned only by the owning collection's "
             "primitives and (to None) by the element's own __init__",
    "R03.3": "pairing: attach = leave previous owner, set back-pointer, store add; detach = "
             "member guard, clear back-pointer, store discard; list stores are mutated only "
             "under the _add/_remove hooks",
    "R03.5": "routing: every method an owning collection resolves reaches the store only "
             "through the primitives",
    "R04.1": "parent setters: leave the old parent's collection, join the new one, never write "
             "the back-pointer themselves",
    "R04.2": "the field name an owning set is constructed with equals the attribute it is stored in",
    "R04.3": "derived accessors (.ir/.module/.section) expand to the containment chain and "
             "return None exactly when a link is None",
    "R04.4": "aggregate iterators equal the union over the containment paths to the target kind",
    "R04.5": "constructor iterable/mapping arguments are copied, never stored as is",
    "R04.6": "identity semantics: no __eq__/__hash__ in the Node hierarchy; index parents define "
             "no __bool__/__len__",
}

# name of an aggregate property -> (collection attribute it ends in, isinstance filter)
AGG_TARGET = {
    "modules": [("modules", None)],
    "proxy_blocks": [("proxies", None)],
    "proxies": [("proxies", None)],
    "sections": [("sections", None)],
    "symbols": [("symbols", None)],
    "byte_intervals": [("byte_intervals", None)],
    "byte_blocks": [("blocks", None)],
    "blocks": [("blocks", None)],
    "code_blocks": [("blocks", "CodeBlock")],
    "data_blocks": [("blocks", "DataBlock")],
    "cfg_nodes": [("blocks", "CodeBlock"), ("proxies", None)],
}


class Containment:
    """Containment relation derived from the owning collections."""

    def __init__(self, own: Ownership):
        self.own = own
        self.parent_prop: Dict[str, str] = {}   # owner class name -> property name on elements
        for rel in own.relations:
            for e in own._classes_defining_backptr(rel):
                for pname, prop in e.props.items():
                    g = prop.getter
                    if g is None:
                        continue
                    rets = [r for r in walk_no_nested(g.node) if isinstance(r, ast.Return)]
                    if len(rets) == 1 and rets[0].value is not None and \
                            attr_path(rets[0].value) == (g.self_name, rel.backptr):
                        self.parent_prop[rel.owner.name] = pname

    def rel_of_element(self, cls: ClassInfo) -> Optional[Relation]:
        for rel in self.own.relations:
            for e in rel.elements:
                if cls.is_subclass_of(e):
                    return rel
        return None

    def up_chain(self, cls: ClassInfo) -> List[Tuple[str, ClassInfo]]:
        """[(backptr, owner class), ...] from cls up to the root."""
        out = []
        cur = cls
        seen = set()
        while True:
            rel = self.rel_of_element(cur)
            if rel is None or rel.owner.qualname in seen:
                break
            seen.add(rel.owner.qualname)
            out.append((rel.backptr, rel.owner))
            cur = rel.owner
        return out

    def down_paths(self, cls: ClassInfo, target_attr: str) -> List[Tuple[str, ...]]:
        """All attribute paths from cls down to collections named target_attr."""
        out: List[Tuple[str, ...]] = []

        def rec(c: ClassInfo, prefix: Tuple[str, ...], depth: int) -> None:
            if depth > 6:
                return
            for attr, rel in self.own.children_of(c):
                p = prefix + (attr,)
                if attr == target_attr:
                    out.append(p)
                for e in rel.attrs[attr]:
                    rec(e, p, depth + 1)
        rec(cls, (), 0)
        return out


def run(chk: Check) -> None:
    chk.explanation = (
        "Who-may-write over the back-pointers and stores, CFG pairing inside each primitive, "
        "sibling agreement of the six parent setters, term normalisation of the derived "
        "accessors and aggregate iterators against the containment relation derived from the "
        "owning collections, copy discipline of constructor arguments.  Decides structural "
        "necessary conditions for all histories at once; not the behaviour of a given history.")
    for k, v in RULES.items():
        chk.rule(k, v)
    own = ownership(chk.repo)
    for f in own.functions:
        chk.functions.add(f)
    for prop, rule, construct, ok, loc, msg, facts in own.obs:
        if prop == "C04" or (prop == "C03" and rule == "R03.3"):
            chk.ob(rule, construct, ok, loc, msg, facts)
    chk.floor("R03.2", "back-pointer writes", own.counts.get("backptr_writes", 0), 9)
    chk.floor("R04.1", "parent setters", own.counts.get("parent_setters", 0), 4)
    chk.floor("R03.3", "list store mutation sites", own.counts.get("list_store_sites", 0), 2)
    cont = Containment(own)
    n_acc = _accessors(chk, own, cont)
    chk.floor("R04.3", "derived accessors", n_acc, 5)
    n_agg = _aggregates(chk, own, cont)
    chk.floor("R04.4", "aggregate iterators", n_agg, 11)
    n_par = _ctor_copies(chk)
    chk.floor("R04.5", "iterable/mapping constructor parameters", n_par, 17)
    _identity(chk, own)
    # the IR's module list: hook/store pairing and live-iterable discipline of its mutators
    from .c16 import _list_hooks, _materialised
    from ..types import TypeEnv
    sub = chk.sub()
    _list_hooks(sub, TypeEnv(chk.repo))
    _materialised(sub, TypeEnv(chk.repo))
    chk.adopt(sub, lambda o: o.rule in ("R16.4c", "R16.9"), "R04.2")


# ---------------------------------------------------------------------------
# R04.3


def _accessor_chain(chk: Check, own: Ownership, cls: ClassInfo, name: str, depth: int = 0
                    ) -> Tuple[List[str], List[str]]:
    """(chain of back-pointer fields, problems)."""
    if depth > 8:
        return [], ["recursion"]
    if name in own.backptrs():
        return [name], []
    prop = cls.find_prop(name)
    if prop is None or prop.getter is None:
        return [], ["%s has no property %s" % (cls.qualname, name)]
    g = prop.getter
    chk.saw(g)
    al = local_aliases(g.node)
    me = g.self_name or "self"
    rets = [r for r in walk_no_nested(g.node) if isinstance(r, ast.Return)]
    nonnull = [r for r in rets if not (r.value is None or
                                       (isinstance(r.value, ast.Constant) and r.value.value is None))]
    if len(nonnull) != 1:
        return [], ["%s has %d non-None returns" % (g.qualname, len(nonnull))]
    r = nonnull[0]
    p = expand_path(r.value, al)
    if not p or p[0] != me:
        return [], ["%s returns %s, not an attribute chain from self" % (g.qualname, unparse(r.value))]
    problems: List[str] = []
    chain: List[str] = []
    cur: Optional[ClassInfo] = cls
    cfg = CFG(g.node)
    rn = cfg.node_of(r)
    for i, a in enumerate(p[1:]):
        if cur is None:
            problems.append("cannot type %s" % ".".join(p[:i + 1]))
            break
        sub, pr = _accessor_chain(chk, own, cur, a, depth + 1)
        problems.extend(pr)
        chain.extend(sub)
        # the prefix self.a1..ai must be proven not None before it is dereferenced further
        if i < len(p) - 2:
            prefix = p[:i + 2]
            notnone = own._none_branches(cfg, prefix, al, False)
            none = own._none_branches(cfg, prefix, al, True)
            if cfg.path_avoiding(cfg.entry, rn, notnone) is not None:
                problems.append("%s dereferences %s without a dominating 'is None' test"
                                % (g.qualname, ".".join(prefix)))
            # and the None outcome must lead to 'return None'
            for b in none:
                reach = cfg.reachable(b)
                bad = [x for x in nonnull if cfg.node_of(x) in reach]
                if bad:
                    problems.append("%s: the None outcome of %s does not return None"
                                    % (g.qualname, ".".join(prefix)))
        ts = own.types.attr_types(cur, a)
        cur = ts[0] if ts else None
    return chain, problems


def _accessors(chk: Check, own: Ownership, cont: Containment) -> int:
    n = 0
    classes: List[ClassInfo] = []
    for rel in own.relations:
        for e in own._classes_defining_backptr(rel):
            if e not in classes:
                classes.append(e)
    for e in classes:
        up = cont.up_chain(e)
        exp: List[str] = []
        for i, (bp, owner) in enumerate(up):
            exp.append(bp)
            if i == 0:
                continue     # the direct parent property is R04.1's
            pname = cont.parent_prop.get(owner.name)
            if pname is None:
                continue
            n += 1
            key = "%s.%s" % (e.qualname, pname)
            chain, problems = _accessor_chain(chk, own, e, pname)
            ok = not problems and chain == exp
            msg = "derived accessor %s expands to %s; containment implies %s" % (
                key, "->".join(chain) or "?", "->".join(exp))
            if problems:
                msg += " (" + "; ".join(problems) + ")"
            p = e.find_prop(pname)
            loc = p.getter.loc() if p and p.getter else e.loc()
            chk.ob("R04.3", key, ok, loc, msg, len(exp) + 1)
    return n


# ---------------------------------------------------------------------------
# R04.4


def _expand_agg(chk: Check, own: Ownership, cls: ClassInfo, t: tuple, envcls: Dict[str, ClassInfo],
                depth: int = 0) -> Set[Tuple[Tuple[str, ...], Optional[str]]]:
    """Normalise an aggregate term to {(collection path, filter)}."""
    if depth > 12:
        raise OutsideFragment("aggregate recursion")
    k = t[0]
    if k == "attr":
        base = t[1]
        if base == ("self",):
            owner = cls
            prefix: Tuple[str, ...] = ()
            return _attr_paths(chk, own, owner, t[2], prefix, depth)
        if base[0] == "var" and base[1] in envcls:
            return _attr_paths(chk, own, envcls[base[1]], t[2], (), depth)
        raise OutsideFragment("attribute base %s" % show(base))
    if k == "union":
        over = _expand_agg(chk, own, cls, t[1], envcls, depth + 1)
        out: Set[Tuple[Tuple[str, ...], Optional[str]]] = set()
        for path, flt in over:
            if flt is not None:
                raise OutsideFragment("union over a filtered collection")
            ecls = _elem_class(own, cls, envcls, path)
            if ecls is None:
                raise OutsideFragment("cannot type elements of %s" % (path,))
            env2 = dict(envcls)
            env2[t[2]] = ecls
            body = t[3]
            if body == ("var", t[2]):
                out.add((path, None))
                continue
            for p2, f2 in _expand_agg(chk, own, ecls, body, env2, depth + 1):
                out.add((path + p2, f2))
        return out
    if k == "chain":
        out = set()
        for x in t[1]:
            out |= _expand_agg(chk, own, cls, x, envcls, depth + 1)
        return out
    if k == "filter":
        inner = _expand_agg(chk, own, cls, t[1], envcls, depth + 1)
        out = set()
        for p, f in inner:
            if f is not None and f != t[2]:
                raise OutsideFragment("double filter")
            out.add((p, t[2]))
        return out
    raise OutsideFragment("aggregate term %s" % show(t))


def _attr_paths(chk: Check, own: Ownership, owner: ClassInfo, name: str,
                prefix: Tuple[str, ...], depth: int):
    for attr, rel in own.children_of(owner):
        if attr == name:
            return {((name,), None)}
    prop = owner.find_prop(name)
    if prop is not None and prop.getter is not None:
        chk.saw(prop.getter)
        t = function_term(prop.getter)
        return _expand_agg(chk, own, owner, t, {}, depth + 1)
    raise OutsideFragment("%s.%s is neither an owning collection nor a property"
                          % (owner.qualname, name))


def _elem_class(own: Ownership, cls: ClassInfo, envcls: Dict[str, ClassInfo],
                path: Tuple[str, ...]) -> Optional[ClassInfo]:
    cur = cls
    for a in path:
        nxt = None
        for attr, rel in own.children_of(cur):
            if attr == a and rel.attrs[a]:
                nxt = rel.attrs[a][0]
        if nxt is None:
            return None
        cur = nxt
    return cur


def _aggregates(chk: Check, own: Ownership, cont: Containment) -> int:
    n = 0
    for cname in ("IR", "Module", "Section"):
        cls = chk.repo.cls(cname)
        for pname, prop in sorted(cls.props.items()):
            if pname not in AGG_TARGET or prop.getter is None:
                continue
            if any(a == pname for a, _ in own.children_of(cls)):
                continue
            n += 1
            key = "%s.%s" % (cname, pname)
            exp: Set[Tuple[Tuple[str, ...], Optional[str]]] = set()
            for attr, flt in AGG_TARGET[pname]:
                for p in cont.down_paths(cls, attr):
                    exp.add((p, flt))
            try:
                got = _expand_agg(chk, own, cls, function_term(prop.getter), {})
            except OutsideFragment as e:
                chk.ob("R04.4", key, False, prop.getter.loc(),
                       "aggregate iterator %s is not a union over containment paths (%s)" % (key, e), 1)
                continue
            ok = got == exp
            chk.ob("R04.4", key, ok, prop.getter.loc(),
                   "aggregate %s iterates %s; the forest implies %s"
                   % (key, _fmt(got), _fmt(exp)), len(exp) + 1)
    return n


def _fmt(s) -> str:
    return "{" + ", ".join(sorted("/".join(p) + ("[%s]" % f if f else "") for p, f in s)) + "}"


# ---------------------------------------------------------------------------
# R04.5

_COPYING = {"set", "dict", "list", "bytearray", "bytes", "frozenset", "tuple", "sorted",
            "SortedDict", "len", "iter", "enumerate"}
_ITER_ANN = {"Iterable", "DictLike", "Mapping", "ByteString", "Dict", "Set", "List",
             "AttributesCtorType", "Sequence", "MutableMapping", "Collection", "MutableSet"}


def _ctor_copies(chk: Check) -> int:
    repo = chk.repo
    n = 0
    node = repo.cls("Node")
    symexpr = repo.cls_opt("SymbolicExpression")
    for c in repo.classes.values():
        init = c.methods.get("__init__")
        if init is None or init.self_name is None:
            continue
        # scope: the object model (nodes, symbolic expressions, AuxData, owning collections,
        # the CFG); helper classes such as LazyIntervalTree share their argument by design
        if not (c.is_subclass_of(node) or c is node or c.name == "AuxData"
                or (symexpr is not None and (c is symexpr or c.is_subclass_of(symexpr)))
                or c.is_subclass_of("abc.Collection")):
            continue
        me = init.self_name
        defaults: Dict[str, ast.AST] = {}
        a = init.node.args
        pos = a.posonlyargs + a.args
        for prm, d in zip(pos[len(pos) - len(a.defaults):], a.defaults):
            defaults[prm.arg] = d
        for prm, d in zip(a.kwonlyargs, a.kw_defaults):
            if d is not None:
                defaults[prm.arg] = d
        params = []
        for prm in init.params[1:]:
            d = defaults.get(prm.arg)
            mut = isinstance(d, (ast.List, ast.Dict, ast.Set)) or (
                isinstance(d, ast.Call) and attr_path(d.func) in (("set",), ("dict",), ("list",)))
            names = set()
            for nm in annotation_names(prm.annotation):
                names.add(nm.split(".")[-1])
            if prm.annotation is not None:
                for sub in ast.walk(prm.annotation):
                    dd = dotted(sub) if isinstance(sub, (ast.Attribute, ast.Name)) else None
                    if dd:
                        names.add(dd[-1])
            if mut or names & _ITER_ANN:
                params.append(prm.arg)
        if init.node.args.vararg is not None and c.is_subclass_of("abc.Collection"):
            params.append(init.node.args.vararg.arg)
        if not params:
            continue
        chk.saw(init)
        for pn in params:
            n += 1
            bad: List[ast.AST] = []
            for use in walk_no_nested(init.node):
                if not (isinstance(use, ast.Name) and use.id == pn and isinstance(use.ctx, ast.Load)):
                    continue
                if not _copy_context(use, me):
                    bad.append(use)
            chk.ob("R04.5", "%s.__init__(%s)" % (c.qualname, pn), not bad,
                   init.loc(bad[0]) if bad else init.loc(),
                   "constructor argument '%s' of %s is stored or shared without being copied "
                   "(%s): separately constructed nodes would share it"
                   % (pn, c.qualname, unparse(getattr(bad[0], "_parent", bad[0]))[:60] if bad else ""), 2)
    # a node is never copied shallowly: the copy would share every mutable attribute value (the
    # bytes of an interval, the attribute sets, the child collections) and the UUID of the original
    for c in repo.classes.values():
        if not (c.is_subclass_of(node) or c is node or
                (symexpr is not None and (c is symexpr or c.is_subclass_of(symexpr)))):
            continue
        for f in c.methods.values():
            me = f.self_name
            for x in walk_no_nested(f.node):
                shallow = False
                if isinstance(x, ast.Call) and (dotted(x.func) or ("",))[-1] == "copy" and \
                        (dotted(x.func) or ("",))[0] in ("copy",) and len(x.args) == 1 and \
                        attr_path(x.args[0]) == (me,):
                    shallow = True
                if isinstance(x, ast.Attribute) and x.attr == "__dict__" and attr_path(x.value) == (me,):
                    par = getattr(x, "_parent", None)
                    shallow = isinstance(par, ast.Call) or (isinstance(par, ast.Attribute) and par.attr in ("copy", "items", "update"))
                if shallow:
                    chk.saw(f)
                    chk.ob("R04.5", "%s:shallow-copy-of-node" % f.qualname, False, f.loc(x),
                           "%s makes a shallow copy of the node (%s): the copy shares the original's mutable "
                           "attribute values (stored bytes, sets, child collections) and its UUID"
                           % (f.qualname, unparse(x)[:40]), 1)
    return n


def _copy_context(node: ast.Name, me: str) -> bool:
    """Is this load of a constructor parameter a copying / iterating use?"""
    cur: ast.AST = node
    par = getattr(cur, "_parent", None)
    while par is not None:
        if isinstance(par, ast.Starred):
            cur, par = par, getattr(par, "_parent", None)
            continue
        if isinstance(par, ast.Call):
            if cur in par.args or any(k.value is cur for k in par.keywords):
                d = dotted(par.func)
                if d is None and isinstance(par.func, ast.Attribute):
                    d = ("?", par.func.attr)
                if d is None and isinstance(par.func, ast.Call):
                    d = ("?",)
                if d:
                    last = d[-1]
                    if last in _COPYING or last in ("update", "extend", "union", "__init__"):
                        return True
                    if last in ("from_iterable", "chain", "iter", "map", "zip", "enumerate", "reversed", "filter"):
                        # a lazy view of the argument: what happens to the view decides
                        cur, par = par, getattr(par, "_parent", None)
                        continue
                    if last[:1].isupper() or last.startswith("_") and last[1:2].isupper():
                        return True    # wrapper / collection constructor (copies per its own rule)
                    if last == "cast" and len(par.args) == 2 and par.args[1] is cur:
                        cur, par = par, getattr(par, "_parent", None)
                        continue
                return False
            return True
        if isinstance(par, (ast.For, ast.comprehension)) and par.iter is cur:
            return True
        if isinstance(par, ast.Compare):
            return True
        if isinstance(par, ast.If) and par.test is cur:
            return True
        if isinstance(par, (ast.Assign, ast.AnnAssign)):
            tg = par.targets if isinstance(par, ast.Assign) else [par.target]
            for t in tg:
                if isinstance(t, ast.Name):
                    # re-binding a local (e.g. ``size = len(contents)``) - the value is ``cur``
                    # itself only when uncopied
                    return False if par.value is cur else True
            return False
        if isinstance(par, (ast.BoolOp, ast.IfExp, ast.Tuple, ast.List, ast.Set, ast.Dict)):
            cur, par = par, getattr(par, "_parent", None)
            continue
        if isinstance(par, ast.Return):
            return False
        if isinstance(par, ast.stmt):
            return True
        cur, par = par, getattr(par, "_parent", None)
    return True


# ---------------------------------------------------------------------------
# R04.6


def _identity(chk: Check, own: Ownership) -> None:
    repo = chk.repo
    node = repo.cls("Node")
    for c in repo.classes.values():
        if c is node or c.is_subclass_of(node):
            for nm in ("__eq__", "__hash__"):
                chk.ob("R04.6", "%s.%s" % (c.qualname, nm), nm not in c.methods and
                       nm not in c.class_assigns, c.loc(c.methods[nm].node) if nm in c.methods else c.loc(),
                       "%s defines %s: nodes are compared and hashed by identity everywhere "
                       "(sets of nodes, index buckets, CFG vertices)" % (c.qualname, nm), 1)
    parents: List[ClassInfo] = []
    for c in repo.classes.values():
        for ia in c.indexed.values():
            pp = ia.parent_path
            if pp:
                cur: Optional[ClassInfo] = c
                for a in pp:
                    ts = own.types.attr_types(cur, a) if cur else []
                    cur = ts[0] if ts else None
                if cur is not None and cur not in parents:
                    parents.append(cur)
    for p in parents:
        for k in p.mro_classes():
            for nm in ("__bool__", "__len__"):
                chk.ob("R04.6", "%s.%s" % (k.qualname, nm), nm not in k.methods, k.loc(),
                       "%s (an index parent, via %s) defines %s: the notify-parent descriptor and "
                       "Block.references test parents by truthiness" % (p.qualname, k.qualname, nm), 1)
