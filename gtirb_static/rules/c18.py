"""C18 — deep_eq is exact structural equality."""
from __future__ import annotations

import ast
from typing import Dict, List, Optional, Set, Tuple

from ..cfg import CFG
from ..model import (AnalysisError, ClassInfo, FuncInfo, attr_path, const_str, dotted, local_aliases,
                     unparse, walk_no_nested)
from ..report import Check
from .c01 import PARAM_ATTRS, PARENT_PARAMS, DERIVED

RULES = {
    "R18.1": "compared-field coverage: the attributes a class's deep_eq chain compares include "
             "every constructor-declared state attribute, and every comparison pairs self.X with "
             "other.X for the same X",
    "R18.2": "kind exactness: for every concrete class the deep_eq chain contains an "
             "isinstance(other, T) guard whose T no other concrete class shares",
    "R18.3": "order insensitivity without truncation: every pairwise comparison of two child "
             "collections zips both sides sorted by the same key and is preceded by a length "
             "equality test",
    "R18.5": "polarity: the 'differs' outcome of every comparison leads to 'return False' on every "
             "path and every returned expression is an and-chain of positive comparisons",
    "R18.4": "optional referents are handled symmetrically before the recursive call",
}
CONCRETE = ["IR", "Module", "Section", "ByteInterval", "CodeBlock", "DataBlock", "ProxyBlock",
            "Symbol", "SymAddrConst", "SymAddrAddr", "CFG"]
NOT_COMPARED = {("IR", "aux_data"): "keys only, as documented", ("Module", "aux_data"): "keys only"}


def _chain(c: ClassInfo) -> List[FuncInfo]:
    """deep_eq bodies executed for an instance of c (own + super().deep_eq)"""
    out: List[FuncInfo] = []
    mro = c.mro_classes()
    idx = 0
    while idx < len(mro):
        k = mro[idx]
        f = k.methods.get("deep_eq")
        idx += 1
        if f is None:
            continue
        if _only_raises(f):
            continue
        out.append(f)
        calls_super = any(isinstance(n, ast.Call) and isinstance(n.func, ast.Attribute)
                          and n.func.attr == "deep_eq" and isinstance(n.func.value, ast.Call)
                          and attr_path(n.func.value.func) == ("super",) for n in walk_no_nested(f.node))
        if not calls_super:
            break
    return out


def _covered_on_every_true_path(f: FuncInfo, chain: List[FuncInfo]) -> Optional[Tuple[Set[str], List[str]]]:
    """attributes that are compared — directly, by deep_eq, or pairwise over sorted children —
    on *every* outcome where f returns true; None when f is outside the summary fragment.
    Second component: notes about attributes that are only compared through some function of
    them (not injective: different values can give equal images)."""
    from ..summaries import Outside, Summary
    try:
        sm = Summary(f.node)
        dnf = sm.truthy_dnf()
    except Outside:
        return None
    s_, o_ = f.self_name, f.param_names()[1]
    notes: List[str] = []
    local_fns = set(f.nested())
    for conj in dnf:
        for k in conj:
            a0 = sm.atoms.operands[k][0]
            if k[0] == "truthy" and isinstance(a0, ast.Call) and isinstance(a0.func, ast.Name) and a0.func.id in local_fns:
                return None         # part of the comparison lives in a local helper: the flow-insensitive rule decides

    def direct(e: Optional[ast.AST], who: str) -> Optional[str]:
        """``who.attr`` or ``who.attr.keys()`` -> attr"""
        if e is None:
            return None
        if isinstance(e, ast.Call) and isinstance(e.func, ast.Attribute) and e.func.attr == "keys" and not e.args:
            e = e.func.value
        p = attr_path(e)
        if p and len(p) == 2 and p[0] == who:
            return p[1]
        return None

    def attrs_of(conj) -> Set[str]:
        got: Set[str] = set()
        none_self: Set[str] = set()
        none_other: Set[str] = set()
        for k, v in conj.items():
            a, b = sm.atoms.operands[k]
            if k[0] == "Eq" and v:
                for x, y in ((a, b), (b, a)):
                    p, q = direct(x, s_), direct(y, o_)
                    if p and p == q:
                        got.add(p)
                if not got & ({direct(a, s_), direct(b, s_)} - {None}):
                    sa = _side_attrs(a, s_, {}) | _side_attrs(b, s_, {})
                    ob = _side_attrs(a, o_, {}) | _side_attrs(b, o_, {})
                    for x in sa & ob:
                        is_len = all(isinstance(z, ast.Call) and attr_path(z.func) == ("len",) for z in (a, b))
                        if not is_len:
                            notes.append("%s is compared only through %s" % (x, unparse(a)[:50]))
            elif k[0] == "Is" and v:
                for x, y in ((a, b), (b, a)):
                    if isinstance(y, ast.Constant) and y.value is None:
                        if direct(x, s_):
                            none_self.add(direct(x, s_))
                        if direct(x, o_):
                            none_other.add(direct(x, o_))
            elif k[0] == "truthy" and v and isinstance(a, ast.Call):
                fn_ = a.func
                if isinstance(fn_, ast.Attribute) and fn_.attr == "deep_eq" and len(a.args) == 1:
                    if isinstance(fn_.value, ast.Call) and attr_path(fn_.value.func) == ("super",):
                        # the parent's comparison: whatever it covers on all of its true paths
                        idx = chain.index(f) if f in chain else -1
                        if 0 <= idx < len(chain) - 1:
                            sub = _covered_on_every_true_path(chain[idx + 1], chain)
                            if sub is not None:
                                got |= sub[0]
                                notes.extend(sub[1])
                    else:
                        for x, y in ((fn_.value, a.args[0]), (a.args[0], fn_.value)):
                            p, q = direct(x, s_), direct(y, o_)
                            if p and p == q:
                                got.add(p)
                elif attr_path(fn_) == ("all",) and a.args:
                    zips = [z for z in ast.walk(a.args[0]) if isinstance(z, ast.Call) and attr_path(z.func) == ("zip",)
                            and len(z.args) == 2]
                    for z in zips:
                        sa = _side_attrs(z.args[0], s_, {}) | _side_attrs(z.args[1], s_, {})
                        ob = _side_attrs(z.args[0], o_, {}) | _side_attrs(z.args[1], o_, {})
                        got |= (sa & ob)
        got |= (none_self & none_other)
        return got
    if not dnf:
        return set(), notes
    cov = None
    for conj in dnf:
        a_ = attrs_of(conj)
        cov = a_ if cov is None else (cov & a_)
    return cov or set(), notes


def _only_raises(f: FuncInfo) -> bool:
    body = [s for s in f.node.body if not (isinstance(s, ast.Expr) and isinstance(s.value, ast.Constant))]
    return len(body) == 1 and isinstance(body[0], ast.Raise)


def _side_attrs(e: ast.AST, who: str, consts: Dict[str, List[str]]) -> Set[str]:
    out: Set[str] = set()
    for n in ast.walk(e):
        if isinstance(n, ast.Attribute) and isinstance(n.value, ast.Name) and n.value.id == who:
            out.add(n.attr)
        if isinstance(n, ast.Call) and attr_path(n.func) == ("getattr",) and len(n.args) >= 2 \
                and isinstance(n.args[0], ast.Name) and n.args[0].id == who:
            s = const_str(n.args[1])
            if s:
                out.add(s)
            elif isinstance(n.args[1], ast.Name) and n.args[1].id in consts:
                out |= set(consts[n.args[1].id])
    return out


def _loop_consts(f: FuncInfo) -> Dict[str, List[str]]:
    out: Dict[str, List[str]] = {}
    for n in walk_no_nested(f.node):
        if isinstance(n, ast.For) and isinstance(n.target, ast.Name) and isinstance(n.iter, (ast.Tuple, ast.List)):
            vals = [const_str(e) for e in n.iter.elts]
            if all(v is not None for v in vals):
                out.setdefault(n.target.id, []).extend(vals)  # type: ignore[arg-type]
    return out


def run(chk: Check) -> None:
    chk.explanation = (
        "Structural facts about every deep_eq body: which attributes are compared (against the "
        "constructor-declared state), whether each comparison pairs the same attribute on both "
        "sides, whether the isinstance guard is exact for every concrete class (class-hierarchy "
        "resolution), and whether each zip over children is sorted by one key on both sides and "
        "protected by a length test.  Reflexivity/symmetry as runtime facts are not decided "
        "beyond this structural symmetry.")
    for k, v in RULES.items():
        chk.rule(k, v)
    repo = chk.repo
    concrete = [repo.cls(n) for n in CONCRETE]
    n_zip = 0
    for c in concrete:
        chain = _chain(c)
        if not chain:
            chk.ob("R18.1", "%s:has-deep_eq" % c.qualname, False, c.loc(),
                   "%s resolves no deep_eq implementation" % c.qualname, 1)
            continue
        for f in chain:
            chk.saw(f)
        # ---------------- R18.2
        guards: List[ClassInfo] = []
        for f in chain:
            o = f.param_names()[1]
            for n in walk_no_nested(f.node):
                if isinstance(n, ast.Call) and attr_path(n.func) == ("isinstance",) and len(n.args) == 2 \
                        and attr_path(n.args[0]) == (o,):
                    d = dotted(n.args[1])
                    k = repo.resolve_name(f.module, ".".join(d), f.cls) if d else None
                    if k is not None:
                        guards.append(k)
        mine = {c} | set(repo.subclasses(c))
        exact = False
        sharers: List[str] = []
        for g in guards:
            others = [k for k in concrete if (k is g or k.is_subclass_of(g)) and k not in mine]
            if not others and (c is g or c.is_subclass_of(g)):
                exact = True
            else:
                sharers = [k.qualname for k in others]
        chk.ob("R18.2", "%s:exact-kind-guard" % c.qualname, exact, chain[0].loc(),
               "for a %s the deep_eq chain (%s) only checks isinstance(other, %s), which %s also "
               "satisfy: a %s compares equal to a node of another kind with the same compared "
               "fields, in one direction only"
               % (c.qualname, " -> ".join(f.qualname for f in chain),
                  "/".join(g.qualname for g in guards) or "nothing", ", ".join(sharers) or "other kinds",
                  c.qualname), 3)
        # a test of the exact class (type(other) is type(self)) turns away instances of a client's
        # subclass, which are nodes of the kind with the same compared fields (a loaded copy is
        # always of the stock class)
        for f in chain:
            o = f.param_names()[1]
            me_ = f.self_name

            def _class_of(e: ast.AST) -> Optional[str]:
                if isinstance(e, ast.Call) and attr_path(e.func) == ("type",) and len(e.args) == 1 \
                        and attr_path(e.args[0]) in ((o,), (me_,)):
                    return attr_path(e.args[0])[0]
                if isinstance(e, ast.Attribute) and e.attr == "__class__" and attr_path(e.value) in ((o,), (me_,)):
                    return attr_path(e.value)[0]
                return None
            exact_tests = [n for n in walk_no_nested(f.node) if isinstance(n, ast.Compare) and len(n.ops) == 1
                           and isinstance(n.ops[0], (ast.Is, ast.IsNot, ast.Eq, ast.NotEq))
                           and _class_of(n.left) == o or isinstance(n, ast.Compare) and len(n.ops) == 1
                           and isinstance(n.ops[0], (ast.Is, ast.IsNot, ast.Eq, ast.NotEq))
                           and _class_of(n.comparators[0]) == o]
            chk.ob("R18.2", "%s:%s:kind-guard-admits-subclasses" % (c.qualname, f.qualname), not exact_tests,
                   f.loc(exact_tests[0]) if exact_tests else f.loc(),
                   "%s tests the exact class of the other node (%s): a node of a client subclass with the same "
                   "UUID and content is a node of this kind and must compare equal"
                   % (f.qualname, unparse(exact_tests[0])[:60] if exact_tests else "-"), 2)
        # ---------------- R18.1
        if c.name != "CFG":
            init = c.find_method("__init__")
            state: List[Tuple[str, Tuple[str, ...]]] = []
            if init is not None:
                for p in init.param_names()[1:]:
                    if p in PARENT_PARAMS or (c.name, p) in DERIVED:
                        continue
                    state.append((p, PARAM_ATTRS.get((c.name, p), (p,))))
            compared: Set[str] = set()
            for f in chain:
                s, o = f.self_name, f.param_names()[1]
                consts = _loop_consts(f)
                a = _side_attrs(f.node, s, consts)
                b = _side_attrs(f.node, o, consts)
                compared |= (a & b)
                # comparisons moved into local helper functions count (same names for the two
                # sides or the helper's own parameter names)
                for inner in f.nested().values():
                    ic = _loop_consts(inner)
                    for sn in {s} | set(inner.param_names()):
                        for on in {o} | set(inner.param_names()):
                            if sn != on:
                                compared |= (_side_attrs(inner.node, sn, ic) & _side_attrs(inner.node, on, ic))
            for p, attrs in state:
                missing = [a for a in attrs if a not in compared]
                chk.ob("R18.1", "%s.%s:compared" % (c.qualname, p), not missing, chain[0].loc(),
                       "deep_eq of %s never compares %s: two nodes differing only there are reported "
                       "equal" % (c.qualname, "/".join(missing)), 2)
            cov = _covered_on_every_true_path(chain[0], chain)
            if cov is not None:
                covered, notes = cov
                for p, attrs in state:
                    if (c.name, p) in NOT_COMPARED and attrs[0] not in covered:
                        continue
                    missing = [a for a in attrs if a not in covered]
                    why = "; ".join(sorted({n_ for n_ in notes if any(n_.startswith(a + " ") for a in missing)}))
                    chk.ob("R18.1", "%s.%s:compared-on-every-true-path" % (c.qualname, p), not missing,
                           chain[0].loc(),
                           "deep_eq of %s can return True on a path where %s was not compared (directly, "
                           "by deep_eq, or pairwise over the sorted children)%s: two nodes differing only "
                           "there are reported equal" % (c.qualname, "/".join(missing),
                                                         " — " + why if why else ""), 3)
        # pairing: every comparison pairs the same attribute
        for f in chain:
            s, o = f.self_name, f.param_names()[1]
            consts = _loop_consts(f)
            for n in walk_no_nested(f.node):
                sides: Optional[Tuple[ast.AST, ast.AST]] = None
                if isinstance(n, ast.Compare) and len(n.ops) == 1 and \
                        isinstance(n.ops[0], (ast.Eq, ast.NotEq, ast.Is, ast.IsNot)):
                    sides = (n.left, n.comparators[0])
                elif isinstance(n, ast.Call) and isinstance(n.func, ast.Attribute) and n.func.attr == "deep_eq" \
                        and len(n.args) == 1 and not (isinstance(n.func.value, ast.Call)):
                    sides = (n.func.value, n.args[0])
                if sides is None:
                    continue
                l_s, l_o = _side_attrs(sides[0], s, consts), _side_attrs(sides[0], o, consts)
                r_s, r_o = _side_attrs(sides[1], s, consts), _side_attrs(sides[1], o, consts)
                if not ((l_s and r_o) or (l_o and r_s)):
                    continue
                a, b = (l_s, r_o) if l_s and r_o else (r_s, l_o)
                chk.ob("R18.1", "%s:pairs(%s)" % (f.qualname, "/".join(sorted(a))), a == b, f.loc(n),
                       "%s compares self.%s with other.%s" % (f.qualname, "/".join(sorted(a)), "/".join(sorted(b))), 2)
        # ---------------- R18.3
        for f in chain:
            if f.cls is not c and c.name != f.cls.name and f.cls.name in CONCRETE:
                continue      # analysed with its own class
            n_zip += _zips(chk, f)
            for inner in f.nested().values():
                n_zip += _zips(chk, inner)      # comparisons moved into local helper functions
        # ---------------- R18.4
        for f in chain:
            if f.cls is c:
                _optional(chk, f)
    chk.floor("R18.3", "zip sites over child collections", n_zip, 4)
    npol = polarity(chk)
    chk.floor("R18.5", "comparison atoms in deep_eq bodies", npol, 21)
    adc = repo.cls("AuxDataContainer").methods.get("deep_eq")
    if adc is not None:
        chk.saw(adc)
        uses = [n for n in walk_no_nested(adc.node) if isinstance(n, ast.Attribute) and n.attr == "aux_data"]
        ok = bool(uses) and all(isinstance(getattr(u, "_parent", None), ast.Attribute)
                                and getattr(u, "_parent").attr == "keys" for u in uses)
        cmps = [n for n in walk_no_nested(adc.node) if isinstance(n, ast.Compare) and "aux_data" in unparse(n)]
        ok = ok and len(cmps) == 1 and unparse(cmps[0].left).replace("self", "$") == \
            unparse(cmps[0].comparators[0]).replace(adc.param_names()[1], "$")
        chk.ob("R18.1", "AuxDataContainer.deep_eq:keys-only", ok, adc.loc(),
               "AuxData tables are compared by their key sets only (documented: values are not "
               "compared, and neither are type names): aux_data must be used only as "
               "self.aux_data.keys() vs other.aux_data.keys()", 2)
    # deep_eq looks at content, not at bookkeeping: the UUID table, the interval indexes, the symbol
    # tables and the pending-message stash are derived state that two equal trees need not share
    # (an identifier assigned after attaching, a query issued on one side only)
    BOOK = ("_local_uuid_cache", "_interval_tree", "_interval_index", "_interval_events", "_symbol_name_index",
            "_symbol_referent_index", "_proto_interval", "_lazy_container")
    for g_ in repo.all_functions():
        if g_.name != "deep_eq":
            continue
        for x in ast.walk(g_.node):
            if isinstance(x, ast.Attribute) and x.attr in BOOK:
                chk.saw(g_)
                chk.ob("R18.1", "%s:reads-content-only(%s)" % (g_.qualname, x.attr), False, g_.loc(x),
                       "%s consults %s: derived bookkeeping, not compared content — equal trees can differ there"
                       % (g_.qualname, x.attr), 1)
    # Edge endpoints by deep_eq, labels by != in CFG.deep_eq
    f = repo.cls("CFG").methods.get("deep_eq")
    if f is not None:
        _edge_key_total(chk, f)
        txt = unparse(f.node)
        ok = ".source.deep_eq(" in txt and ".target.deep_eq(" in txt and ".label" in txt
        chk.ob("R18.1", "CFG.deep_eq:edges-compared", ok, f.loc(),
               "CFG.deep_eq must compare edge labels by value and both endpoints by deep_eq", 2)
        # ... for every pair of edges: no way round the three comparisons inside the loop over the
        # pairs (a memo of endpoints "already compared" skips the comparison of a block that is
        # paired with a different block the second time)
        from ..cfg import CFG as _Flow
        loops = [lp for lp in walk_no_nested(f.node) if isinstance(lp, ast.For) and any(
            isinstance(x, ast.Attribute) and x.attr in ("source", "target") for b_ in lp.body for x in ast.walk(b_))]
        if ok and len(loops) == 1:
            lp = loops[0]
            flow = _Flow(f.node)
            try:
                head = flow.by_ast[id(lp)]
                body_in = [s_ for s_ in flow.g.successors(head)
                           if flow.info[s_].kind == "branch" and flow.info[s_].value]
            except (KeyError, AnalysisError):
                body_in = []
            for what in ("source", "target"):
                sites = flow.nodes_where(lambda n, w=what: any(
                    isinstance(x, ast.Call) and isinstance(x.func, ast.Attribute) and x.func.attr == "deep_eq"
                    and isinstance(x.func.value, ast.Attribute) and x.func.value.attr == w for x in ast.walk(n)
                    if not isinstance(n, (ast.For, ast.While, ast.If))) or (
                    isinstance(n, ast.If) and any(
                        isinstance(x, ast.Call) and isinstance(x.func, ast.Attribute) and x.func.attr == "deep_eq"
                        and isinstance(x.func.value, ast.Attribute) and x.func.value.attr == w
                        for x in ast.walk(n.test))))
                wit = flow.path_avoiding(body_in[0], head, sites) if body_in else None
                chk.ob("R18.1", "CFG.deep_eq:every-pair-compares-%s" % what, bool(body_in) and wit is None, f.loc(lp),
                       "an iteration over the paired edges can finish without comparing the %s blocks by deep_eq: %s"
                       % (what, " -> ".join(flow.describe_path(wit)) if wit else "-"), 3)
        # a CFG is its set of edges: the vertices of the backing multigraph are not content (an
        # endpoint stays a vertex after its last edge is discarded, and is not saved)
        bad = []
        for n in ast.walk(f.node):
            if isinstance(n, ast.Attribute) and n.attr == "_nxg":
                par = getattr(n, "_parent", None)
                if isinstance(par, ast.Attribute) and par.value is n:
                    if par.attr not in ("number_of_edges", "edges", "size"):
                        bad.append(par)
                else:
                    bad.append(n)        # len(g), x in g, iteration, g == h: all about vertices
        chk.ob("R18.3", "CFG.deep_eq:graph-read-through-edges-only", not bad, f.loc(bad[0]) if bad else f.loc(),
               "CFG.deep_eq reads the backing multigraph other than through its edges (%s): vertices "
               "without edges are not part of the CFG's content" % (unparse(bad[0]) if bad else "-"), 2)


def _sorted_call(e: ast.AST, al: Dict[str, ast.AST]) -> Optional[ast.Call]:
    if isinstance(e, ast.Name) and e.id in al:
        e = al[e.id]
    if isinstance(e, ast.Call) and attr_path(e.func) == ("sorted",):
        return e
    return None


def _zips(chk: Check, f: FuncInfo) -> int:
    n = 0
    al = local_aliases(f.node)
    # names bound in for-loops over constant attr lists are re-bound per iteration; take the
    # assignment inside the loop body
    for z in walk_no_nested(f.node):
        if not (isinstance(z, ast.Call) and attr_path(z.func) == ("zip",) and len(z.args) == 2):
            continue
        binds: Dict[str, ast.AST] = dict(al)
        for a in walk_no_nested(f.node):
            if isinstance(a, ast.Assign) and isinstance(a.targets[0], ast.Name):
                binds.setdefault(a.targets[0].id, a.value)
        s0, s1 = _sorted_call(z.args[0], binds), _sorted_call(z.args[1], binds)
        n += 1
        key = "%s:zip@%s" % (f.qualname, _short(z.args[0]))
        if s0 is None or s1 is None:
            chk.ob("R18.3", key + ":sorted", False, f.loc(z),
                   "%s zips child collections that are not both sorted: the result depends on "
                   "iteration order" % f.qualname, 2)
            continue
        k0 = [k.value for k in s0.keywords if k.arg == "key"]
        k1 = [k.value for k in s1.keywords if k.arg == "key"]
        same_key = bool(k0) and bool(k1) and _lam(k0[0]) == _lam(k1[0])
        chk.ob("R18.3", key + ":same-key", same_key, f.loc(z),
               "the two sides are sorted by different keys (%s vs %s): equal collections would be "
               "paired element-wise in different orders"
               % (unparse(k0[0]) if k0 else "none", unparse(k1[0]) if k1 else "none"), 2)
        # length test before the zip
        c0, c1 = unparse(s0.args[0]), unparse(s1.args[0])
        n0 = z.args[0].id if isinstance(z.args[0], ast.Name) else None
        n1 = z.args[1].id if isinstance(z.args[1], ast.Name) else None
        cands = [(c0, c1)]
        if n0 and n1:
            cands.append((n0, n1))
        # strip the accessor, e.g. ``.items()``
        cands.append((c0.replace(".items()", ""), c1.replace(".items()", "")))
        ok = _length_tested(f, z, cands)
        chk.ob("R18.3", key + ":length-test", ok, f.loc(z),
               "the pairwise comparison of %s and %s is not preceded by an equality test of their "
               "lengths: zip silently ignores the surplus of the longer side" % (c0, c1), 3)
    return n


def _short(e: ast.AST) -> str:
    return "".join(ch for ch in unparse(e) if ch.isalnum() or ch in "._")[:30]


def _lam(e: ast.AST) -> str:
    if isinstance(e, ast.Lambda):
        arg = e.args.args[0].arg if e.args.args else ""
        body = ast.dump(e.body)
        return body.replace("id='%s'" % arg, "id='$'")
    return ast.dump(e)


def _length_tested(f: FuncInfo, z: ast.Call, cands: List[Tuple[str, str]]) -> bool:
    def is_len_eq(e: ast.AST) -> Optional[bool]:
        """True: e asserts equal lengths; False: e asserts unequal lengths; None: unrelated"""
        neg = False
        while isinstance(e, ast.UnaryOp) and isinstance(e.op, ast.Not):
            neg = not neg
            e = e.operand
        if isinstance(e, ast.Compare) and len(e.ops) == 1 and isinstance(e.ops[0], (ast.Eq, ast.NotEq)):
            l, r = unparse(e.left), unparse(e.comparators[0])
            for a, b in cands:
                forms = [("len(%s)" % a, "len(%s)" % b), ("len(%s)" % b, "len(%s)" % a)]
                if (l, r) in forms or (".number_of_edges()" in l and ".number_of_edges()" in r):
                    eq = isinstance(e.ops[0], ast.Eq)
                    return eq != neg
        return None
    # (a) earlier operand of the same ``and`` chain
    cur: ast.AST = z
    par = getattr(cur, "_parent", None)
    while par is not None and par is not f.node:
        if isinstance(par, ast.BoolOp) and isinstance(par.op, ast.And):
            idx = [i for i, v in enumerate(par.values) if v is cur or any(x is cur for x in ast.walk(v))]
            if idx:
                for v in par.values[:idx[0]]:
                    if is_len_eq(v) is True:
                        return True
        cur, par = par, getattr(par, "_parent", None)
    # (b) a dominating ``if <lengths differ>: return False``
    cfg = CFG(f.node)
    try:
        zn = cfg.node_of(z)
    except AnalysisError:
        return False
    eq_br: Set[int] = set()
    for n, i in cfg.info.items():
        if i.kind == "test" and i.ast is not None:
            v = is_len_eq(i.ast)
            if v is None:
                continue
            for b in cfg.g.successors(n):
                bi = cfg.info[b]
                if bi.kind == "branch" and (bi.value == v):
                    eq_br.add(b)
    return bool(eq_br) and cfg.path_avoiding(cfg.entry, zn, eq_br) is None


def _optional_by_summary(chk: Check, f: FuncInfo) -> bool:
    """loop-free bodies: case split (E11).  self.x.deep_eq(other.x) is evaluated only after
    ``self.x is None`` came out false, and where self.x is None the result is true only if
    other.x is None as well — in any spelling (and-chain, conditional expression, guards)"""
    from ..summaries import Outside, Summary
    try:
        sm = Summary(f.node)
    except Outside:
        return False
    s, o = f.self_name, f.param_names()[1]
    seen: Dict[str, Dict[str, bool]] = {}
    for p in sm.paths:
        if p.kind == "raise":
            continue
        outs = [(p.facts, False)] if p.returns_none() else list(sm.branches(p.value, p.facts))
        for facts, v in outs:
            order = list(facts)
            for idx, k in enumerate(order):
                a0 = sm.atoms.operands[k][0]
                if not (k[0] == "truthy" and isinstance(a0, ast.Call) and isinstance(a0.func, ast.Attribute)
                        and a0.func.attr == "deep_eq" and len(a0.args) == 1):
                    continue
                recv, arg = attr_path(a0.func.value), attr_path(a0.args[0])
                if not recv or len(recv) != 2 or recv[0] != s or arg != (o, recv[1]):
                    continue
                x = recv[1]
                if x not in ("entry_point", "referent") and not any(
                        kk[0] == "Is" and set(kk[1:]) == {"None", "%s.%s" % (s, x)} for kk in sm.atoms.operands):
                    continue
                st = seen.setdefault(x, {"guard": True, "symmetric": True, "tested": False})
                guard = [kk for kk in order[:idx] if kk[0] == "Is" and set(kk[1:]) == {"None", "%s.%s" % (s, x)}]
                if not guard or facts[guard[0]] is not False:
                    st["guard"] = False
            for k, val in facts.items():
                if k[0] == "Is" and len(k) == 3 and "None" in k[1:] and val:
                    other_ = [z for z in k[1:] if z != "None"][0]
                    if other_.startswith(s + ".") and other_.count(".") == 1:
                        x = other_.split(".")[1]
                        if x in seen or x in ("entry_point", "referent"):
                            st = seen.setdefault(x, {"guard": True, "symmetric": True, "tested": False})
                            st["tested"] = True
                            ko = [kk for kk in facts if kk[0] == "Is" and set(kk[1:]) == {"None", "%s.%s" % (o, x)}]
                            if v and not (ko and facts[ko[0]] is True):
                                st["symmetric"] = False
    for x, st in seen.items():
        chk.ob("R18.4", "%s:%s-none-guard" % (f.qualname, x), st["guard"], f.loc(),
               "%s calls self.%s.deep_eq(...) on a path where self.%s may be None" % (f.qualname, x, x), 2)
        chk.ob("R18.4", "%s:%s-none-symmetric" % (f.qualname, x), st["symmetric"] and st["tested"], f.loc(),
               "when self.%s is None, %s must report inequality if other.%s is not None" % (x, f.qualname, x), 2)
    return True


def _optional(chk: Check, f: FuncInfo) -> None:
    if _optional_by_summary(chk, f):
        return
    s, o = f.self_name, f.param_names()[1]
    cfg = None
    for n in walk_no_nested(f.node):
        if isinstance(n, ast.Call) and isinstance(n.func, ast.Attribute) and n.func.attr == "deep_eq" \
                and len(n.args) == 1:
            recv = attr_path(n.func.value)
            arg = attr_path(n.args[0])
            if not recv or len(recv) != 2 or recv[0] != s or not arg or arg != (o, recv[1]):
                continue
            x = recv[1]
            # is self.x optional?  only when the function itself tests it for None
            tests = [t for t in walk_no_nested(f.node) if isinstance(t, ast.Compare) and len(t.ops) == 1
                     and isinstance(t.ops[0], (ast.Is, ast.IsNot)) and attr_path(t.left) == (s, x)]
            optional_attr = x in ("entry_point", "referent")
            if not tests and not optional_attr:
                continue
            cfg = cfg or CFG(f.node)
            nn = cfg.node_of(n)
            notnone: Set[int] = set()
            none: Set[int] = set()
            for tn, i in cfg.info.items():
                if i.kind == "test" and isinstance(i.ast, ast.Compare) and len(i.ast.ops) == 1 and \
                        isinstance(i.ast.ops[0], (ast.Is, ast.IsNot)) and attr_path(i.ast.left) == (s, x):
                    for b in cfg.g.successors(tn):
                        bi = cfg.info[b]
                        if bi.kind == "branch":
                            (notnone if bi.value == isinstance(i.ast.ops[0], ast.IsNot) else none).add(b)
            ok = bool(notnone) and cfg.path_avoiding(cfg.entry, nn, notnone) is None
            chk.ob("R18.4", "%s:%s-none-guard" % (f.qualname, x), ok, f.loc(n),
                   "%s calls self.%s.deep_eq(...) on a path where self.%s may be None" % (f.qualname, x, x), 2)
            # on the None side, other.x must be tested
            other_tested = False
            for b in none:
                reach = cfg.reachable(b)
                for tn in reach:
                    i = cfg.info[tn]
                    if i.kind == "test" and isinstance(i.ast, ast.Compare) and \
                            attr_path(i.ast.left) == (o, x) and isinstance(i.ast.ops[0], (ast.Is, ast.IsNot)):
                        other_tested = True
                    # ``return other.x is None``: the comparison is the result
                    if isinstance(i.ast, ast.Return) and i.ast.value is not None and any(
                            isinstance(c_, ast.Compare) and len(c_.ops) == 1 and isinstance(c_.ops[0], (ast.Is, ast.IsNot))
                            and (attr_path(c_.left) == (o, x) or attr_path(c_.comparators[0]) == (o, x))
                            for c_ in ast.walk(i.ast.value)):
                        other_tested = True
            chk.ob("R18.4", "%s:%s-none-symmetric" % (f.qualname, x), other_tested, f.loc(n),
                   "when self.%s is None, %s must report inequality if other.%s is not None" % (x, f.qualname, x), 2)


def _edge_key_total(chk: Check, f: FuncInfo) -> None:
    """the key the two edge lists are sorted by must separate everything the pairwise
    comparison distinguishes: both endpoint UUIDs and every field of the label"""
    repo = chk.repo
    fields = list(repo.cls("EdgeLabel").class_annots)
    keyfn = None
    for n in walk_no_nested(f.node):
        if isinstance(n, ast.Call) and attr_path(n.func) == ("sorted",):
            for k in n.keywords:
                if k.arg == "key":
                    keyfn = k.value
    body = None
    if isinstance(keyfn, ast.Name):
        g = f.nested().get(keyfn.id)
        body = g.node if g is not None else None
    elif isinstance(keyfn, ast.Lambda):
        body = keyfn
    if body is None:
        chk.ob("R18.3", "CFG.deep_eq:sort-key-total", False, f.loc(),
               "CFG.deep_eq does not sort the two edge lists by a key function", 1)
        return
    attrs = {x.attr for x in ast.walk(body) if isinstance(x, ast.Attribute)}
    paths = {".".join(attr_path(x)[1:]) for x in ast.walk(body) if isinstance(x, ast.Attribute) and attr_path(x)}
    need_ends = any(p.endswith("source.uuid") for p in paths) and any(p.endswith("target.uuid") for p in paths)
    missing = [fl for fl in fields if fl not in attrs]
    chk.ob("R18.3", "CFG.deep_eq:sort-key-total", need_ends and not missing, f.loc(),
           "the edge sort key must order by source UUID, target UUID and every label field (%s); it "
           "omits %s: parallel edges that differ only there can be paired in different orders on the "
           "two sides, so equal graphs compare unequal"
           % (", ".join(fields), ", ".join(missing) or ("an endpoint UUID" if not need_ends else "nothing")),
           len(fields) + 2)


# ---------------------------------------------------------------------------
# R18.5 polarity: deep_eq is the conjunction of its comparisons


def _atom_polarity(t: ast.AST) -> Optional[bool]:
    """True: the expression is true when the two sides AGREE; False: true when they DIFFER;
    None: not a comparison atom"""
    neg = False
    while isinstance(t, ast.UnaryOp) and isinstance(t.op, ast.Not):
        neg = not neg
        t = t.operand
    if isinstance(t, ast.Compare) and len(t.ops) == 1:
        if isinstance(t.ops[0], (ast.Eq, ast.Is)):
            return not neg
        if isinstance(t.ops[0], (ast.NotEq, ast.IsNot)):
            return neg
        return None
    if isinstance(t, ast.Call) and isinstance(t.func, ast.Attribute) and t.func.attr == "deep_eq":
        return not neg
    if isinstance(t, ast.Call) and attr_path(t.func) == ("isinstance",):
        return not neg
    if isinstance(t, ast.Call) and attr_path(t.func) == ("all",) and len(t.args) == 1:
        return not neg
    return None


def _positive_conjunction(e: ast.AST) -> Tuple[bool, str]:
    """is e an and-chain of positively-polarised atoms (constants True allowed)?"""
    if isinstance(e, ast.BoolOp):
        if not isinstance(e.op, ast.And):
            return False, "uses 'or': %s" % unparse(e)[:60]
        for v in e.values:
            ok, why = _positive_conjunction(v)
            if not ok:
                return ok, why
        return True, ""
    if isinstance(e, ast.Constant) and e.value is True:
        return True, ""
    if isinstance(e, ast.Call) and attr_path(e.func) == ("all",) and len(e.args) == 1 and \
            isinstance(e.args[0], (ast.GeneratorExp, ast.ListComp)):
        return _positive_conjunction(e.args[0].elt)
    p = _atom_polarity(e)
    if p is True:
        return True, ""
    if p is False:
        return False, "negated comparison in the result: %s" % unparse(e)[:60]
    return False, "not a comparison: %s" % unparse(e)[:60]


def polarity(chk: Check) -> int:
    """every deep_eq returns True exactly under the conjunction of its comparisons: the
    'differs' outcome of each test leads to 'return False' on every path, and every returned
    expression is an and-chain of positive comparisons"""
    repo = chk.repo
    n = 0
    for c in repo.classes.values():
        f = c.methods.get("deep_eq")
        if f is None or _only_raises(f):
            continue
        chk.saw(f)
        n += 1
        oparam = f.param_names()[1]
        done = _polarity_by_summary(chk, f, oparam)
        if done is not None:
            n += done
            continue
        cfg = CFG(f.node)
        # returned expressions
        for r in walk_no_nested(f.node):
            if not isinstance(r, ast.Return) or r.value is None:
                continue
            if isinstance(r.value, ast.Constant):
                continue
            ok, why = _positive_conjunction(r.value)
            chk.ob("R18.5", "%s:result-is-conjunction@L%s" % (f.qualname, _rk(r.value)), ok, f.loc(r),
                   "%s must return the conjunction of its comparisons; %s" % (f.qualname, why), 2)
        false_rets = cfg.nodes_where(lambda x: isinstance(x, ast.Return) and isinstance(x.value, ast.Constant)
                                     and x.value.value is False)
        true_like = cfg.nodes_where(lambda x: isinstance(x, ast.Return) and not (
            isinstance(x.value, ast.Constant) and x.value.value is False))
        for tn, i in cfg.info.items():
            if i.kind != "test" or i.ast is None:
                continue
            pol = _atom_polarity(i.ast)
            if pol is None:
                continue
            oparam = f.param_names()[1]
            if not any(isinstance(x, ast.Name) and (x.id == oparam or "other" in x.id) for x in ast.walk(i.ast)):
                continue      # a presence test on self alone, not a comparison of the two sides
            n += 1
            for b in cfg.g.successors(tn):
                bi = cfg.info[b]
                if bi.kind != "branch":
                    continue
                differs = (bi.value != pol)
                if not differs:
                    continue
                # from the 'differs' outcome no path may reach a non-False return
                reach = cfg.reachable(b)
                bad = [t_ for t_ in true_like if t_ in reach]
                if bi.value is False:
                    # ``return <the comparison that just came out false>`` (directly or through the
                    # local it was bound to) returns that falsy result: a "false" return
                    al_ = local_aliases(f.node)

                    def same_as_atom(r_: ast.AST) -> bool:
                        v_ = getattr(r_, "value", None)
                        if isinstance(v_, ast.Name) and v_.id in al_:
                            v_ = al_[v_.id]
                        return v_ is not None and unparse(v_) == unparse(i.ast)
                    falsy_here = [t_ for t_ in bad if same_as_atom(cfg.info[t_].ast)]
                    bad = [t_ for t_ in bad if t_ not in falsy_here]
                else:
                    falsy_here = []
                falls = cfg.exit in reach and not any(fr in reach for fr in list(false_rets) + falsy_here) and not bad
                chk.ob("R18.5", "%s:differs->False(%s)" % (f.qualname, _rk(i.ast)), not bad and not falls,
                       f.loc(i.ast),
                       "in %s, when %s says the two sides differ the function can still return a "
                       "non-False result: unequal objects would compare equal (or equal ones unequal)"
                       % (f.qualname, unparse(i.ast)[:60]), 2)
    return n


def _polarity_by_summary(chk: Check, f, oparam: str) -> Optional[int]:
    """loop-free deep_eq bodies: case split over the atoms (E11).  Whenever a comparison of the
    two sides comes out as 'differ', the result must be false — however the body is spelt
    (one and-chain, guard clauses, nested ifs, a result variable).  None: outside the fragment."""
    from ..summaries import Outside, Summary
    try:
        sm = Summary(f.node)
    except Outside:
        return None
    bad: Dict[Tuple[str, ...], bool] = {}
    seen: Dict[Tuple[str, ...], ast.AST] = {}

    def agree_when(k) -> Optional[bool]:
        a, b = sm.atoms.operands[k]
        two_sided = any(isinstance(x, ast.Name) and (x.id == oparam or "other" in x.id)
                        for part in (a, b) if part is not None for x in ast.walk(part))
        if not two_sided or any(isinstance(part, ast.Constant) for part in (a, b)):
            return None         # a presence test on one side, not a comparison of the two
        if k[0] in ("Eq", "Is"):
            return True
        if k[0] == "truthy" and a is not None:
            return _atom_polarity(a)
        return None

    for p in sm.paths:
        if p.kind == "raise":
            continue
        if p.returns_none():
            outs = [(p.facts, False)]
        else:
            outs = list(sm.branches(p.value, p.facts))
        for facts, v in outs:
            for k, val in facts.items():
                pol = agree_when(k)
                if pol is None:
                    continue
                a, b = sm.atoms.operands[k]
                seen.setdefault(k, a if b is None else ast.Compare(left=a, ops=[ast.Eq() if k[0] == "Eq" else ast.Is()],
                                                                    comparators=[b]))
                bad.setdefault(k, False)
                if v and val != pol:
                    bad[k] = True
    for k, e in seen.items():
        chk.ob("R18.5", "%s:differs->False(%s)" % (f.qualname, _rk(e)), not bad[k], f.loc(),
               "in %s, when %s says the two sides differ the function can still return a "
               "true result: unequal objects would compare equal (or equal ones unequal)"
               % (f.qualname, unparse(e)[:60]), 2)
    return len(seen)


def _rk(e: ast.AST) -> str:
    return "".join(ch for ch in unparse(e) if ch.isalnum() or ch in "._")[:36]
