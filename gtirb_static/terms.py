"""E7: normalise the restricted expression language of accessors, aggregate
iterators and lookup delegations to small terms that can be compared.

Terms (tuples):
  ('self',) ('param', name) ('var', name) ('none',) ('empty',) ('const', v)
  ('attr', t, name)
  ('call', t_func, (args...))           t_func is an ('attr', ...) or ('name', n)
  ('name', n)
  ('union', over, var, body)            chain.from_iterable(body for var in over)
                                         / for var in over: yield from body
  ('chain', (t1, t2, ...))
  ('filter', t, classname)              (x for x in t if isinstance(x, classname))
  ('neg', t) ('binop', op, a, b) ('tuple', (..))
  ('guard', ((cond_term, value_term), ...), tail)   early returns before the tail
"""
from __future__ import annotations

import ast
from typing import Dict, List, Optional, Tuple

from .model import FuncInfo, attr_path, dotted, local_aliases

Term = tuple


class OutsideFragment(Exception):
    pass


def expr_term(e: ast.AST, f: FuncInfo, env: Dict[str, Term],
              aliases: Dict[str, ast.AST]) -> Term:
    if isinstance(e, ast.Name):
        if e.id in env:
            return env[e.id]
        if f.self_name and e.id == f.self_name:
            return ("self",)
        if e.id in f.param_names():
            return ("param", e.id)
        if e.id in aliases:
            return expr_term(aliases[e.id], f, env, aliases)
        return ("name", e.id)
    if isinstance(e, ast.Constant):
        if e.value is None:
            return ("none",)
        return ("const", e.value)
    if isinstance(e, ast.Attribute):
        return ("attr", expr_term(e.value, f, env, aliases), e.attr)
    if isinstance(e, ast.Tuple):
        if not e.elts:
            return ("empty",)
        return ("tuple", tuple(expr_term(x, f, env, aliases) for x in e.elts))
    if isinstance(e, ast.UnaryOp) and isinstance(e.op, ast.USub):
        return ("neg", expr_term(e.operand, f, env, aliases))
    if isinstance(e, ast.BinOp):
        return ("binop", type(e.op).__name__, expr_term(e.left, f, env, aliases),
                expr_term(e.right, f, env, aliases))
    if isinstance(e, ast.GeneratorExp) or isinstance(e, ast.ListComp):
        if len(e.generators) != 1:
            raise OutsideFragment("nested comprehension")
        g = e.generators[0]
        if not isinstance(g.target, ast.Name):
            raise OutsideFragment("comprehension target")
        over = expr_term(g.iter, f, env, aliases)
        v = g.target.id
        env2 = dict(env)
        env2[v] = ("var", v)
        body = expr_term(e.elt, f, env2, aliases)
        t: Term
        if body == ("var", v):
            t = over
        else:
            t = ("map", over, v, body)
        for cond in g.ifs:
            k = _isinstance_filter(cond, v)
            if k is None:
                raise OutsideFragment("comprehension condition %s" % ast.unparse(cond))
            if t[0] == "map":
                raise OutsideFragment("filter on mapped comprehension")
            t = ("filter", t, k)
        return t
    if isinstance(e, ast.Call):
        d = dotted(e.func)
        if d and d[-2:] == ("chain", "from_iterable") and len(e.args) == 1:
            inner = expr_term(e.args[0], f, env, aliases)
            if inner[0] == "map":
                return ("union", inner[1], inner[2], inner[3])
            return ("union", inner, "_", ("var", "_"))
        if d and d[-1] == "chain" and d[0] in ("itertools", "chain"):
            return ("chain", tuple(expr_term(a, f, env, aliases) for a in e.args))
        if d == ("iter",) and len(e.args) == 1:
            return expr_term(e.args[0], f, env, aliases)
        fn = expr_term(e.func, f, env, aliases)
        args = tuple(expr_term(a, f, env, aliases) for a in e.args)
        kws = tuple(sorted((k.arg or "**", expr_term(k.value, f, env, aliases)) for k in e.keywords))
        return ("call", fn, args) if not kws else ("call", fn, args, kws)
    if isinstance(e, ast.Compare) and len(e.ops) == 1:
        return ("cmp", type(e.ops[0]).__name__, expr_term(e.left, f, env, aliases),
                expr_term(e.comparators[0], f, env, aliases))
    if isinstance(e, ast.Compare):
        return ("cmpchain", tuple(type(o).__name__ for o in e.ops),
                tuple(expr_term(x, f, env, aliases) for x in [e.left] + list(e.comparators)))
    if isinstance(e, ast.BoolOp):
        return ("bool", type(e.op).__name__,
                tuple(expr_term(v, f, env, aliases) for v in e.values))
    if isinstance(e, ast.UnaryOp) and isinstance(e.op, ast.Not):
        return ("not", expr_term(e.operand, f, env, aliases))
    if isinstance(e, ast.IfExp):
        return ("ifexp", expr_term(e.test, f, env, aliases), expr_term(e.body, f, env, aliases),
                expr_term(e.orelse, f, env, aliases))
    if isinstance(e, ast.Subscript):
        return ("index", expr_term(e.value, f, env, aliases), expr_term(e.slice, f, env, aliases))
    if isinstance(e, ast.Slice):
        return ("slice",
                expr_term(e.lower, f, env, aliases) if e.lower else ("none",),
                expr_term(e.upper, f, env, aliases) if e.upper else ("none",))
    raise OutsideFragment("expression %s" % type(e).__name__)


def _isinstance_filter(cond: ast.AST, var: str) -> Optional[str]:
    if isinstance(cond, ast.Call) and attr_path(cond.func) == ("isinstance",) and len(cond.args) == 2 \
            and isinstance(cond.args[0], ast.Name) and cond.args[0].id == var:
        d = dotted(cond.args[1])
        if d:
            return d[-1]
    return None


def function_term(f: FuncInfo) -> Term:
    """Term for the value a function returns / the elements a generator
    yields.  Early ``if c: return v`` statements become a ('guard', ...)."""
    aliases = local_aliases(f.node)
    body = [s for s in f.node.body
            if not (isinstance(s, ast.Expr) and isinstance(s.value, ast.Constant))]
    guards: List[Tuple[Term, Term]] = []
    env: Dict[str, Term] = {}

    def block(stmts: List[ast.stmt]) -> Term:
        out: List[Term] = []
        i = 0
        while i < len(stmts):
            s = stmts[i]
            i += 1
            if isinstance(s, (ast.Assign, ast.AnnAssign)):
                # aliases are substituted at use; other assignments are outside the fragment
                tg = s.targets[0] if isinstance(s, ast.Assign) else s.target
                if isinstance(tg, ast.Name) and (tg.id in aliases or tg.id in f.param_names()):
                    if tg.id in f.param_names() and s.value is not None:
                        # ``addrs = get_desired_range(addrs)``: rebind the parameter
                        env[tg.id] = expr_term(s.value, f, env, aliases)
                    continue
                if isinstance(tg, ast.Name) and s.value is not None:
                    # a local rebound along the way: its value from here on (forward substitution)
                    env[tg.id] = expr_term(s.value, f, env, aliases)
                    continue
                raise OutsideFragment("assignment %s" % ast.unparse(s)[:40])
            if isinstance(s, ast.If) and not s.orelse and len(s.body) == 1 \
                    and isinstance(s.body[0], ast.Return):
                c = expr_term(s.test, f, env, aliases)
                r = s.body[0].value
                v = expr_term(r, f, env, aliases) if r is not None else ("empty",)
                guards.append((c, v))
                continue
            if isinstance(s, ast.Return):
                if s.value is None:
                    out.append(("empty",))
                else:
                    out.append(expr_term(s.value, f, env, aliases))
                break
            if isinstance(s, ast.Expr) and isinstance(s.value, ast.YieldFrom):
                out.append(expr_term(s.value.value, f, env, aliases))
                continue
            if isinstance(s, ast.Expr) and isinstance(s.value, ast.Yield):
                out.append(("yield", expr_term(s.value.value, f, env, aliases)
                            if s.value.value else ("none",)))
                continue
            if isinstance(s, ast.For) and isinstance(s.target, ast.Name) and not s.orelse:
                over = expr_term(s.iter, f, env, aliases)
                v = s.target.id
                saved_env = dict(env)
                env[v] = ("var", v)
                inner = block(s.body)
                # what the body rebinds is not known after the loop
                rebound = {t.id for n_ in ast.walk(s) if isinstance(n_, (ast.Assign, ast.AnnAssign, ast.AugAssign))
                           for t in (n_.targets if isinstance(n_, ast.Assign) else [n_.target])
                           if isinstance(t, ast.Name)}
                env.clear()
                env.update(saved_env)
                for nm_ in rebound:
                    env[nm_] = ("unknown", nm_)
                out.append(("union", over, v, inner))
                continue
            if isinstance(s, ast.If):
                c = expr_term(s.test, f, env, aliases)
                t1 = block(s.body)
                t2 = block(s.orelse) if s.orelse else ("empty",)
                if t1 == ("empty",) and t2 == ("empty",):
                    continue        # (an ``if`` that only asserts / binds contributes no element)
                out.append(("if", c, t1, t2))
                continue
            if isinstance(s, (ast.Pass, ast.Assert)):
                continue
            raise OutsideFragment("statement %s" % type(s).__name__)
        if not out:
            return ("empty",)
        if len(out) == 1:
            return out[0]
        return ("chain", tuple(out))

    t = block(body)
    if guards:
        return ("guard", tuple(guards), t)
    return t


def show(t: Term) -> str:
    k = t[0]
    if k == "self":
        return "self"
    if k in ("param", "var", "name"):
        return t[1]
    if k == "none":
        return "None"
    if k == "empty":
        return "()"
    if k == "const":
        return repr(t[1])
    if k == "attr":
        return "%s.%s" % (show(t[1]), t[2])
    if k == "call":
        return "%s(%s)" % (show(t[1]), ", ".join(show(a) for a in t[2]))
    if k == "union":
        return "U{%s | %s in %s}" % (show(t[3]), t[2], show(t[1]))
    if k == "chain":
        return " ++ ".join(show(x) for x in t[1])
    if k == "filter":
        return "[%s : %s]" % (show(t[1]), t[2])
    if k == "guard":
        return "%s unless %s" % (show(t[2]), "; ".join("%s->%s" % (show(c), show(v)) for c, v in t[1]))
    if k == "neg":
        return "-%s" % show(t[1])
    return str(t)
