#!/bin/sh
# usage: eval_all.sh <out-file> <patch> ...   one eval_patches process per patch, 14 at a time
OUT=$1; shift
printf '%s\n' "$@" | xargs -P 14 -I{} sh -c 'timeout 900 /venv/bin/python /verif/tools/eval_patches.py {} 2>&1 | head -1' > "$OUT" 2>&1
