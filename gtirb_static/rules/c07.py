"""C07 — Every AuxData value survives encode then decode unchanged."""
from __future__ import annotations

import ast
import re
from typing import Dict, List, Optional

from ..cfg import CFG
from ..model import AnalysisError, ClassInfo, FuncInfo, attr_path, dotted, local_aliases, unparse, walk_no_nested
from ..report import Check
from ..terms import OutsideFragment, expr_term
from ..wireshape import ShapeError
from .codecs import CodecFacts, codec_facts
from .purity import no_result_caches, value_passthrough, codec_state, encode_stream

RULES = {
    "R07.1": "codec duality: the wire-shape terms of encode and decode are equal up to direction",
    "R07.2": "a count prefix measures what is written / iterated next",
    "R07.3": "table consistency: integer and float parameter tables, codec table keys, "
             "_encode_tree/_decode_tree symmetric lookup, get_by_uuid forwarded by every decoder",
    "R07.5": "no hidden state on the codec path (module/class/instance state other than the codec "
             "table); Serialization.encode writes straight into the caller's stream",
    "R07.6": "type-name bracket matching tracks nesting depth (a type tree is needed to encode at all)",
    "R07.4": "UUIDCodec.decode returns the looked-up node iff the lookup result is not None, "
             "else the UUID; encode accepts both",
}

HEADS = ["Addr", "bool", "Offset", "int64_t", "int32_t", "int16_t", "int8_t", "float", "double",
         "mapping", "sequence", "set", "string", "tuple", "uint64_t", "uint32_t", "uint16_t",
         "uint8_t", "UUID", "variant"]
STRUCT_SIZES = {"f": 4, "d": 8}


def run(chk: Check) -> None:
    chk.explanation = (
        "Each codec's encode and decode bodies are abstracted by a syntax-directed walk to a "
        "wire-shape term (count prefixes, raw reads/writes, fixed-width integers, struct "
        "formats, recursive subtype calls, loops) and the two directions are compared; count "
        "prefixes must measure what follows them; parameter tables must be consistent.  Value "
        "equality itself (float bit patterns, integer bounds) rests on int.to_bytes/struct and "
        "is not decided.")
    for k, v in RULES.items():
        chk.rule(k, v)
    cf = codec_facts(chk.repo)
    n_dual = 0
    for c in sorted(cf.classes, key=lambda x: x.qualname):
        own_e = c.methods.get("encode")
        own_d = c.methods.get("decode")
        if own_e is None and own_d is None:
            continue
        n_dual += 1
        try:
            e, pe, she = cf.norm_shape(c, "encode")
            d, pd, shd = cf.norm_shape(c, "decode")
        except ShapeError as ex:
            raise AnalysisError("codec %s is outside the wire-shape fragment: %s" % (c.qualname, ex))
        chk.saw(cf.provider(c, "encode"))
        chk.saw(cf.provider(c, "decode"))
        floc = (own_e or own_d).loc()
        same = e == d
        if not same:
            # one side may delegate to another codec what the other side spells out
            try:
                e2, _, _ = cf.norm_shape(c, "encode", True)
                d2, _, _ = cf.norm_shape(c, "decode", True)
                same = e2 == d2
            except ShapeError:
                pass
        chk.ob("R07.1", "%s:encode~decode" % c.qualname, same, floc,
               "%s: the encoder writes %s but the decoder reads %s" % (c.qualname, _s(e), _s(d)), 3)
        for p in pe:
            chk.ob("R07.2", "%s.encode:count-prefix" % c.qualname, False, (own_e or own_d).loc(),
                   "%s.encode: %s — the decoder will consume a different number of bytes/elements "
                   "than were written" % (c.qualname, p), 2)
        if not pe and any(x[0] == "count" for x in e):
            chk.ob("R07.2", "%s.encode:count-prefix" % c.qualname, True, floc, "count measures what follows", 2)
        for p in pd:
            chk.ob("R07.2", "%s.decode:count-prefix" % c.qualname, False, floc, p, 2)
        # get_by_uuid forwarding (identity clause)
        if shd is not None:
            for call, ok in shd.forwarded_lookup:
                chk.call_sites += 1
                chk.ob("R07.3", "%s.decode:forwards-get_by_uuid" % c.qualname, ok,
                       cf.provider(c, "decode").loc(call),
                       "%s.decode does not pass its get_by_uuid on to %s: nested UUID/Offset "
                       "entries would come back as plain UUIDs" % (c.qualname, unparse(call.func)), 2)
    chk.floor("R07.1", "codec classes with bodies", n_dual, 7)
    bc = chk.repo.cls_opt("BoolCodec")
    if bc is not None and bc.methods.get("decode") is not None:
        bd = bc.methods["decode"]
        cmpb = [n for n in walk_no_nested(bd.node) if isinstance(n, ast.Compare) and len(n.ops) == 1
                and isinstance(n.comparators[0], ast.Constant) and isinstance(n.comparators[0].value, bytes)]
        okb = len(cmpb) == 1 and (
            (isinstance(cmpb[0].ops[0], ast.NotEq) and cmpb[0].comparators[0].value == b"\x00") or
            (isinstance(cmpb[0].ops[0], ast.Eq) and cmpb[0].comparators[0].value == b"\x01"))
        chk.ob("R07.1", "BoolCodec.decode:nonzero-is-true", okb, bd.loc(),
               "bool decodes as 'the byte is not zero' (the encoder writes bytes([val])): %s"
               % [unparse(n) for n in cmpb], 2)
    _param_tables(chk, cf)
    _tree_dispatch(chk, cf)
    _uuid_resolution(chk, cf)
    codec_state(chk, "R07.5", ("auxdata", "serialization"))
    no_result_caches(chk, "R07.5")
    value_passthrough(chk, "R07.5")
    from .purity import stream_discipline
    stream_discipline(chk, "R07.5")
    from .purity import decoded_passthrough
    decoded_passthrough(chk, "R07.5")
    encode_stream(chk, "R07.5")
    from .c15 import bracket_matching
    bracket_matching(chk, "R07.6")


def _s(ev) -> str:
    return repr(ev).replace("'", "")


def _param_tables(chk: Check, cf: CodecFacts) -> None:
    repo = chk.repo
    ic = repo.cls("IntegerCodec")
    fc = repo.cls("FloatCodec")
    n = 0
    by_typname: Dict[str, ClassInfo] = {}
    for c in cf.classes:
        tn = cf.class_const(c, "typname")
        if c.is_subclass_of(ic) and c is not ic:
            n += 1
            bs = cf.class_const(c, "bytesize")
            sg = cf.class_const(c, "signed")
            m = re.fullmatch(r"(u?)int(\d+)_t", tn or "")
            ok = bool(m) and bs == int(m.group(2)) // 8 and sg == (m.group(1) == "") \
                and int(m.group(2)) in (8, 16, 32, 64)
            chk.ob("R07.3", "%s:int-params" % c.qualname, ok, c.loc(),
                   "%s: typname=%r bytesize=%r signed=%r are inconsistent ([u]int<N>_t needs "
                   "bytesize N/8 and signed iff no 'u')" % (c.qualname, tn, bs, sg), 3)
            if tn:
                by_typname[tn] = c
        elif c.is_subclass_of(fc) and c is not fc:
            n += 1
            fmt = cf.class_const(c, "struct_format")
            bs = cf.class_const(c, "bytesize")
            ok = isinstance(fmt, str) and len(fmt) == 2 and fmt[0] == "<" and \
                STRUCT_SIZES.get(fmt[1]) == bs and {"float": "f", "double": "d"}.get(tn) == fmt[1]
            chk.ob("R07.3", "%s:float-params" % c.qualname, ok, c.loc(),
                   "%s: typname=%r struct_format=%r bytesize=%r are inconsistent (little-endian "
                   "IEEE: float '<f' 4 bytes, double '<d' 8 bytes)" % (c.qualname, tn, fmt, bs), 3)
            if tn:
                by_typname[tn] = c
    chk.floor("R07.3", "integer/float codec subclasses", n, 7)
    # the codec table
    loc = cf.ser.loc(cf.table_node) if cf.table_node is not None else cf.ser.loc()
    for h in HEADS:
        chk.ob("R07.3", "codecs[%s]:present" % h, cf.table.get(h) is not None, loc,
               "the codec table has no (resolvable) entry for the grammar head %r" % h, 1)
    for k, c in cf.table.items():
        if k in by_typname:
            chk.ob("R07.3", "codecs[%s]:class" % k, c is by_typname[k], loc,
                   "codec table maps %r to %s, whose typname is %r" %
                   (k, c.qualname if c else None, cf.class_const(c, "typname") if c else None), 2)
    if "Addr" in cf.table and "uint64_t" in by_typname:
        chk.ob("R07.3", "codecs[Addr]:class", cf.table["Addr"] is by_typname["uint64_t"], loc,
               "Addr must be the unsigned 64-bit codec", 2)


def _tree_dispatch(chk: Check, cf: CodecFacts) -> None:
    ser = cf.ser
    chk.ob("R07.3", "Serialization.__init__:own-codec-table", getattr(cf, "table_shared", None) is None,
           ser.loc(), "every Serialization instance must own its codec table: __init__ binds self.codecs "
           "to the module-level object %s itself, so registering a codec on one instance changes the "
           "format every other instance (and AuxData.serializer) reads and writes"
           % getattr(cf, "table_shared", None), 1)
    for nm, direction in (("_encode_tree", "encode"), ("_decode_tree", "decode")):
        f = ser.methods.get(nm)
        if f is None:
            raise AnalysisError("anchor vanished: Serialization.%s" % nm)
        chk.saw(f)
        me = f.self_name
        al = local_aliases(f.node)
        cfg = CFG(f.node)
        tt = [p for p in f.param_names() if p == "type_tree"]
        tname = tt[0] if tt else f.param_names()[-1 if direction == "encode" else 2]
        # the codec call
        calls = [c for c in walk_no_nested(f.node) if isinstance(c, ast.Call)
                 and isinstance(c.func, ast.Attribute) and c.func.attr == direction]
        ok = len(calls) == 1
        msg = "expected exactly one codec.%s call" % direction
        import copy as _copy

        def expand(e: ast.AST, depth: int = 0) -> ast.AST:
            """locals assigned once replaced by what they stand for"""
            class S(ast.NodeTransformer):
                def visit_Name(self, n: ast.Name) -> ast.AST:
                    if isinstance(n.ctx, ast.Load) and n.id in al and depth < 4:
                        return expand(_copy.deepcopy(al[n.id]), depth + 1)
                    return n
            return S().visit(_copy.deepcopy(e))
        if ok:
            c = calls[0]
            recv = expand(c.func.value)
            good_recv = isinstance(recv, ast.Subscript) and attr_path(recv.value) == (me, "codecs") \
                and attr_path(recv.slice) == (tname, "name")
            kws = {k.arg: k.value for k in c.keywords}
            good_sub = attr_path(kws.get("subtypes", ast.Constant(0))) == (tname, "subtypes")
            good_ser = attr_path(kws.get("serialization", ast.Constant(0))) == (me,)
            good_g = direction == "encode" or attr_path(kws.get("get_by_uuid", ast.Constant(0))) == ("get_by_uuid",)
            ok = good_recv and good_sub and good_ser and good_g
            msg = ("Serialization.%s must dispatch to self.codecs[%s.name].%s with serialization=self, "
                   "subtypes=%s.subtypes%s (recv=%s sub=%s ser=%s lookup=%s)"
                   % (nm, tname, direction, tname, ", get_by_uuid=get_by_uuid" if direction == "decode" else "",
                      good_recv, good_sub, good_ser, good_g))
            # unknown head -> UnknownCodecError before the call
            guard = cfg.nodes_where(lambda n: isinstance(n, ast.Compare) and len(n.ops) == 1
                                    and isinstance(n.ops[0], (ast.NotIn, ast.In))
                                    and attr_path(expand(n.left)) == (tname, "name")
                                    and attr_path(expand(n.comparators[0])) == (me, "codecs"))
            cn = cfg.node_of(c)
            g_ok = bool(guard) and all(cfg.dominates(g, cn) for g in guard)
            # the dispatch happens on the 'known head' outcome, the other one raises UnknownCodecError
            known_br = set()
            for g in guard:
                t_ = cfg.info[g].ast
                for b in cfg.g.successors(g):
                    bi = cfg.info[b]
                    if bi.kind == "branch" and isinstance(t_, ast.Compare) and \
                            bi.value == isinstance(t_.ops[0], ast.In):
                        known_br.add(b)
            g_ok = g_ok and bool(known_br) and cfg.path_avoiding(cfg.entry, cn, known_br) is None
            # nothing but the codec of the head handles a value: every normal exit passes through
            # the dispatch, and this function never touches the stream itself
            bypass = cfg.path_avoiding(cfg.entry, cfg.exit, {cn})
            stream = f.param_names()[1]
            touches = [x for x in walk_no_nested(f.node) if isinstance(x, ast.Call)
                       and isinstance(x.func, ast.Attribute) and attr_path(x.func.value) == (stream,)]
            chk.ob("R07.3", "Serialization.%s:every-value-goes-through-its-codec" % nm,
                   bypass is None and not touches, f.loc(),
                   "Serialization.%s can finish without dispatching to the codec of the type head%s: "
                   "such a value is not written/read in the format of its type (%s)"
                   % (nm, " and uses the stream itself (%s)" % unparse(touches[0])[:40] if touches else "",
                      " -> ".join(cfg.describe_path(bypass)[:6]) if bypass else ""), 2)
            chk.ob("R07.3", "Serialization.%s:unknown-head-guard" % nm, g_ok, f.loc(),
                   "Serialization.%s does not test '%s.name in self.codecs' before dispatching"
                   % (nm, tname), 2)
        chk.ob("R07.3", "Serialization.%s:dispatch" % nm, ok, f.loc(), msg, 4)
    # Serialization.decode hands get_by_uuid to _decode_tree
    d = ser.methods.get("decode")
    if d is not None:
        chk.saw(d)
        calls = [c for c in walk_no_nested(d.node) if isinstance(c, ast.Call)
                 and isinstance(c.func, ast.Attribute) and c.func.attr == "_decode_tree"]
        ok = bool(calls) and all(len(c.args) >= 3 and isinstance(c.args[2], ast.Name)
                                 and c.args[2].id == "get_by_uuid" for c in calls)
        chk.ob("R07.3", "Serialization.decode:forwards-get_by_uuid", ok, d.loc(),
               "Serialization.decode must pass its get_by_uuid to _decode_tree", 2)


def _direct_lookups(chk: Check) -> None:
    """a codec that calls get_by_uuid itself (instead of delegating to UUIDCodec.decode) must keep
    the same policy: a UUID that names no attached node is not an error, it decodes to the plain
    UUID"""
    from ..summaries import Outside as _Out, Summary
    repo = chk.repo
    for c in repo.classes.values():
        if not c.name.endswith("Codec") or c.name == "UUIDCodec":
            continue
        f = c.methods.get("decode")
        if f is None:
            continue
        calls = [n for n in walk_no_nested(f.node) if isinstance(n, ast.Call)
                 and isinstance(n.func, ast.Name) and n.func.id == "get_by_uuid"]
        if not calls:
            continue
        chk.saw(f)
        ok = True
        why = ""
        try:
            sm = Summary(f.node)
            for p_ in sm.paths:
                for k, v in p_.facts.items():
                    miss = (k[0] == "Is" and "None" in k[1:] and any(x.startswith("get_by_uuid(") for x in k[1:]) and v) or \
                        (k[0] == "truthy" and k[1].startswith("get_by_uuid(") and not v)
                    if miss and p_.kind == "raise":
                        ok = False
                        why = "raises %s when the lookup finds nothing" % (unparse(p_.value)[:60] if p_.value is not None else "")
        except _Out as e:
            ok = False
            why = "outside the fragment: %s" % e
        chk.ob("R07.4", "%s.decode:get_by_uuid-miss-is-plain" % c.name, ok, f.loc(),
               "%s.decode resolves a UUID through get_by_uuid itself and %s: a UUID that names no "
               "attached node must decode to the plain UUID, as UUIDCodec.decode does" % (c.name, why), 2)


def _uuid_resolution(chk: Check, cf: CodecFacts) -> None:
    _direct_lookups(chk)
    c = chk.repo.cls("UUIDCodec")
    f = c.methods.get("decode")
    if f is None:
        raise AnalysisError("anchor vanished: UUIDCodec.decode")
    chk.saw(f)
    from ..summaries import Outside as _Out, Summary
    ok = False
    why = "return value is not a choice between the UUID and the lookup result"
    try:
        sm = Summary(f.node)
        vd = sm.value_dnf()
        # facts every returning path shares (the validation guards) say nothing about the choice
        allc = [c_ for cs in vd.values() for c_ in cs]
        shared = {k: v for k, v in (allc[0].items() if allc else []) if all(c_.get(k) == v for c_ in allc)}
        vd = {val: [{k: v for k, v in c_.items() if k not in shared} for c_ in cs] for val, cs in vd.items()}
        lookups = [k for k in vd if k.startswith("get_by_uuid(")]
        plains = [k for k in vd if k not in lookups]
        if len(lookups) == 1 and len(plains) == 1 and "None" not in vd:
            lk = lookups[0]
            arg = lk[len("get_by_uuid("):-1]
            # the looked-up key is the plain value (the UUID built from the 16 bytes read)
            same_key = arg == plains[0]

            def kind(k) -> str:
                if k[0] == "Is" and set(k[1:]) == {"None", "get_by_uuid"}:
                    return "fn"
                if k[0] == "Is" and set(k[1:]) == {"None", lk}:
                    return "found"
                return "other"
            good = same_key
            # the node: exactly when there is a lookup function and it found something
            for conj in vd[lk]:
                ks = {kind(k): v for k, v in conj.items()}
                if "other" in ks or ks.get("found") is not False or ks.get("fn", False) is not False:
                    good = False
            # the plain UUID: exactly when there is no function or nothing was found
            for conj in vd[plains[0]]:
                ks = {kind(k): v for k, v in conj.items()}
                if "other" in ks or not (ks.get("fn") is True or ks.get("found") is True):
                    good = False
            ok = good and len(vd[lk]) == 1
            if not ok:
                why = "returns %s when %s and %s when %s" % (
                    lk, [sorted(" ".join(k) + "=" + str(v) for k, v in c_.items()) for c_ in vd[lk]],
                    plains[0], [sorted(" ".join(k) + "=" + str(v) for k, v in c_.items()) for c_ in vd[plains[0]]])
        else:
            why = "returns %s" % sorted(vd)
    except _Out as e:
        why = "outside the fragment: %s" % e
    chk.ob("R07.4", "UUIDCodec.decode:resolution", ok, f.loc(),
           "UUIDCodec.decode must return the node get_by_uuid finds for the 16 bytes read and the "
           "plain UUID otherwise (%s)" % why, 3)
    e = c.methods.get("encode")
    if e is not None:
        chk.saw(e)
        kinds = set()
        for n in walk_no_nested(e.node):
            if isinstance(n, ast.Call) and attr_path(n.func) == ("isinstance",) and len(n.args) == 2:
                d = dotted(n.args[1])
                if d:
                    kinds.add(d[-1])
        chk.ob("R07.4", "UUIDCodec.encode:accepts-node-and-uuid", {"Node", "UUID"} <= kinds, e.loc(),
               "UUIDCodec.encode must accept both Node and UUID values (decode returns either)", 2)
