"""C12 — Deferred index maintenance is unobservable."""
from __future__ import annotations

import ast
from typing import Dict, List, Optional, Set, Tuple

from ..cfg import CFG
from ..model import (AnalysisError, ClassInfo, FuncInfo, attr_path, dotted, expand_path,
                     local_aliases, unparse, walk_no_nested)
from ..report import Check
from ..types import TypeEnv
from .lookups import index_key_rule, notify_protocol, tree_sites
from .ownership import MUTATORS, ownership

RULES = {
    "R12.1": "lookups are pure apart from the lazy wrapper: the attribute writes reachable from "
             "every lookup entry point lie inside LazyIntervalTree",
    "R12.2": "wrapper ownership: the materialised tree and the event list are touched only inside "
             "LazyIntervalTree; clients call only add/discard/get and never store a get() result",
    "R12.3": "edit-time capture: add/discard compute the interval when called and queue "
             "(ADDED|DISCARDED, interval), skipping None",
    "R12.4": "get state machine: on every path the returned tree was rebuilt from the value "
             "collection or had all queued events applied in order, and the queue is cleared",
    "R12.6": "every membership change queues its index event: attach/detach primitives maintain "
             "the owner's index on every path and no inherited method reaches a store behind them "
             "(R05.3, R03.5 shared with C05/C06/C10/C04)",
    "R12.5": "rebuild and replay index the same objects with the same key (tree built over the "
             "owning collection with the builder whose reads notify)",
}
LOOKUP_SUFFIXES = ("_on", "_at", "_on_offset", "_at_offset")


def run(chk: Check) -> None:
    chk.explanation = (
        "The schedule quantifier is discharged by an effect argument: a type-resolved call-graph "
        "closure shows lookups write nothing except inside the lazy wrapper, and the wrapper's "
        "get() consumes every pending event on every path (CFG).  That replaying captured events "
        "yields the same tree as a rebuild additionally needs intervaltree's set semantics "
        "(assumed) and the notify discipline (R05.1-R05.3, decided under C05/C06).")
    for k, v in RULES.items():
        chk.rule(k, v)
    repo = chk.repo
    types = TypeEnv(repo)
    lt = repo.cls("LazyIntervalTree")
    _purity(chk, types, lt)
    _ownership(chk, lt)
    _capture(chk, lt)
    _get(chk, lt)
    own = ownership(repo)
    k = 0
    for prop, rule, construct, ok, loc, msg, facts in own.obs:
        if rule in ("R05.3", "R03.5") or (rule == "R03.3" and "leave-previous-owner" in construct):
            chk.ob("R12.6", construct, ok, loc, msg, facts)
            k += 1
    chk.floor("R12.6", "index-maintenance obligations", k, 4)
    for s in tree_sites(repo):
        index_key_rule(chk, s, own, "R12.5")
    notify_protocol(chk, "R12.5")
    no_lookup_during_edit(chk, "R12.6")


# ---------------------------------------------------------------------------


def _entry_points(chk: Check) -> List[FuncInfo]:
    repo = chk.repo
    out: List[FuncInfo] = []
    for cname in ("ByteInterval", "Section", "Module", "IR"):
        c = repo.cls(cname)
        for nm, f in c.methods.items():
            if nm.endswith(LOOKUP_SUFFIXES) or nm.startswith("symbolic_expressions_at") or \
                    nm in ("symbols_named", "modules_named", "get_by_uuid"):
                out.append(f)
    sec = repo.cls("Section")
    for pn in ("address", "size"):
        p = sec.props.get(pn)
        if p and p.getter:
            out.append(p.getter)
    b = repo.cls("Block").props.get("references")
    if b and b.getter:
        out.append(b.getter)
    for cname in ("ByteBlock",):
        c = repo.cls(cname)
        for pn in ("address", "contents"):
            p = c.props.get(pn)
            if p and p.getter:
                out.append(p.getter)
    return out


def _callees(f: FuncInfo, types: TypeEnv, chk: Check) -> List[FuncInfo]:
    repo = chk.repo
    out: List[FuncInfo] = []
    al = local_aliases(f.node)
    for n in walk_no_nested(f.node):
        if isinstance(n, ast.Call):
            chk.call_sites += 1
            fn = n.func
            if isinstance(fn, ast.Name):
                g = f.module.functions.get(fn.id)
                if g is None and fn.id in f.module.imports:
                    src, orig = f.module.imports[fn.id]
                    m = repo.modules.get(src.lstrip("."))
                    g = m.functions.get(orig) if m else None
                if g is None:
                    for nm, nf in f.nested().items():
                        if nm == fn.id:
                            g = nf
                if g is not None:
                    out.append(g)
            elif isinstance(fn, ast.Attribute):
                for t in types.expr_types(fn.value, f, al):
                    g = t.find_method(fn.attr)
                    if g is not None:
                        out.append(g)
                        for sub in repo.subclasses(t):
                            if fn.attr in sub.methods:
                                out.append(sub.methods[fn.attr])
        elif isinstance(n, ast.Attribute) and isinstance(n.ctx, ast.Load):
            for t in types.expr_types(n.value, f, al):
                p = t.find_prop(n.attr)
                if p is not None and p.getter is not None:
                    out.append(p.getter)
    for nf in f.nested().values():
        out.append(nf)
    return out


def _writes(f: FuncInfo) -> List[Tuple[ast.AST, str]]:
    """attribute / item stores and in-place mutations of attributes in f"""
    out: List[Tuple[ast.AST, str]] = []
    for n in walk_no_nested(f.node):
        tgs: List[ast.AST] = []
        if isinstance(n, ast.Assign):
            tgs = list(n.targets)
        elif isinstance(n, (ast.AugAssign, ast.AnnAssign)):
            tgs = [n.target] if getattr(n, "value", None) is not None or isinstance(n, ast.AugAssign) else []
        elif isinstance(n, ast.Delete):
            tgs = list(n.targets)
        for t in tgs:
            for x in ast.walk(t):
                if isinstance(x, ast.Attribute) and isinstance(x.ctx, (ast.Store, ast.Del)):
                    out.append((n, unparse(x)))
                elif isinstance(x, ast.Subscript) and isinstance(x.ctx, (ast.Store, ast.Del)) and \
                        isinstance(x.value, ast.Attribute):
                    out.append((n, unparse(x)))
        if isinstance(n, ast.Call) and isinstance(n.func, ast.Attribute) and n.func.attr in MUTATORS \
                and isinstance(n.func.value, ast.Attribute) and attr_path(n.func.value) is not None \
                and attr_path(n.func.value)[0] in ("self",):
            out.append((n, unparse(n.func)))
        if isinstance(n, ast.Call) and attr_path(n.func) in (("setattr",), ("delattr",)):
            out.append((n, unparse(n)))
    return out


def _purity(chk: Check, types: TypeEnv, lt: ClassInfo) -> None:
    eps = _entry_points(chk)
    chk.floor("R12.1", "lookup entry points", len(eps), 28)
    for ep in eps:
        seen: Dict[str, FuncInfo] = {}
        stack = [ep]
        while stack:
            g = stack.pop()
            if g.qualname in seen:
                continue
            seen[g.qualname] = g
            chk.saw(g)
            if g.cls is lt:
                continue       # the wrapper is analysed on its own (R12.2-R12.4)
            stack.extend(_callees(g, types, chk))
        bad: List[str] = []
        loc = ep.loc()
        for g in seen.values():
            if g.cls is lt:
                continue
            for node, what in _writes(g):
                bad.append("%s writes %s" % (g.qualname, what))
                loc = g.loc(node)
        chk.ob("R12.1", "%s:pure" % ep.qualname, not bad, loc,
               "lookup %s can change the model outside the lazy wrapper (%s): a later lookup may "
               "see the effect of an earlier one" % (ep.qualname, "; ".join(bad[:3])), len(seen))


def _ownership(chk: Check, lt: ClassInfo) -> None:
    repo = chk.repo
    # the wrapper's private state
    for f in repo.all_functions():
        if f.cls is lt:
            continue
        # a private helper class of the wrapper's own module that only the wrapper instantiates (an
        # iterable / view object handed to the tree constructor) acts on the wrapper's behalf: what
        # it does is not followed — undecided, not a violation
        helper_of_lt = False
        if f.cls is not None and f.cls.module is lt.module and f.cls.name.startswith("_"):
            users = [g for g in repo.all_functions() if g.cls is not f.cls and any(
                isinstance(c, ast.Call) and (dotted(c.func) or ("",))[-1] == f.cls.name for c in walk_no_nested(g.node))]
            helper_of_lt = bool(users) and all(g.cls is lt for g in users)
        for n in walk_no_nested(f.node):
            if isinstance(n, ast.Attribute) and n.attr in ("_interval_events", "_value_collection", "_make_interval"):
                reads_only = isinstance(n.ctx, ast.Load) and n.attr != "_interval_events"
                chk.ob("R12.2", "%s:touches(%s)" % (f.qualname, n.attr), False, f.loc(n),
                       "%s reaches into LazyIntervalTree.%s" % (f.qualname, n.attr), 1,
                       undecided=helper_of_lt and reads_only)
    # the tree get() hands out is the live index: whoever receives it may only read it
    READ = {"overlap", "overlaps", "at", "envelop", "begin", "end", "span", "items", "is_empty", "copy",
            "__len__", "__iter__", "__contains__", "__getitem__", "all_intervals", "boundary_table"}
    for f in repo.all_functions():
        if f.cls is lt:
            continue
        al_ = local_aliases(f.node)
        tree_names = {k_ for k_, v_ in al_.items() if isinstance(v_, ast.Call) and isinstance(v_.func, ast.Attribute)
                      and v_.func.attr == "get" and isinstance(v_.func.value, ast.Attribute)
                      and v_.func.value.attr in ("_interval_index", "_interval_tree")}
        if f.module.name == "util" and f.param_names()[:1] == ["tree"]:
            tree_names.add("tree")
        for c_ in walk_no_nested(f.node):
            if not (isinstance(c_, ast.Call) and isinstance(c_.func, ast.Attribute)):
                continue
            recv = c_.func.value
            on_tree = (isinstance(recv, ast.Name) and recv.id in tree_names) or (
                isinstance(recv, ast.Call) and isinstance(recv.func, ast.Attribute) and recv.func.attr == "get"
                and isinstance(recv.func.value, ast.Attribute)
                and recv.func.value.attr in ("_interval_index", "_interval_tree"))
            if on_tree:
                chk.ob("R12.2", "%s:tree-read-only(%s)" % (f.qualname, c_.func.attr), c_.func.attr in READ, f.loc(c_),
                       "%s calls %s() on the tree that get() returned: that is the live index, not a copy — "
                       "anything but a read changes what later lookups answer" % (f.qualname, c_.func.attr), 1)
    sites = tree_sites(repo)
    chk.floor("R12.2", "lazy tree construction sites", len(sites), 2)
    for s in sites:
        n_use = 0
        for f in repo.all_functions():
            for n in walk_no_nested(f.node):
                if not (isinstance(n, ast.Attribute) and n.attr == s.attr):
                    continue
                if f.cls is lt:
                    continue
                recv_self = f.cls is not None and f.cls.is_subclass_of(s.owner) or f.cls is s.owner
                if not recv_self or attr_path(n.value) != (f.self_name,):
                    if f.cls is s.owner or (f.cls and f.cls.is_subclass_of(s.owner)):
                        pass
                    else:
                        # another class with an attribute of the same name is not this wrapper
                        ts = TypeEnv(repo).expr_types(n.value, f)
                        if not any(t is s.owner or t.is_subclass_of(s.owner) for t in ts):
                            continue
                n_use += 1
                par = getattr(n, "_parent", None)
                if isinstance(n.ctx, ast.Store):
                    ok = f.name == "__init__"
                    kind = "assign"
                else:
                    kind = par.attr if isinstance(par, ast.Attribute) else type(par).__name__
                    ok = isinstance(par, ast.Attribute) and par.attr in ("get", "add", "discard") and \
                        isinstance(getattr(par, "_parent", None), ast.Call)
                chk.ob("R12.2", "%s:%s(%s)" % (f.qualname, kind, s.attr), ok, f.loc(n),
                       "%s uses the lazy tree %s.%s as '%s': clients may only call add/discard/get"
                       % (f.qualname, s.owner.qualname, s.attr, kind), 1)
                if ok and kind == "get":
                    call = getattr(par, "_parent", None)
                    stmt = call
                    while stmt is not None and not isinstance(stmt, ast.stmt):
                        stmt = getattr(stmt, "_parent", None)
                    stored = isinstance(stmt, (ast.Assign, ast.AnnAssign, ast.AugAssign)) and any(
                        isinstance(t, (ast.Attribute, ast.Subscript))
                        for t in (stmt.targets if isinstance(stmt, ast.Assign) else [stmt.target]))
                    chk.ob("R12.2", "%s:get-not-cached(%s)" % (f.qualname, s.attr), not stored, f.loc(n),
                           "%s stores the tree returned by get(): get() may return a new tree next "
                           "time, the stored one goes stale" % f.qualname, 2)
        chk.floor("R12.2", "uses of %s.%s" % (s.owner.name, s.attr), n_use, 3)


def _capture(chk: Check, lt: ClassInfo) -> None:
    # a copy (copy / deepcopy / pickle) of a lazy tree takes the built tree and the pending queue
    # together or not at all: the default protocols copy the whole state; a hand-written hook that
    # selects part of it makes the copy's answers depend on whether the original had been queried
    hooks = [h for h in ("__getstate__", "__setstate__", "__reduce__", "__reduce_ex__", "__copy__", "__deepcopy__",
                         "__getnewargs__", "__getnewargs_ex__") if h in lt.methods]
    chk.ob("R12.3", "LazyIntervalTree:no-partial-copy-hooks", not hooks,
           lt.methods[hooks[0]].loc() if hooks else lt.loc(),
           "LazyIntervalTree defines %s: copies must carry the tree and the queue of pending updates together"
           % ", ".join(hooks), 1)
    kinds = {"add": "ADDED", "discard": "DISCARDED"}
    for nm, kind in kinds.items():
        f = lt.methods.get(nm)
        if f is None:
            raise AnalysisError("anchor vanished: LazyIntervalTree.%s" % nm)
        chk.saw(f)
        al = local_aliases(f.node)
        p = f.param_names()[1]
        cfg = CFG(f.node)
        apps = [c for c in walk_no_nested(f.node) if isinstance(c, ast.Call)
                and attr_path(c.func) == (f.self_name, "_interval_events", "append")]
        ok = len(apps) == 1 and len(apps[0].args) == 1 and isinstance(apps[0].args[0], ast.Tuple) \
            and len(apps[0].args[0].elts) == 2
        why = "expected one self._interval_events.append((kind, interval))"
        if ok:
            k, iv = apps[0].args[0].elts
            kd = dotted(k)
            ok_kind = bool(kd) and kd[-1] == kind
            ive = iv
            if isinstance(ive, ast.Name) and ive.id in al:
                ive = al[ive.id]
            ok_iv = isinstance(ive, ast.Call) and attr_path(ive.func) == (f.self_name, "_make_interval") \
                and len(ive.args) == 1 and attr_path(ive.args[0]) == (p,)
            ok = ok_kind and ok_iv
            why = "queues (%s, %s); must queue (_EventType.%s, self._make_interval(%s))" % (
                unparse(k), unparse(iv), kind, p)
            # None is skipped
            if ok and isinstance(iv, ast.Name):
                notnone: Set[int] = set()
                for n, i in cfg.info.items():
                    if i.kind == "test" and isinstance(i.ast, ast.Compare) and len(i.ast.ops) == 1 and \
                            isinstance(i.ast.ops[0], (ast.Is, ast.IsNot)) and attr_path(i.ast.left) == (iv.id,):
                        for b in cfg.g.successors(n):
                            bi = cfg.info[b]
                            if bi.kind == "branch" and bi.value == isinstance(i.ast.ops[0], ast.IsNot):
                                notnone.add(b)
                    if i.kind == "test" and isinstance(i.ast, ast.Name) and i.ast.id == iv.id:
                        for b in cfg.g.successors(n):
                            if cfg.info[b].kind == "branch" and cfg.info[b].value:
                                notnone.add(b)
                an = cfg.node_of(apps[0])
                g_ok = bool(notnone) and cfg.path_avoiding(cfg.entry, an, notnone) is None
                chk.ob("R12.3", "LazyIntervalTree.%s:skips-none" % nm, g_ok, f.loc(),
                       "a value without an interval (None) must not be queued", 2)
                wit = cfg.path_avoiding(cfg.entry, cfg.exit, {an} | _neg(cfg, notnone))
                chk.ob("R12.3", "LazyIntervalTree.%s:always-queues" % nm, wit is None, f.loc(),
                       "a path through %s does not queue the event for a value that has an interval" % nm, 2)
        chk.ob("R12.3", "LazyIntervalTree.%s:captures-interval-now" % nm, ok, f.loc(), why, 3)
        # the notification runs while the owner is in the middle of an edit (before the element has
        # joined / after it has left the collection, before the attribute has its new value): all
        # it may do is compute the interval and queue it — no rebuild, no replay, no look at the
        # collection or the tree
        extra = []
        for c in walk_no_nested(f.node):
            if isinstance(c, ast.Call):
                pth = attr_path(c.func)
                if pth in ((f.self_name, "_interval_events", "append"), (f.self_name, "_make_interval")):
                    continue
                if isinstance(c.func, ast.Name) and c.func.id in ("len", "isinstance"):
                    continue
                extra.append(c)
            elif isinstance(c, ast.Attribute) and attr_path(c) and attr_path(c)[0] == f.self_name and \
                    c.attr in ("_interval_index", "_value_collection"):
                extra.append(c)
        chk.ob("R12.3", "LazyIntervalTree.%s:only-queues" % nm, not extra, f.loc(extra[0]) if extra else f.loc(),
               "LazyIntervalTree.%s does more than queue the event (%s): it is called in the middle of the "
               "owner's edit, when the collection and the attributes do not yet agree"
               % (nm, unparse(extra[0])[:50] if extra else "-"), 2)
    et = chk.repo.cls("_EventType")
    vals = [unparse(v) for k, v in et.class_assigns.items() if k in ("ADDED", "DISCARDED")]
    distinct = len(vals) == 2 and (vals[0] != vals[1] or "auto" in vals[0])
    chk.ob("R12.3", "_EventType:distinct-kinds", distinct, et.loc(),
           "ADDED and DISCARDED must be distinct constants (%s)" % vals, 1)


def _neg(cfg: CFG, branches: Set[int]) -> Set[int]:
    out: Set[int] = set()
    for b in branches:
        t = cfg.info[b].test
        for s in cfg.g.successors(t):
            if s != b and cfg.info[s].kind == "branch":
                out.add(s)
    return out


def _table_dispatch(loop: ast.For, ev: Optional[str]) -> bool:
    """the loop selects what to do by looking the event kind up in a table (``T[ev]`` /
    ``T.get(ev)``) instead of testing it: the dispatch is data, which this rule does not follow"""
    if ev is None:
        return False
    for x in ast.walk(loop):
        if isinstance(x, ast.Subscript) and attr_path(x.slice) == (ev,):
            return True
        if isinstance(x, ast.Call) and isinstance(x.func, ast.Attribute) and x.func.attr == "get" \
                and x.args and attr_path(x.args[0]) == (ev,):
            return True
    return False


def _get(chk: Check, lt: ClassInfo) -> None:
    f = lt.methods.get("get")
    if f is None:
        raise AnalysisError("anchor vanished: LazyIntervalTree.get")
    chk.saw(f)
    me = f.self_name
    cfg = CFG(f.node)
    al = local_aliases(f.node)
    # the rules below reason about ``self._interval_index`` / ``self._interval_events`` by name;
    # a body that works on local aliases of them (or of their bound methods) is outside that
    # fragment: its obligations are reported as undecided, not as violations
    def _is_alias_value(v: ast.AST) -> bool:
        if isinstance(v, ast.Tuple):
            return any(_is_alias_value(e) for e in v.elts)
        p_ = attr_path(v)
        return bool(p_) and ("_interval_index" in p_ or "_interval_events" in p_ or (
            p_[0] in al and _is_alias_value(al[p_[0]])))
    aliased = any(
        isinstance(n, ast.Assign) and _is_alias_value(n.value)
        and any(isinstance(t, (ast.Name, ast.Tuple)) for t in n.targets)
        for n in walk_no_nested(f.node))
    rets = [r for r in walk_no_nested(f.node) if isinstance(r, ast.Return)]
    ok = bool(rets) and all(r.value is not None and attr_path(r.value) == (me, "_interval_index") for r in rets)
    chk.ob("R12.4", "LazyIntervalTree.get:returns-index", ok, f.loc(),
           "get() must return self._interval_index", 1, undecided=aliased)
    rebuild = cfg.nodes_where(lambda n: isinstance(n, ast.Assign) and any(
        attr_path(t) == (me, "_interval_index") for t in n.targets) and isinstance(n.value, ast.Call)
        and (dotted(n.value.func) or ("",))[-1] == "IntervalTree" and len(n.value.args) == 1)
    # replay loops: ``for <ev>, <iv> in self._interval_events`` applying add/discard by kind
    replay_heads: Set[int] = set()
    replay_ok = True
    n_replay = 0
    for n in walk_no_nested(f.node):
        if isinstance(n, ast.For):
            p = attr_path(n.iter)
            touches_events = any(isinstance(x, ast.Attribute) and x.attr == "_interval_events"
                                 for x in ast.walk(n.iter))
            if not touches_events:
                continue
            n_replay += 1
            head = cfg.by_ast[id(n)]
            replay_heads.add(head)
            in_order = p == (me, "_interval_events")
            tv = [e.id if isinstance(e, ast.Name) else None for e in n.target.elts] \
                if isinstance(n.target, ast.Tuple) and len(n.target.elts) == 2 else [None, None]
            applied = {"add": False, "discard": False}
            cond_kind = None
            for st in ast.walk(n):
                if isinstance(st, ast.If) and isinstance(st.test, ast.Compare) and len(st.test.ops) == 1 \
                        and attr_path(st.test.left) == (tv[0],):
                    kd = dotted(st.test.comparators[0])
                    eq = isinstance(st.test.ops[0], (ast.Eq, ast.Is))
                    if kd and kd[-1] in ("ADDED", "DISCARDED"):
                        first = kd[-1] if eq else ("DISCARDED" if kd[-1] == "ADDED" else "ADDED")
                        cond_kind = first
                        for branch, kind in ((st.body, first),
                                             (st.orelse, "DISCARDED" if first == "ADDED" else "ADDED")):
                            want = "add" if kind == "ADDED" else "discard"
                            for c in branch:
                                for x in ast.walk(c):
                                    if isinstance(x, ast.Call) and \
                                            attr_path(x.func) == (me, "_interval_index", want) and \
                                            len(x.args) == 1 and attr_path(x.args[0]) == (tv[1],):
                                        applied[want] = True
            good = in_order and all(applied.values()) and not any(
                isinstance(x, (ast.Break, ast.Continue)) for x in ast.walk(n))
            replay_ok = replay_ok and good
            chk.ob("R12.4", "LazyIntervalTree.get:replay-applies-all-in-order", good, f.loc(n),
                   "the replay branch must walk self._interval_events in queue order and apply "
                   "ADDED -> add(interval), every other event -> discard(interval), skipping none "
                   "(in order: %s, applied: %s)" % (in_order, applied), 4,
                   undecided=aliased or (cond_kind is None and _table_dispatch(n, tv[0])))
    # (branches on which the queue is known to be empty: nothing to apply, nothing to clear)
    empty_q: Set[int] = set()
    for n, i in cfg.info.items():
        if i.kind != "test" or i.ast is None:
            continue
        t_, pol = i.ast, True
        while isinstance(t_, ast.UnaryOp) and isinstance(t_.op, ast.Not):
            t_, pol = t_.operand, not pol
        is_q = lambda e: attr_path(e) == (me, "_interval_events") or (  # noqa: E731
            isinstance(e, ast.Name) and e.id in al and attr_path(al[e.id]) == (me, "_interval_events"))
        empty_when: Optional[bool] = None
        if is_q(t_):
            empty_when = not pol                      # ``if events:`` is False
        elif isinstance(t_, ast.Compare) and len(t_.ops) == 1 and isinstance(t_.left, ast.Call) \
                and attr_path(t_.left.func) == ("len",) and t_.left.args and is_q(t_.left.args[0]) \
                and isinstance(t_.comparators[0], ast.Constant) and t_.comparators[0].value == 0 \
                and isinstance(t_.ops[0], (ast.Eq, ast.NotEq)):
            empty_when = isinstance(t_.ops[0], ast.Eq) == pol
        if empty_when is None:
            continue
        for b in cfg.g.successors(n):
            if cfg.info[b].kind == "branch" and cfg.info[b].value == empty_when:
                empty_q.add(b)
    wit = cfg.path_avoiding(cfg.entry, cfg.exit, rebuild | replay_heads | empty_q)
    chk.ob("R12.4", "LazyIntervalTree.get:every-path-rebuilds-or-replays", wit is None, f.loc(),
           "a path through get() returns the tree without rebuilding it or applying the queued "
           "events: %s" % (" -> ".join(cfg.describe_path(wit)) if wit else "-"), 3, undecided=aliased)
    # first use (index is None) must rebuild
    none_br: Set[int] = set()
    for n, i in cfg.info.items():
        if i.kind == "test" and isinstance(i.ast, ast.Compare) and len(i.ast.ops) == 1 and \
                isinstance(i.ast.ops[0], (ast.Is, ast.IsNot)) and attr_path(i.ast.left) == (me, "_interval_index"):
            for b in cfg.g.successors(n):
                bi = cfg.info[b]
                if bi.kind == "branch" and bi.value == isinstance(i.ast.ops[0], ast.Is):
                    none_br.add(b)
    ok = bool(none_br)
    for b in none_br:
        if cfg.path_avoiding(b, cfg.exit, rebuild) is not None:
            ok = False
    chk.ob("R12.4", "LazyIntervalTree.get:first-use-builds", ok, f.loc(),
           "when no tree exists yet get() must build one from the value collection", 2, undecided=aliased)
    # replay only on a materialised tree
    for h in replay_heads:
        ok = cfg.path_avoiding(cfg.entry, h, _neg(cfg, none_br)) is None
        chk.ob("R12.4", "LazyIntervalTree.get:replay-needs-tree", ok, f.loc(),
               "events can be replayed onto a tree that does not exist", 2, undecided=aliased)
    clears = cfg.nodes_where(lambda n: isinstance(n, ast.Call) and
                             attr_path(n.func) == (me, "_interval_events", "clear")) | \
        cfg.nodes_where(lambda n: isinstance(n, ast.Assign) and any(
            attr_path(t) == (me, "_interval_events") for t in n.targets)
            and isinstance(n.value, ast.List) and not n.value.elts) | \
        cfg.nodes_where(lambda n: isinstance(n, ast.Assign) and len(n.targets) == 1
                        and isinstance(n.targets[0], ast.Tuple) and isinstance(n.value, ast.Tuple)
                        and len(n.targets[0].elts) == len(n.value.elts) and any(
            attr_path(t) == (me, "_interval_events") and isinstance(v, ast.List) and not v.elts
            for t, v in zip(n.targets[0].elts, n.value.elts)))
    wit = cfg.path_avoiding(cfg.entry, cfg.exit, clears | empty_q)
    chk.ob("R12.4", "LazyIntervalTree.get:clears-queue", wit is None, f.loc(),
           "a path through get() leaves events queued: they would be applied a second time by the "
           "next lookup: %s" % (" -> ".join(cfg.describe_path(wit)) if wit else "-"), 3, undecided=aliased)
    early = [c for c in clears if any(h in cfg.reachable(c) for h in replay_heads)]
    chk.ob("R12.4", "LazyIntervalTree.get:clears-after-replay", not early, f.loc(),
           "the queue is cleared before it is replayed", 2, undecided=aliased)
    # ... and nothing that can fail runs after the queue was emptied: building a tree or applying an
    # event runs the nodes' own code and the tree library's checks; were one to raise after the
    # events are gone, the old tree would stay without them (decided whatever the aliasing: the
    # emptying is an explicit clear() / rebind of the attribute)
    def _fallible(a: Optional[ast.AST]) -> Optional[ast.Call]:
        if a is None:
            return None
        # (a loop / branch head stands for its iterable / test only)
        roots = [a.iter] if isinstance(a, ast.For) else [a.test] if isinstance(a, (ast.If, ast.While)) else [a]
        for r_ in roots:
            for x in ast.walk(r_):
                if isinstance(x, (ast.FunctionDef, ast.Lambda)):
                    continue
                if isinstance(x, ast.Call):
                    d_ = dotted(x.func) or attr_path(x.func) or ("",)
                    if d_[-1] == "IntervalTree" or d_[-1] == "_make_interval" or (
                            d_[-1] in ("add", "discard", "remove", "addi", "update") and "_interval_index" in d_):
                        return x
        return None
    late = None
    for c in sorted(clears):
        for n in sorted(cfg.reachable(c)):
            if n == c:
                continue
            hit = _fallible(cfg.info[n].ast) if n in cfg.info else None
            if hit is not None:
                late = hit
                break
        if late is not None:
            break
    chk.ob("R12.4", "LazyIntervalTree.get:queue-emptied-last", late is None, f.loc(late) if late is not None else f.loc(),
           "get() empties the event queue and then still builds or updates the tree (%s): if that fails, "
           "the events are gone and the tree that stays never sees them"
           % (unparse(late)[:60] if late is not None else "-"), 3)
    # the rebuild enumerates the value collection through the builder, skipping None
    # (the nested generator function whose call is the argument the tree is built from)
    gen_names = {c.args[0].func.id for c in walk_no_nested(f.node)
                 if isinstance(c, ast.Call) and (dotted(c.func) or ("",))[-1] == "IntervalTree" and len(c.args) == 1
                 and isinstance(c.args[0], ast.Call) and isinstance(c.args[0].func, ast.Name) and not c.args[0].args
                 and c.args[0].func.id in f.nested()}
    gen = f.nested().get(sorted(gen_names)[0]) if len(gen_names) == 1 else None
    src = gen.node if gen is not None else f.node
    uses_vals = any(isinstance(n, ast.For) and attr_path(n.iter) == (me, "_value_collection")
                    for n in ast.walk(src))
    uses_builder = any(isinstance(n, ast.Call) and attr_path(n.func) == (me, "_make_interval")
                       for n in ast.walk(src))
    # ... and yields exactly the non-None intervals
    yields_ok = False
    for lp in ast.walk(src):
        if isinstance(lp, ast.For) and attr_path(lp.iter) == (me, "_value_collection"):
            c2 = CFG(gen.node) if gen is not None else cfg
            ys = [y for y in ast.walk(lp) if isinstance(y, ast.Yield)]
            if len(ys) == 1 and isinstance(ys[0].value, ast.Name):
                iv = ys[0].value.id
                bound = any(isinstance(a, ast.Assign) and attr_path(a.targets[0]) == (iv,)
                            and isinstance(a.value, ast.Call) and attr_path(a.value.func) == (me, "_make_interval")
                            for a in ast.walk(lp))
                present: Set[int] = set()
                for tn, i in c2.info.items():
                    if i.kind == "test" and (
                            (isinstance(i.ast, ast.Name) and i.ast.id == iv) or
                            (isinstance(i.ast, ast.Compare) and attr_path(i.ast.left) == (iv,)
                             and isinstance(i.ast.ops[0], (ast.Is, ast.IsNot)))):
                        for b in c2.g.successors(tn):
                            bi = c2.info[b]
                            if bi.kind != "branch":
                                continue
                            if isinstance(i.ast, ast.Compare):
                                if bi.value == isinstance(i.ast.ops[0], ast.IsNot):
                                    present.add(b)
                            elif bi.value:
                                present.add(b)
                try:
                    yn = c2.node_of(ys[0])
                    head = c2.by_ast[id(lp)]
                    body_in = [s_ for s_ in c2.g.successors(head)
                               if c2.info[s_].kind == "branch" and c2.info[s_].value]
                    # every iteration with an interval present reaches the yield; none without
                    reaches = all(c2.path_avoiding(b, head, {yn}) is None for b in present)
                    guarded = bool(present) and c2.path_avoiding(body_in[0], yn, present) is None
                    yields_ok = bound and reaches and guarded
                except (AnalysisError, IndexError):
                    yields_ok = False
    shape_known = uses_vals
    if not yields_ok:
        # the same as generator expressions: (iv for iv in (make(v) for v in values) if iv)
        for ge in ast.walk(src):
            if not isinstance(ge, ast.GeneratorExp) or len(ge.generators) != 1:
                continue
            g0 = ge.generators[0]
            inner = g0.iter
            if isinstance(inner, ast.GeneratorExp) and len(inner.generators) == 1 and not inner.generators[0].ifs \
                    and attr_path(inner.generators[0].iter) == (me, "_value_collection") \
                    and isinstance(inner.elt, ast.Call) and attr_path(inner.elt.func) == (me, "_make_interval") \
                    and len(inner.elt.args) == 1 and attr_path(inner.elt.args[0]) == attr_path(inner.generators[0].target) \
                    and isinstance(g0.target, ast.Name) and attr_path(ge.elt) == (g0.target.id,) and len(g0.ifs) == 1:
                t_ = g0.ifs[0]
                present_test = (isinstance(t_, ast.Name) and t_.id == g0.target.id) or (
                    isinstance(t_, ast.Compare) and len(t_.ops) == 1 and isinstance(t_.ops[0], ast.IsNot)
                    and attr_path(t_.left) == (g0.target.id,) and isinstance(t_.comparators[0], ast.Constant)
                    and t_.comparators[0].value is None)
                shape_known = True
                uses_vals = uses_builder = True
                yields_ok = present_test
    # the tree is built from an object of a private helper class of this module (an iterable that
    # produces the intervals): its __iter__ is not followed here
    helper_src = any(
        isinstance(c, ast.Call) and (dotted(c.func) or ("",))[-1] == "IntervalTree" and len(c.args) == 1
        and isinstance(c.args[0], ast.Call) and isinstance(c.args[0].func, ast.Name)
        and c.args[0].func.id.startswith("_") and chk.repo.cls_opt(c.args[0].func.id) is not None
        for c in walk_no_nested(f.node))
    chk.ob("R12.4", "LazyIntervalTree.get:rebuild-from-values", uses_vals and uses_builder and yields_ok, f.loc(),
           "a rebuild must index every value of self._value_collection through self._make_interval, "
           "yielding exactly the intervals that are not None", 3, undecided=aliased or helper_src)
    init0 = lt.methods.get("__init__")
    if init0 is not None:
        ps0 = init0.param_names()
        stored = {attr_path(t)[1]: attr_path(n.value) for n in walk_no_nested(init0.node)
                  if isinstance(n, (ast.Assign, ast.AnnAssign)) and n.value is not None
                  for t in (n.targets if isinstance(n, ast.Assign) else [n.target])
                  if attr_path(t) and len(attr_path(t)) == 2 and attr_path(t)[0] == init0.self_name}
        ok0 = stored.get("_value_collection") == (ps0[1],) and stored.get("_make_interval") == (ps0[2],) \
            and "_interval_events" in stored
        chk.ob("R12.4", "LazyIntervalTree.__init__:keeps-collection-and-builder", ok0, init0.loc(),
               "the wrapper must keep the very value collection and interval builder it was given "
               "(no copy: a rebuild must see the collection's current members) and start with an "
               "empty event queue", 2)
    chk.floor("R12.4", "replay loops in get()", n_replay, 1)
    # the choice between replay and rebuild may depend only on sizes
    init = lt.methods.get("__init__")
    if init is not None:
        chk.saw(init)
        starts_empty = any(isinstance(n, (ast.Assign, ast.AnnAssign)) and
                           attr_path(n.targets[0] if isinstance(n, ast.Assign) else n.target) ==
                           (init.self_name, "_interval_index") and isinstance(n.value, ast.Constant)
                           and n.value.value is None for n in walk_no_nested(init.node))
        chk.ob("R12.4", "LazyIntervalTree.__init__:starts-unbuilt", starts_empty, init.loc(),
               "a new lazy tree must start without a materialised tree (values added before "
               "construction completes are picked up by the first rebuild)", 1)


def no_lookup_during_edit(chk: Check, rule: str) -> int:
    """the owning collections tell the index about a change *while* they make it (the event is
    queued before the store changes): inside their methods nothing may ask the owner for anything
    that is answered from the index - a lookup there rebuilds or replays on a half-made edit and
    empties the queue"""
    repo = chk.repo
    n = 0
    for site in tree_sites(repo):
        owner = site.owner
        # members of the owner answered from the index (directly, or through another such member)
        answered: Set[str] = set()
        members: Dict[str, FuncInfo] = dict(owner.methods)
        for nm, pr in owner.props.items():
            if pr.getter is not None:
                members[nm] = pr.getter
        for _ in range(4):
            for nm, fi in members.items():
                if nm in answered or nm.startswith("_index_") or nm == "__init__":
                    continue
                me = fi.self_name or "self"
                for x in ast.walk(fi.node):
                    if isinstance(x, ast.Call) and isinstance(x.func, ast.Attribute) and x.func.attr == "get" \
                            and attr_path(x.func.value) == (me, site.attr):
                        answered.add(nm)
                    elif isinstance(x, ast.Attribute) and attr_path(x.value) == (me,) and x.attr in answered:
                        answered.add(nm)
        # the wrapper class(es) of the owner's collection
        for c in repo.classes.values():
            if c.outer is not owner or not any(c.is_subclass_of(repo.cls(b)) for b in ("SetWrapper", "ListWrapper", "DictWrapper")):
                continue
            for mname, f in c.methods.items():
                if mname == "__init__":
                    continue
                me = f.self_name or "self"
                al = local_aliases(f.node)
                for x in walk_no_nested(f.node):
                    if not (isinstance(x, ast.Attribute) and x.attr in answered):
                        continue
                    recv = expand_path(x.value, al)
                    if recv == (me, "_node"):
                        n += 1
                        chk.saw(f)
                        chk.ob(rule, "%s:no-lookup-during-edit(%s)" % (f.qualname, x.attr), False, f.loc(x),
                               "%s asks its owner for %s, which is answered from the interval index: in the middle of "
                               "the edit the index would be rebuilt or replayed on a half-updated collection and its "
                               "pending events dropped" % (f.qualname, x.attr), 2)
    return n
