#!/venv/bin/python
"""refresh_meta.py : re-evaluate every stored seeded change with the current rules and rewrite
the detected_by_checks / own_property_check_detects fields of its meta.json"""
import glob, json, re, subprocess
seeds = sorted(glob.glob('/verif/seeded/*/patch.diff'))
out = subprocess.run(['/venv/bin/python', '/verif/tools/eval_patches.py'] + seeds, capture_output=True, text=True).stdout
n = miss = 0
for l in out.splitlines():
    m = re.match(r'/verif/seeded/([^/]+)/patch.diff: (.*)', l)
    if not m:
        continue
    sid = m.group(1)
    p = '/verif/seeded/%s/meta.json' % sid
    meta = json.load(open(p))
    if "(PATCH)" in m.group(2):
        # the patch no longer applies to the current /repo (a later fix touched the same lines):
        # what was recorded when it was stored stands
        meta['applies_to_current_tree'] = False
        json.dump(meta, open(p, 'w'), indent=1)
        print('does not apply any more:', sid)
        continue
    meta['applies_to_current_tree'] = True
    viol = sorted(t for t in m.group(2).split() if re.fullmatch(r'C\d+', t))
    meta['detected_by_checks'] = viol
    meta['own_property_check_detects'] = meta['breaks_property'] in viol
    json.dump(meta, open(p, 'w'), indent=1)
    n += 1
    if not meta['own_property_check_detects']:
        miss += 1
        print('not by own:', sid, viol)
print(n, 'refreshed;', miss, 'not reported by their own property')
