#!/bin/sh
# run every quick check on /repo (rewrites all evidence files); exit 1 if any check is non-zero
cd /verif; rc=0
for p in C01 C02 C03 C04 C05 C06 C07 C08 C09 C10 C11 C12 C13 C14 C15 C16 C17 C18 C19; do
  /venv/bin/python -m gtirb_static check $p "$@" | grep -v '^KNOWN' | tail -1 || rc=1
done
exit $rc
