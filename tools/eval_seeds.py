#!/venv/bin/python
"""usage: eval_seeds.py [dir ...]   (default: /verif/seeded/*)
For every stored seeded change: which properties' checks report it; flags the ones its own
property's check misses."""
import json, os, subprocess, sys, glob
dirs = sys.argv[1:] or sorted(glob.glob("/verif/seeded/*"))
patches = [d + "/patch.diff" for d in dirs if os.path.exists(d + "/patch.diff")]
out = subprocess.run(["/verif/tools/eval_patches.py"] + patches, capture_output=True, text=True).stdout
own = anyc = 0
for line in out.splitlines():
    path, _, res = line.partition(": ")
    d = os.path.dirname(path)
    prop = json.load(open(d + "/meta.json")).get("breaks_property", "?")
    hit = [x for x in res.split() if "(" not in x and x != "silent"]
    if prop in hit:
        own += 1
    else:
        print("MISS-OWN %s own=%s got=%s" % (os.path.basename(d), prop, res))
    if hit:
        anyc += 1
print("own %d/%d  any %d/%d" % (own, len(patches), anyc, len(patches)))
