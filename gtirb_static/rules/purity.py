"""Who-may-hold-state rules: the codec path and AuxData keep no hidden state.

Encoding, decoding and type-name parsing must be functions of their arguments
for every history of earlier calls (other values, other IRs).  Structurally:
no module-, class- or instance-level mutable state is written on that path
other than the codec table; AuxData's typestate has exactly three fields.
"""
from __future__ import annotations

import ast
from typing import Dict, List, Optional, Set, Tuple

from ..model import ClassInfo, FuncInfo, Repo, attr_path, dotted, unparse, walk_no_nested
from ..report import Check

_MUTABLE_CALLS = {"dict", "list", "set", "defaultdict", "OrderedDict", "WeakValueDictionary",
                  "WeakKeyDictionary", "BytesIO", "bytearray", "deque", "Counter", "StringIO"}
ALLOWED_INSTANCE_STATE = {
    "SubtypeTree": {"name", "subtypes"},
    "Variant": {"index", "val"},
    "UnknownCodecError": {"name"},
    "Serialization": {"codecs"},
    "AuxData": {"_lazy_container", "_data", "type_name"},
    "_LazyDataContainer": {"raw_data", "type_name", "get_by_uuid"},
}


def _is_mutable_value(v: Optional[ast.AST]) -> bool:
    if v is None:
        return False
    if isinstance(v, (ast.Dict, ast.List, ast.Set, ast.ListComp, ast.DictComp, ast.SetComp)):
        return True
    if isinstance(v, ast.Call):
        d = dotted(v.func)
        if d and d[-1] in _MUTABLE_CALLS:
            return True
    return False


_READ_METHODS = {"get", "keys", "items", "values", "copy", "index", "count", "__contains__", "__getitem__"}
_COPYING_CALLS = {"dict", "list", "set", "tuple", "sorted", "frozenset", "len", "iter", "enumerate", "zip", "any", "all"}


def _escaping_uses(repo: Repo, module: str, name: str) -> List[str]:
    """uses of a module-level object other than reading it or copying it: a table that is only
    read is a constant, whatever its type"""
    out: List[str] = []
    for mod in repo.modules.values():
        imported = mod.name == module or any(
            isinstance(st, ast.ImportFrom) and any((a.asname or a.name) == name for a in st.names)
            for st in ast.walk(mod.tree))
        if not imported:
            continue
        for n in ast.walk(mod.tree):
            if not (isinstance(n, ast.Name) and n.id == name):
                continue
            par = getattr(n, "_parent", None)
            where = "%s:%d" % (mod.relpath, n.lineno)
            if isinstance(n.ctx, ast.Store):
                if isinstance(par, (ast.Assign, ast.AnnAssign)) and isinstance(getattr(par, "_parent", None), ast.Module):
                    continue            # the definition itself
                out.append("rebound at %s" % where)
                continue
            if isinstance(par, ast.Subscript) and par.value is n:
                if isinstance(par.ctx, ast.Load):
                    continue
                out.append("item written at %s" % where)
                continue
            if isinstance(par, ast.Attribute) and par.value is n:
                gp = getattr(par, "_parent", None)
                if par.attr in _READ_METHODS and isinstance(gp, ast.Call) and gp.func is par:
                    continue
                out.append(".%s at %s" % (par.attr, where))
                continue
            if isinstance(par, ast.Call) and n in par.args and isinstance(par.func, ast.Name) and \
                    par.func.id in _COPYING_CALLS:
                continue
            if isinstance(par, ast.Compare) and n in par.comparators and \
                    all(isinstance(o, (ast.In, ast.NotIn)) for o in par.ops):
                continue
            if isinstance(par, (ast.For, ast.comprehension)) and par.iter is n:
                continue
            if isinstance(par, ast.Dict) and n in par.values and par.keys[par.values.index(n)] is None:
                continue                # {**NAME}
            if isinstance(par, (ast.ImportFrom, ast.alias)):
                continue
            out.append("used as a value at %s (%s)" % (where, type(par).__name__))
    return out


def codec_state(chk: Check, rule: str, modules: Tuple[str, ...] = ("serialization",)) -> int:
    repo = chk.repo
    n = 0
    for mn in modules:
        m = repo.module(mn)
        # module level
        for st in m.tree.body:
            tg = val = None
            if isinstance(st, ast.Assign) and len(st.targets) == 1:
                tg, val = st.targets[0], st.value
            elif isinstance(st, ast.AnnAssign):
                tg, val = st.target, st.value
            if tg is None:
                continue
            n += 1
            nm = unparse(tg)
            escapes = _escaping_uses(repo, mn, nm) if _is_mutable_value(val) and isinstance(tg, ast.Name) else ["?"]
            chk.ob(rule, "%s:module-state(%s)" % (mn, nm), not _is_mutable_value(val) or not escapes,
                   "%s:%d" % (m.relpath, st.lineno),
                   "module-level mutable object %s = %s in %s.py is written or handed out (%s): results "
                   "of encode/decode/parse could depend on earlier calls (other values, other IRs, "
                   "other Serialization instances)" % (nm, unparse(val)[:40], mn, "; ".join(escapes[:3])), 1)
        for c in m.classes.values():
            allowed = ALLOWED_INSTANCE_STATE.get(c.name, set())
            for k, v in c.class_assigns.items():
                if k.startswith("__"):
                    continue
                n += 1
                is_const = isinstance(v, ast.Constant) and v.value is not None or (
                    isinstance(v, ast.Call) and (dotted(v.func) or ("",))[-1] == "Serialization")
                is_alias = isinstance(v, (ast.Name, ast.Attribute))
                chk.ob(rule, "%s:class-state(%s)" % (c.qualname, k), is_const or is_alias, c.loc(),
                       "class-level attribute %s.%s = %s is not a constant: state shared by every "
                       "call (and every IR) on the codec path" % (c.qualname, k, unparse(v)[:40]), 1)
            funcs: List[FuncInfo] = list(c.methods.values())
            for p in c.props.values():
                funcs += [x for x in (p.getter, p.setter) if x]
            for f in funcs:
                chk.saw(f)
                for x in walk_no_nested(f.node):
                    if isinstance(x, (ast.Global, ast.Nonlocal)):
                        chk.ob(rule, "%s:global(%s)" % (f.qualname, ",".join(x.names)), False, f.loc(x),
                               "%s rebinds module state (%s)" % (f.qualname, ", ".join(x.names)), 1)
                    tgs: List[ast.AST] = []
                    if isinstance(x, ast.Assign):
                        tgs = list(x.targets)
                    elif isinstance(x, (ast.AugAssign, ast.AnnAssign)):
                        tgs = [x.target]
                    elif isinstance(x, ast.Delete):
                        tgs = list(x.targets)
                    for t in tgs:
                        base = t
                        while isinstance(base, ast.Subscript):
                            base = base.value
                        if not isinstance(base, ast.Attribute):
                            continue
                        p = attr_path(base)
                        if p is None:
                            continue
                        n += 1
                        me = f.self_name
                        if p[0] == me and not f.is_classmethod and len(p) == 2:
                            if c.name not in ALLOWED_INSTANCE_STATE and not c.name.endswith("Codec"):
                                continue    # a model class, not part of the codec / AuxData typestate
                            ok = p[1] in allowed
                            what = "instance attribute %s.%s" % (c.name, p[1])
                        elif p[0] in ("cls",) or p[0] in m.classes or (f.is_classmethod and p[0] == me):
                            ok = False
                            what = "class attribute %s" % ".".join(p)
                        else:
                            continue    # attribute of a local object (a value being built)
                        chk.ob(rule, "%s:writes(%s)" % (f.qualname, ".".join(p[1:])), ok, f.loc(x),
                               "%s writes the %s, which is not part of the declared state of %s (%s): "
                               "hidden state on the codec / AuxData path makes results depend on the "
                               "history of earlier calls" % (f.qualname, what, c.name, sorted(allowed) or "none"), 1)
        for f in m.functions.values():
            chk.saw(f)
            for x in walk_no_nested(f.node):
                if isinstance(x, (ast.Global, ast.Nonlocal)):
                    chk.ob(rule, "%s:global(%s)" % (f.qualname, ",".join(x.names)), False, f.loc(x),
                           "%s rebinds module state" % f.qualname, 1)
    # nested functions writing enclosing/module containers (``_cache[key] = ...``)
    for mn in modules:
        m = repo.module(mn)
        module_names = {t.id for st in m.tree.body if isinstance(st, (ast.Assign, ast.AnnAssign))
                        for t in ([st.target] if isinstance(st, ast.AnnAssign) else st.targets)
                        if isinstance(t, ast.Name)}
        for f in repo.all_functions():
            if f.module is not m:
                continue
            for x in walk_no_nested(f.node):
                tgs = []
                if isinstance(x, ast.Assign):
                    tgs = x.targets
                elif isinstance(x, (ast.AugAssign,)):
                    tgs = [x.target]
                for t in tgs:
                    if isinstance(t, ast.Subscript) and isinstance(t.value, ast.Name) and t.value.id in module_names:
                        chk.ob(rule, "%s:writes-module(%s)" % (f.qualname, t.value.id), False, f.loc(x),
                               "%s stores into the module-level object %s" % (f.qualname, t.value.id), 1)
                if isinstance(x, ast.Call) and isinstance(x.func, ast.Attribute) and \
                        isinstance(x.func.value, ast.Name) and x.func.value.id in module_names and \
                        x.func.attr in ("append", "add", "update", "setdefault", "pop", "clear", "extend"):
                    chk.ob(rule, "%s:mutates-module(%s)" % (f.qualname, x.func.value.id), False, f.loc(x),
                           "%s mutates the module-level object %s" % (f.qualname, x.func.value.id), 1)
    return n


def encode_stream(chk: Check, rule: str) -> None:
    """Serialization.encode hands the caller's stream to _encode_tree; the only other write is
    the verbatim UnknownData blob.  Serialization.decode reads through _decode_tree only."""
    ser = chk.repo.cls("Serialization")
    e = ser.methods.get("encode")
    if e is None:
        return
    chk.saw(e)
    out = e.param_names()[1]
    val = e.param_names()[2]
    calls = [c for c in walk_no_nested(e.node) if isinstance(c, ast.Call)
             and attr_path(c.func) == (e.self_name, "_encode_tree")]
    ok = len(calls) == 1 and calls[0].args and attr_path(calls[0].args[0]) == (out,) and \
        len(calls[0].args) >= 2 and attr_path(calls[0].args[1]) == (val,)
    chk.ob(rule, "Serialization.encode:writes-through-to-caller-stream", ok, e.loc(),
           "Serialization.encode must encode the value straight into the caller's stream "
           "(self._encode_tree(out, val, <tree>)); an intermediate buffer changes which bytes reach "
           "the stream: %s" % ([unparse(c) for c in calls] or "no _encode_tree call"), 2)
    writes = [c for c in walk_no_nested(e.node) if isinstance(c, ast.Call)
              and attr_path(c.func) == (out, "write")]
    ok = all(len(w.args) == 1 and attr_path(w.args[0]) == (val,) for w in writes)
    chk.ob(rule, "Serialization.encode:no-extra-writes", ok, e.loc(),
           "besides the verbatim UnknownData blob, Serialization.encode must not write to the "
           "stream itself (%s)" % [unparse(w) for w in writes], 2)


def value_passthrough(chk: Check, rule: str) -> None:
    """leaf codecs write the value they are given: the value parameter of encode() is never
    rebound (normalised, clamped, replaced) before it is packed"""
    repo = chk.repo
    base = repo.cls("Codec")
    n = 0
    for c in repo.classes.values():
        if c is base or not c.is_subclass_of(base):
            continue
        f = c.methods.get("encode")
        if f is None:
            continue
        ps = f.param_names()
        off = 1 if (f.is_classmethod or (f.self_name and not f.is_staticmethod)) else 0
        if len(ps) < off + 2:
            continue
        val = ps[off + 1]
        n += 1
        chk.saw(f)
        import re as _re

        def _is_val(name: str) -> bool:
            # the parameter, or a later binding of it (the normal form names those <val>_v<k>)
            return name == val or _re.fullmatch(_re.escape(val) + r"_v\d+", name) is not None
        rebinds = [x for x in walk_no_nested(f.node) if isinstance(x, (ast.Assign, ast.AugAssign, ast.AnnAssign))
                   and any(isinstance(t, ast.Name) and _is_val(t.id)
                           for t in (x.targets if isinstance(x, ast.Assign) else [x.target]))]
        # ``val = val.uuid`` (a wrapper replaced by the value it stands for) is not a modification
        def _projection(v: ast.AST) -> bool:
            if isinstance(v, ast.IfExp):
                return _projection(v.body) and _projection(v.orelse)
            if isinstance(v, ast.Name):
                return _is_val(v.id)
            return isinstance(v, ast.Attribute) and _is_val((attr_path(v) or ("",))[0])
        rebinds = [x for x in rebinds if not (isinstance(x, ast.Assign) and _projection(x.value))]
        chk.ob(rule, "%s.encode:value-unmodified" % c.qualname, not rebinds,
               f.loc(rebinds[0]) if rebinds else f.loc(),
               "%s.encode rebinds its value argument (%s) before writing it: some values are no "
               "longer written as themselves (the decoder cannot give them back bit for bit)"
               % (c.qualname, unparse(rebinds[0])[:60] if rebinds else ""), 1)
        # ... nor converted on the way: str(v), int(v), bytes(v), float(v), repr(v), format(v)
        conv = [x for x in walk_no_nested(f.node) if isinstance(x, ast.Call) and isinstance(x.func, ast.Name)
                and x.func.id in ("str", "int", "float", "bytes", "bytearray", "repr", "format", "bool", "abs", "round")
                and len(x.args) >= 1 and isinstance(x.args[0], ast.Name) and _is_val(x.args[0].id)
                and not any(id(x) == id(y) for r_ in walk_no_nested(f.node) if isinstance(r_, ast.Raise) for y in ast.walk(r_))]
        # (bytes([val]) / bool(val) for the one-byte bool are the pinned spellings of packing)
        conv = [x for x in conv if not (x.func.id in ("bool", "int") and c.name == "BoolCodec")]
        chk.ob(rule, "%s.encode:value-unconverted" % c.qualname, not conv, f.loc(conv[0]) if conv else f.loc(),
               "%s.encode converts its value argument (%s) before writing it: a value whose conversion differs "
               "from itself (a subclass overriding __str__/__int__, a look-alike type) is written as something else"
               % (c.qualname, unparse(conv[0])[:40] if conv else ""), 1)
    chk.extra["codec_encoders"] = n


def no_result_caches(chk: Check, rule: str, modules: Tuple[str, ...] = ("serialization", "auxdata")) -> None:
    """no memoising decorator / wrapper (lru_cache, cache, cached_property) on the decode /
    AuxData path: decoded values are mutable and belong to one table of one IR"""
    repo = chk.repo
    for mn in modules:
        m = repo.module(mn)
        for x in ast.walk(m.tree):
            d = None
            if isinstance(x, ast.FunctionDef):
                for dec in x.decorator_list:
                    dd = dotted(dec.func if isinstance(dec, ast.Call) else dec)
                    if dd and dd[-1] in ("lru_cache", "cache", "cached_property"):
                        d = (x.name, dd[-1], dec)
            elif isinstance(x, ast.Call):
                dd = dotted(x.func)
                if dd and dd[-1] in ("lru_cache", "cache") and dd[0] in ("functools", "lru_cache", "cache"):
                    d = ("<call>", dd[-1], x)
            if d is not None:
                chk.ob(rule, "%s:%s(%s)" % (mn, d[1], d[0]), False, "%s:%d" % (m.relpath, d[2].lineno),
                       "%s.py memoises results with %s (%s): decoded AuxData values / looked-up nodes are "
                       "shared between tables, IRs and load generations, and lookups go stale"
                       % (mn, d[1], d[0]), 1)
    chk.ob(rule, "no-memoising-wrappers", True, "python/gtirb/serialization.py:1",
           "no lru_cache/cache wrappers on the codec path", 1)


def decoded_passthrough(chk: Check, rule: str) -> int:
    """container codecs put every decoded element into the result as it is: the value that
    ``_decode_tree`` returns goes straight into an append / add / item assignment / display /
    constructor — never through a function that could replace it by an *equal* object
    (0.0 == -0.0, 1 == True == 1.0: interning by equality changes values)"""
    repo = chk.repo
    base = repo.cls("Codec")
    n = 0
    ok_methods = {"append", "add"}

    def consumer_ok(x: ast.AST, f: FuncInfo, depth: int = 0) -> Optional[str]:
        par = getattr(x, "_parent", None)
        if isinstance(par, ast.Call):
            if x in par.args or any(k.value is x for k in par.keywords):
                fn = par.func
                if isinstance(fn, ast.Attribute) and fn.attr in ok_methods:
                    return None
                d = dotted(fn)
                last = d[-1] if d else ""
                if last in ("tuple", "list", "set", "frozenset", "dict") or last[:1].isupper():
                    return None         # builtin container or a value class constructor
                return "it is passed to %s" % unparse(fn)
            return None
        if isinstance(par, (ast.Tuple, ast.List, ast.Set, ast.Return, ast.Yield, ast.Expr, ast.Starred,
                            ast.ListComp, ast.SetComp, ast.GeneratorExp, ast.DictComp, ast.Subscript, ast.keyword)):
            return None
        if isinstance(par, ast.Dict):
            return None
        if isinstance(par, (ast.Assign, ast.AnnAssign)):
            tgs = par.targets if isinstance(par, ast.Assign) else [par.target]
            for t in tgs:
                if isinstance(t, ast.Name) and depth < 3:
                    for y in walk_no_nested(f.node):
                        if isinstance(y, ast.Name) and y.id == t.id and isinstance(y.ctx, ast.Load):
                            why = consumer_ok(y, f, depth + 1)
                            if why:
                                return why
            return None
        return None
    for c in repo.classes.values():
        if c is base or not c.is_subclass_of(base):
            continue
        f = c.methods.get("decode")
        if f is None:
            continue
        for call in walk_no_nested(f.node):
            if isinstance(call, ast.Call) and isinstance(call.func, ast.Attribute) and call.func.attr == "_decode_tree":
                n += 1
                why = consumer_ok(call, f)
                chk.ob(rule, "%s.decode:element-as-decoded" % c.qualname, why is None, f.loc(call),
                       "%s.decode does not put the decoded element into its result as it is: %s — a "
                       "helper that swaps it for an equal object changes values whose equality is "
                       "coarser than their encoding (signed zeros, 1/True/1.0)" % (c.qualname, why), 2)
    return n


def stream_discipline(chk: Check, rule: str) -> int:
    """the codecs consume and produce the stream strictly front to back: ``read(n)`` on the
    decode side, ``write(b)`` on the encode side, nothing else.  Position/size queries
    (tell, seek, getbuffer, peek ...) make what a codec accepts depend on what surrounds the value
    in the stream — the wire format of a value is defined by the value's own bytes."""
    n = 0
    m = chk.repo.module("serialization")
    for f in chk.repo.all_functions():
        if f.module is not m:
            continue
        streams = set()
        a = f.node.args
        for x in a.posonlyargs + a.args + a.kwonlyargs:
            ann = unparse(x.annotation) if x.annotation is not None else ""
            if "BinaryIO" in ann or "IOBase" in ann or "BytesIO" in ann:
                streams.add(x.arg)
        if not streams:
            continue
        n += 1
        for c in walk_no_nested(f.node):
            if isinstance(c, ast.Attribute) and isinstance(c.value, ast.Name) and c.value.id in streams \
                    and c.attr not in ("read", "write"):
                chk.saw(f)
                chk.ob(rule, "%s:stream-front-to-back(%s)" % (f.qualname, c.attr), False, f.loc(c),
                       "%s uses %s.%s: a codec may only read(n) / write(b) the stream, front to back"
                       % (f.qualname, c.value.id, c.attr), 1)
    chk.ob(rule, "serialization:stream-discipline:scanned", n >= 20, "python/gtirb/serialization.py:1",
           "only %d functions with a stream parameter found" % n, n)
    return n
