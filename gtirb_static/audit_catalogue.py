"""Seeded faults (each compiles; the suite cannot see any of them because it
imports the installed gtirb) and behaviour-preserving twins.  An entry whose
``old`` text no longer occurs exactly once in the working tree is skipped and
counted as such.
"""
from __future__ import annotations

from typing import Any, Dict, List, Optional, Tuple

P = "python/gtirb/"
FAULTS: List[Dict[str, Any]] = []
TWINS: List[Dict[str, Any]] = []


def F(prop: str, name: str, file: str, old: str, new: str, rule: Optional[str] = None,
      more: Optional[List[Tuple[str, str, str]]] = None, allow_error: bool = False) -> None:
    edits = [(P + file if not file.startswith(("proto/", "doc/", "PROTOBUF", "version", "include/", "java/")) else file, old, new)]
    for m in more or []:
        edits.append((P + m[0] if "/" not in m[0] else m[0], m[1], m[2]))
    FAULTS.append({"property": prop, "name": name, "edits": edits, "rule": rule,
                   "allow_error": allow_error})


def T(prop: str, name: str, file: str, old: str, new: str,
      more: Optional[List[Tuple[str, str, str]]] = None) -> None:
    edits = [(P + file if not file.startswith(("proto/", "doc/", "PROTOBUF", "version")) else file, old, new)]
    for m in more or []:
        edits.append((P + m[0] if "/" not in m[0] else m[0], m[1], m[2]))
    TWINS.append({"property": prop, "name": name, "edits": edits})


# ---------------------------------------------------------------------------
# C03
F("C03", "drop table removal in _ByteIntervalSet.discard", "section.py",
  """            if self._node.ir is not None:
                v._remove_from_uuid_cache(self._node.ir._local_uuid_cache)
            return super().discard(v)""",
  """            return super().discard(v)""", "R03.3")
F("C03", "Module._remove_from_uuid_cache forgets symbols", "module.py",
  """        for symbol in self.symbols:
            symbol._remove_from_uuid_cache(cache)""", "", "R03.4")
F("C03", "guard tests the element's ir instead of the owner's", "module.py",
  """            if self._node.ir is not None:
                v._add_to_uuid_cache(self._node.ir._local_uuid_cache)""",
  """            if v.ir is not None:
                v._add_to_uuid_cache(self._node.ir._local_uuid_cache)""", "R03.3")
F("C03", "class-level UUID table", "ir.py",
  """    class _ModuleList(ListWrapper[Module]):""",
  """    _local_uuid_cache = {}  # type: ignore

    class _ModuleList(ListWrapper[Module]):""", "R03.1")
F("C03", "IR.__init__ reuses a shared dict default", "ir.py",
  """        self._local_uuid_cache: typing.Dict[UUID, Node] = {}""",
  """        self._local_uuid_cache: typing.Dict[UUID, Node] = _SHARED""", "R03.1")
F("C03", "drop loader registration of sections", "section.py",
  """        s._add_to_uuid_cache(ir._local_uuid_cache)
""", "", "R03.6")
F("C03", "_BlockSet.update registers only when element had an ir", "byteinterval.py",
  """                if node_ir is not None:
                    v._add_to_uuid_cache(node_ir._local_uuid_cache)""",
  """                if node_ir is not None and v.ir is not None:
                    v._add_to_uuid_cache(node_ir._local_uuid_cache)""", "R03.3")
F("C03", "_ModuleList._remove forgets the table", "ir.py",
  """            v._ir = None
            v._remove_from_uuid_cache(self._node._local_uuid_cache)""",
  """            v._ir = None""", "R03.3")
F("C03", "get_by_uuid falls back to a global registry", "ir.py",
  """        return self._local_uuid_cache.get(uuid)""",
  """        return self._local_uuid_cache.get(uuid) or _ALL.get(uuid)""", "R03.7")
F("C03", "Block cache method registers under a fresh key", "block.py",
  """        cache[self.uuid] = self

    def _remove_from_uuid_cache""",
  """        cache.setdefault(self.uuid, self)

    def _remove_from_uuid_cache""", "R03.1")
F("C03", "Section cache add skips intervals", "section.py",
  """        cache[self.uuid] = self
        for bi in self.byte_intervals:
            bi._add_to_uuid_cache(cache)""",
  """        cache[self.uuid] = self""", "R03.4")
T("C03", "cache self._node.ir in a local (discard)", "section.py",
  """            if self._node.ir is not None:
                v._remove_from_uuid_cache(self._node.ir._local_uuid_cache)
            return super().discard(v)""",
  """            owner_ir = self._node.ir
            if owner_ir is not None:
                v._remove_from_uuid_cache(owner_ir._local_uuid_cache)
            return super().discard(v)""")
T("C03", "invert the membership guard", "section.py",
  """            if v not in self:
                return
            self._node._index_discard(v)
            v._section = None
            if self._node.ir is not None:
                v._remove_from_uuid_cache(self._node.ir._local_uuid_cache)
            return super().discard(v)""",
  """            if v in self:
                self._node._index_discard(v)
                v._section = None
                if self._node.ir is not None:
                    v._remove_from_uuid_cache(self._node.ir._local_uuid_cache)
                super().discard(v)""")

# ---------------------------------------------------------------------------
# C04
F("C04", "Section stores the caller's flags set", "section.py",
  "        self.flags = set(flags)", "        self.flags = flags", "R04.5")
F("C04", "symbols set constructed with the wrong field", "module.py",
  """Module._NodeSet(self, "symbols", symbols)""", """Module._NodeSet(self, "sections", symbols)""", "R04.2")
F("C04", "ByteBlock.module skips a level", "block.py",
  """        section = self.section
        if section is None:
            return None
        return section.module""",
  """        section = self.section
        if section is None:
            return None
        return section.ir""", "R04.3")
F("C04", "IR.data_blocks chains code blocks", "ir.py",
  """            m.data_blocks for m in self.modules""", """            m.code_blocks for m in self.modules""", "R04.4")
F("C04", "setter writes the back-pointer directly", "byteinterval.py",
  """        if value is not None:
            value.byte_intervals.add(self)""",
  """        self._section = value""", "R03.2")
F("C04", "Block defines __eq__", "block.py",
  """    @property
    def references(self)""",
  """    def __eq__(self, other: object) -> bool:
        return isinstance(other, Block) and self.uuid == other.uuid

    def __hash__(self) -> int:
        return hash(self.uuid)

    @property
    def references(self)""", "R04.6")
F("C04", "_NodeSet.add does not leave the previous module", "module.py",
  """            if v._module is not None:
                getattr(v._module, self._field).discard(v)
            v._module = self._node""",
  """            v._module = self._node""", "R03.3")
F("C04", "_ByteIntervalSet.discard keeps the element in the store", "section.py",
  """                v._remove_from_uuid_cache(self._node.ir._local_uuid_cache)
            return super().discard(v)""",
  """                v._remove_from_uuid_cache(self._node.ir._local_uuid_cache)""", "R03.3")
F("C04", "SetWrapper.clear empties the store directly", "util.py",
  """        while self:
            self.pop()""", """        self._data.clear()""", "R03.5")
F("C04", "ListWrapper.insert without the add hook", "util.py",
  """        self._add(v)
        return self._data.insert(i, v)""", """        return self._data.insert(i, v)""", "R03.3")
F("C04", "Symbol.module setter joins the sections set", "symbol.py",
  """            value.symbols.add(self)""", """            value.sections.add(self)""", "R04.1")
F("C04", "Module.cfg_nodes forgets proxies", "module.py",
  """        return itertools.chain(self.code_blocks, self.proxies)""",
  """        return itertools.chain(self.code_blocks)""", "R04.4")
F("C04", "Section.ir without the None test", "section.py",
  """        if self.module is None:
            return None
        return self.module.ir""", """        return self.module.ir""", "R04.3")
F("C04", "AuxDataContainer shares the aux_data dict", "auxdata.py",
  """        self.aux_data: Dict[str, AuxData] = dict(aux_data)""",
  """        self.aux_data: Dict[str, AuxData] = aux_data  # type: ignore""", "R04.5")
F("C04", "discard clears the back-pointer of non-members", "byteinterval.py",
  """            if v not in self:
                return
            self._node._index_discard(v)""",
  """            self._node._index_discard(v)""", "R03.3")
T("C04", "route the flags copy through a local", "section.py",
  "        self.flags = set(flags)", "        copied = set(flags)\n        self.flags = copied")
T("C04", "accessor without the alias", "block.py",
  """        section = self.section
        if section is None:
            return None
        return section.module""",
  """        if self.section is None:
            return None
        return self.section.module""")
T("C04", "aggregate as a generator function", "ir.py",
  """        return itertools.chain.from_iterable(m.proxies for m in self.modules)""",
  """        for m in self.modules:
            yield from m.proxies""")

# ---------------------------------------------------------------------------
# C16
F("C16", "revert the _from_iterable fix", "util.py",
  """    @classmethod
    def _from_iterable(cls, it: typing.Iterable[S]) -> typing.Set[S]:
        return set(it)
""", "", "R16.1")
F("C16", "revert the update(*iterables) fix", "byteinterval.py",
  "set().union(*iterables) - self._data", "set(*iterables) - self._data", "R16.2")
F("C16", "__or__ returns the store itself", "util.py",
  "        return self._data | other", "        self._data.update(other)\n        return self._data", "R16.3")
F("C16", "SetWrapper.pop without the KeyError translation", "util.py",
  """        try:
            result = next(it)
        except StopIteration:
            raise KeyError
""", """        result = next(it)
""", "R16.3")
F("C16", "__ior__ forgets to return self", "util.py",
  """            self.add(value)
        return self

    def pop""", """            self.add(value)

    def pop""", "R16.3")
F("C16", "symbolic expression dict on a plain dict", "byteinterval.py",
  """self._data: "SortedDict[int, SymbolicExpression]" = SortedDict()""",
  """self._data: "typing.Dict[int, SymbolicExpression]" = {}""", "R16.5")
F("C16", "SetWrapper.update via a unary constructor", "util.py",
  """        for other in others:
            for v in other:
                self.add(v)

    def __str__""", """        for v in set(*others):
            self.add(v)

    def __str__""", "R16.2")
F("C04", "__delitem__ removes the store entry without the remove hook", "util.py",
  """        for index in indices:
            self._remove(self._data[index])

        del self._data[i]""", """        del self._data[i]""", None)
T("C16", "_from_iterable returning a frozenset-built set", "util.py",
  "        return set(it)\n", "        return set(frozenset(it))\n")
T("C16", "update iterating itertools.chain", "byteinterval.py",
  "set().union(*iterables) - self._data", "set(itertools.chain(*iterables)) - self._data")

# ---------------------------------------------------------------------------
# C07 / C08
F("C07", "revert the string byte-count fix", "serialization.py",
  """        encoded = val.encode("utf-8")
        Uint64Codec.encode(out, len(encoded))
        out.write(encoded)""",
  """        Uint64Codec.encode(out, len(val))
        out.write(val.encode())""", "R07.2")
F("C07", "mapping decoder reads the value before the key", "serialization.py",
  """            key = serialization._decode_tree(raw_bytes, key_type, get_by_uuid)
            val = serialization._decode_tree(raw_bytes, val_type, get_by_uuid)""",
  """            val = serialization._decode_tree(raw_bytes, val_type, get_by_uuid)
            key = serialization._decode_tree(raw_bytes, key_type, get_by_uuid)""", "R07.1")
F("C07", "Int16Codec four bytes wide", "serialization.py",
  """    typname = "int16_t"
    bytesize = 2""", """    typname = "int16_t"
    bytesize = 4""", "R07.3")
F("C07", "signedness dropped in IntegerCodec.decode only", "serialization.py",
  """raw_bytes.read(cls.bytesize), byteorder="little", signed=cls.signed""",
  """raw_bytes.read(cls.bytesize), byteorder="little", signed=False""", "R07.1")
F("C07", "sequence encoder counts the subtypes", "serialization.py",
  """        Uint64Codec.encode(out, len(sequence))""", """        Uint64Codec.encode(out, len(subtypes))""", "R07.2")
F("C07", "variant index decoded from four bytes", "serialization.py",
  """            raw_bytes.read(8), byteorder="little", signed=False""",
  """            raw_bytes.read(4), byteorder="little", signed=False""", "R07.1")
F("C07", "Addr mapped to the signed codec", "serialization.py",
  """            "Addr": Uint64Codec,""", """            "Addr": Int64Codec,""", "R07.3")
F("C07", "SetCodec.decode drops get_by_uuid", "serialization.py",
  """            decoded_set.add(
                serialization._decode_tree(raw_bytes, subtype, get_by_uuid)""",
  """            decoded_set.add(
                serialization._decode_tree(raw_bytes, subtype, None)""", "R07.3")
F("C07", "UUIDCodec.decode always returns the plain UUID", "serialization.py",
  """        return uuid if existing_node is None else existing_node""", """        return uuid""", "R07.4")
F("C07", "OffsetCodec.decode does not resolve the element", "serialization.py",
  """        element_uuid = UUIDCodec.decode(raw_bytes, get_by_uuid=get_by_uuid)""",
  """        element_uuid = UUIDCodec.decode(raw_bytes)""", "R07.3")
F("C07", "tuple decoder stops one short", "serialization.py",
  """        for subtype in subtypes:
            decoded_list.append(""", """        for subtype in subtypes[:-1]:
            decoded_list.append(""", None, allow_error=True)
F("C07", "_decode_tree looks up a different key than _encode_tree", "serialization.py",
  """        codec = self.codecs[type_tree.name]
        return codec.decode(""", """        codec = self.codecs[type_tree.name.lower()]
        return codec.decode(""", "R07.3")
F("C08", "big-endian integers in both directions", "serialization.py",
  """raw_bytes.read(cls.bytesize), byteorder="little", signed=cls.signed""",
  """raw_bytes.read(cls.bytesize), byteorder="big", signed=cls.signed""", "R08.1",
  more=[("serialization.py", """val.to_bytes(cls.bytesize, byteorder="little", signed=cls.signed)""",
         """val.to_bytes(cls.bytesize, byteorder="big", signed=cls.signed)""")])
F("C08", "UTF-16 strings in both directions", "serialization.py",
  """        encoded = val.encode("utf-8")""", """        encoded = val.encode("utf-16-le")""", "R08.1",
  more=[("serialization.py", """return raw_bytes.read(size).decode("utf-8")""",
         """return raw_bytes.read(size).decode("utf-16-le")""")])
F("C08", "bool as four bytes both ways", "serialization.py",
  """        return bool(raw_bytes.read(1) != b"\\x00")""", """        return bool(raw_bytes.read(4) != b"\\x00\\x00\\x00\\x00")""", "R08.1",
  more=[("serialization.py", """        out.write(bytes([val]))""", """        out.write(int(val).to_bytes(4, byteorder="little"))""")])
F("C08", "set without a count both ways", "serialization.py",
  """        Uint64Codec.encode(out, len(items))
        for item in items:
            serialization._encode_tree(out, item, subtype)

""", """        for item in items:
            serialization._encode_tree(out, item, subtype)

""", "R08.1")
F("C08", "double as big-endian struct", "serialization.py",
  """    struct_format = "<d\"""", """    struct_format = ">d\"""", "R08.1")
F("C08", "variant index as uint32 both ways", "serialization.py",
  """            raw_bytes.read(8), byteorder="little", signed=False""",
  """            raw_bytes.read(4), byteorder="little", signed=False""", "R08.1",
  more=[("serialization.py", """variant.index.to_bytes(8, byteorder="little")""",
         """variant.index.to_bytes(4, byteorder="little")""")])
F("C08", "Offset displacement before the UUID both ways", "serialization.py",
  """        UUIDCodec.encode(out, val.element_id)
        Uint64Codec.encode(out, val.displacement)""",
  """        Uint64Codec.encode(out, val.displacement)
        UUIDCodec.encode(out, val.element_id)""", "R08.1")
T("C07", "string encoder with the default utf-8 argument", "serialization.py",
  """        encoded = val.encode("utf-8")""", """        encoded = val.encode()""")
T("C07", "mapping encoder iterating keys then indexing is outside: keep items() via local", "serialization.py",
  """        for key, val in mapping.items():
            serialization._encode_tree(out, key, key_type)
            serialization._encode_tree(out, val, val_type)""",
  """        for key, val in mapping.items():
            enc = serialization._encode_tree
            enc(out, key, key_type)
            enc(out, val, val_type)""")

# ---------------------------------------------------------------------------
# C02
F("C02", "preferred_addr / rebase_delta swapped in both directions", "module.py",
  """        proto_module.preferred_addr = self.preferred_addr""",
  """        proto_module.preferred_addr = self.rebase_delta""", "R02.2",
  more=[("module.py", """        proto_module.rebase_delta = self.rebase_delta""",
         """        proto_module.rebase_delta = self.preferred_addr"""),
        ("module.py", """            preferred_addr=proto_module.preferred_addr,
            rebase_delta=proto_module.rebase_delta,""",
         """            preferred_addr=proto_module.rebase_delta,
            rebase_delta=proto_module.preferred_addr,""")])
F("C02", "reader swaps preferred_addr / rebase_delta", "module.py",
  """            preferred_addr=proto_module.preferred_addr,
            rebase_delta=proto_module.rebase_delta,""",
  """            preferred_addr=proto_module.rebase_delta,
            rebase_delta=proto_module.preferred_addr,""", "R02.3")
F("C02", "two ISA members swapped", "module.py",
  """        ARM = Module_pb2.ISA.Value("ARM")""", """        ARM = Module_pb2.ISA.Value("ARM64")""", "R02.4",
  more=[("module.py", """        ARM64 = Module_pb2.ISA.Value("ARM64")""", """        ARM64 = Module_pb2.ISA.Value("ARM")""")])
F("C02", "one SymAttribute member deleted", "symbolicexpression.py",
  """        TLSLDO = SymbolicExpression_pb2.SymAttribute.Value("TLSLDO")
""", "", "R02.4")
F("C02", "byte_order never written", "module.py",
  """        proto_module.byte_order = self.byte_order.value
""", "", "R02.1")
F("C02", "has_address by truthiness", "byteinterval.py",
  """        if self.address is None:
            proto_interval.has_address = False
        else:
            proto_interval.has_address = True
            proto_interval.address = self.address""",
  """        proto_interval.has_address = bool(self.address)
        if self.address:
            proto_interval.address = self.address""", "R02.2")
F("C02", "version byte written before the reserved bytes", "ir.py",
  """        protobuf_file.write(b"\\0")
        protobuf_file.write(b"\\0")
        protobuf_file.write(PROTOBUF_VERSION.to_bytes(1, byteorder="little"))""",
  """        protobuf_file.write(PROTOBUF_VERSION.to_bytes(1, byteorder="little"))
        protobuf_file.write(b"\\0")
        protobuf_file.write(b"\\0")""", "R02.5")
F("C02", "reader compares the seventh byte", "ir.py",
  """        protobuf_file.read(1)
        protobuf_file.read(1)

        version = int.from_bytes(protobuf_file.read(1), byteorder="little")""",
  """        protobuf_file.read(1)
        version = int.from_bytes(protobuf_file.read(1), byteorder="little")
        protobuf_file.read(1)
""", "R02.5")
F("C02", "decode_mode written as the enum object's name", "block.py",
  """        proto_block.decode_mode = self.decode_mode.value""",
  """        proto_block.decode_mode = int(self.decode_mode.name == "Thumb")""", "R02.2")
F("C02", "DecodeMode read as a raw int", "block.py",
  """            decode_mode=cls.DecodeMode(proto_block.decode_mode),""",
  """            decode_mode=proto_block.decode_mode,""", "R02.4")
F("C02", "vertices list only names code blocks", "ir.py",
  """        proto_cfg.vertices.extend(v.uuid.bytes for v in self.cfg_nodes)""",
  """        proto_cfg.vertices.extend(v.uuid.bytes for v in self.code_blocks)""", "R02.2")
F("C02", "symbol at_end not read", "symbol.py",
  """            name=proto_symbol.name, at_end=proto_symbol.at_end, uuid=uuid""",
  """            name=proto_symbol.name, uuid=uuid""", "R02.3")
F("C02", "edge source and target swapped by the writer", "cfg.py",
  """            proto_edge.source_uuid = s.uuid.bytes
            proto_edge.target_uuid = t.uuid.bytes""",
  """            proto_edge.source_uuid = t.uuid.bytes
            proto_edge.target_uuid = s.uuid.bytes""", "R02.2")
F("C02", "edge label conditional/direct swapped by the reader", "cfg.py",
  """                    Edge.Type(edge.label.type),
                    edge.label.conditional,
                    edge.label.direct,""", """                    Edge.Type(edge.label.type),
                    edge.label.direct,
                    edge.label.conditional,""", "R02.3")
F("C02", "uuid written as a hex string", "section.py",
  """        proto_section.uuid = self.uuid.bytes""", """        proto_section.uuid = self.uuid.hex.encode()""", "R02.2")
F("C02", "a proto enum gains a constant the API does not know", "proto/Module.proto",
  """  MIPS64 = 9;
};""", """  MIPS64 = 9;
  RISCV64 = 10;
};""", "R02.4")
F("C02", "both oneof alternatives written", "symbol.py",
  """        if self.value is not None:
            proto_symbol.value = self.value
        elif self.referent is not None:""",
  """        if self.value is not None:
            proto_symbol.value = self.value
        if self.referent is not None:""", "R02.1")
T("C02", "writer assignments reordered and routed through a local", "module.py",
  """        proto_module.preferred_addr = self.preferred_addr""",
  """        pa = self.preferred_addr
        proto_module.preferred_addr = pa""")
T("C02", "magic written byte-wise differently", "ir.py",
  """        protobuf_file.write(b"\\0")
        protobuf_file.write(b"\\0")""", """        protobuf_file.write(b"\\0\\0")""")

# ---------------------------------------------------------------------------
# C01
F("C01", "rebase_delta not written", "module.py",
  """        proto_module.rebase_delta = self.rebase_delta
""", "", "R01.1")
F("C01", "at_end dropped by the symbol reader", "symbol.py",
  """            name=proto_symbol.name, at_end=proto_symbol.at_end, uuid=uuid""",
  """            name=proto_symbol.name, uuid=uuid""", "R01.1")
F("C01", "symbol value written only when truthy", "symbol.py",
  """        if self.value is not None:
            proto_symbol.value = self.value""",
  """        if self.value:
            proto_symbol.value = self.value""", "R01.2")
F("C01", "has_address from truthiness", "byteinterval.py",
  """        if self.address is None:
            proto_interval.has_address = False""",
  """        if not self.address:
            proto_interval.has_address = False""", "R01.2")
F("C01", "block offset restored only when non-zero", "byteinterval.py",
  """            block.offset = proto_block.offset
            return block""",
  """            if proto_block.offset:
                block.offset = proto_block.offset
            return block""", "R01.2")
F("C01", "new constructor attribute that is not persisted", "section.py",
  """        name: str = "",
        byte_intervals: typing.Iterable[ByteInterval] = (),""",
  """        name: str = "",
        alignment: int = 1,
        byte_intervals: typing.Iterable[ByteInterval] = (),""", "R01.1")
F("C01", "AuxData writer skips empty tables", "auxdata.py",
  """        for k, v in self.aux_data.items():
            proto_container[k].CopyFrom(v._to_protobuf())""",
  """        for k, v in self.aux_data.items():
            if v.data:
                proto_container[k].CopyFrom(v._to_protobuf())""", "R01.4")
F("C01", "module AuxData not read", "module.py",
  """        m.aux_data.update(
            AuxDataContainer._read_protobuf_aux_data(proto_module.aux_data, ir)
        )
""", "", "R01.1")
F("C01", "symbolic expression attributes not restored", "byteinterval.py",
  """            for f in v.attribute_flags:
                try:
                    expr.attributes.add(SymbolicExpression.Attribute(f))
                except ValueError:
                    expr.attributes.add(f)
""", "", "R01.1")
F("C01", "symbol referent not restored", "symbol.py",
  """            symbol.referent = referent
""", "            pass\n", "R01.1")
F("C01", "entry point restored only for truthy preferred address", "module.py",
  """        if proto_module.entry_point:""", """        if proto_module.entry_point and proto_module.preferred_addr:""", "R01.2")
F("C01", "decode_mode not written", "block.py",
  """        proto_block.decode_mode = self.decode_mode.value
""", "", "R01.1")
T("C01", "is not None written as not ... is None", "symbol.py",
  """        if self.value is not None:
            proto_symbol.value = self.value""",
  """        if not (self.value is None):
            proto_symbol.value = self.value""")
T("C01", "independent writer assignments reordered", "module.py",
  """        proto_module.binary_path = self.binary_path
        proto_module.isa = self.isa.value""",
  """        proto_module.isa = self.isa.value
        proto_module.binary_path = self.binary_path""")

# ---------------------------------------------------------------------------
# C05
F("C05", "ByteBlock.size becomes a plain attribute", "block.py",
  """    size = _IndexedAttribute[int]()(lambda self: self.byte_interval)
""", "", "R05.1")
F("C05", "offset notifies the section instead of the interval", "block.py",
  """    offset = _IndexedAttribute[int]()(lambda self: self.byte_interval)""",
  """    offset = _IndexedAttribute[int]()(lambda self: self.section)""", "R05.1")
F("C05", "descriptor stores before discarding", "util.py",
  """            parent = self.parent_getter(instance)
            if parent:
                parent._index_discard(instance)
            setattr(instance, self.attribute_name, value)
            parent = self.parent_getter(instance)""",
  """            setattr(instance, self.attribute_name, value)
            parent = self.parent_getter(instance)
            if parent:
                parent._index_discard(instance)
            parent = self.parent_getter(instance)""", "R05.2")
F("C05", "descriptor never re-adds", "util.py",
  """            parent = self.parent_getter(instance)
            if parent:
                parent._index_add(instance)""", """            pass""", "R05.2")
F("C05", "_BlockSet.update forgets the index", "byteinterval.py",
  """            self._node._index_add_multiple(self._data, new_items)
""", "", "R05.3")
F("C05", "_BlockSet.discard forgets the index", "byteinterval.py",
  """            self._node._index_discard(v)
            v._byte_interval = None""", """            v._byte_interval = None""", "R05.3")
F("C05", "code_blocks_at filters the 'on' lookup", "byteinterval.py",
  """            b for b in self.byte_blocks_at(addrs) if isinstance(b, CodeBlock)""",
  """            b for b in self.byte_blocks_on(addrs) if isinstance(b, CodeBlock)""", "R05.5")
F("C05", "IR.data_blocks_on delegates to code blocks", "ir.py",
  """            m.data_blocks_on(addrs) for m in self.modules""",
  """            m.code_blocks_on(addrs) for m in self.modules""", "R05.5")
F("C05", "_offset_interval drops the +1", "util.py",
  """        node.offset, node.offset + node.size + 1, node""",
  """        node.offset, node.offset + node.size, node""", "R05.6")
F("C05", "byte_blocks_at uses the 'on' helper", "byteinterval.py",
  """        return _nodes_at_interval_tree(
            self._interval_tree.get(), addrs, -self.address
        )""", """        return _nodes_on_interval_tree(
            self._interval_tree.get(), addrs, -self.address
        )""", "R05.4")
F("C05", "byte_blocks_on forgets the address shift", "byteinterval.py",
  """        return _nodes_on_interval_tree(
            self._interval_tree.get(), addrs, -self.address
        )""", """        return _nodes_on_interval_tree(
            self._interval_tree.get(), addrs
        )""", "R05.4")
F("C05", "byte_blocks_on_offset searches by address", "byteinterval.py",
  """        return _nodes_on_interval_tree_offset(
            self._interval_tree.get(), offsets
        )""", """        return _nodes_on_interval_tree(
            self._interval_tree.get(), offsets
        )""", "R05.4")
F("C05", "Section.byte_blocks_at asks children for 'on'", "section.py",
  """            yield from interval.byte_blocks_at(addrs)""", """            yield from interval.byte_blocks_on(addrs)""", "R05.5")
F("C05", "data_blocks_on_offset filters code blocks", "byteinterval.py",
  """            for b in self.byte_blocks_on_offset(offsets)
            if isinstance(b, DataBlock)""", """            for b in self.byte_blocks_on_offset(offsets)
            if isinstance(b, CodeBlock)""", "R05.5")
F("C05", "_index_discard of ByteInterval is a no-op", "byteinterval.py",
  """        self._interval_tree.discard(block)""", """        pass""", "R05.2")
F("C05", "zero-size filter loses the bias", "util.py",
  """        if not node_interval.length() - 1:""", """        if not node_interval.length():""", "R05.6")
T("C05", "lookup rewritten as a plain scan", "byteinterval.py",
  """        return _nodes_at_interval_tree_offset(
            self._interval_tree.get(), offsets
        )""", """        rng = get_desired_range(offsets)
        return [b for b in self.blocks if b.offset in rng]""")
T("C05", "module lookup as a generator function", "module.py",
  """        return itertools.chain.from_iterable(
            s.byte_blocks_on(addrs) for s in self.sections
        )""", """        for s in self.sections:
            yield from s.byte_blocks_on(addrs)""")

# ---------------------------------------------------------------------------
# C06
F("C06", "ByteInterval.address notifies the module", "byteinterval.py",
  """    address = _IndexedAttribute[typing.Optional[int]]()(
        lambda self: self.section
    )""", """    address = _IndexedAttribute[typing.Optional[int]]()(
        lambda self: self.module
    )""", "R05.1")
F("C06", "Section.size guard only tests non-empty", "section.py",
  """        index = self._interval_index.get()
        if 0 < len(index) == len(self.byte_intervals):
            return index.span() - 1""", """        index = self._interval_index.get()
        if 0 < len(index):
            return index.span() - 1""", "R06.3")
F("C06", "_ByteIntervalSet.add forgets the index", "section.py",
  """            self._node._index_add(v)
            v._section = self._node""", """            v._section = self._node""", "R05.3")
F("C06", "Module.sections_at uses nodes_on", "module.py",
  """        return nodes_at(self.sections, addrs)""", """        return nodes_on(self.sections, addrs)""", "R06.2")
F("C06", "Section.size forgets the bias", "section.py",
  """            return index.span() - 1""", """            return index.span()""", None)
F("C06", "Section.address returns the highest end", "section.py",
  """            return index.begin()""", """            return index.end()""", "R06.3")
F("C06", "IR.byte_intervals_at delegates to 'on'", "ir.py",
  """            m.byte_intervals_at(addrs) for m in self.modules""",
  """            m.byte_intervals_on(addrs) for m in self.modules""", "R06.1")
F("C06", "Section.byte_intervals_at uses the 'on' helper", "section.py",
  """        return _nodes_at_interval_tree(self._interval_index.get(), addrs)""",
  """        return _nodes_on_interval_tree(self._interval_index.get(), addrs)""", "R06.1")
F("C06", "empty section has address 0", "section.py",
  """        index = self._interval_index.get()
        if 0 < len(index) == len(self.byte_intervals):
            return index.begin()""", """        index = self._interval_index.get()
        if len(index) == len(self.byte_intervals):
            return index.begin()""", "R06.3")
T("C06", "extent guard through a local", "section.py",
  """        index = self._interval_index.get()
        if 0 < len(index) == len(self.byte_intervals):
            return index.begin()""", """        index = self._interval_index.get()
        if len(index) > 0 and len(index) == len(self.byte_intervals):
            return index.begin()""")

# ---------------------------------------------------------------------------
# C10
F("C10", "Symbol.name becomes a plain attribute", "symbol.py",
  """    name = _IndexedAttribute[str]()(lambda self: self.module)
""", "", "R10.1")
F("C10", "value setter bypasses the descriptor", "symbol.py",
  """    def value(self, value: typing.Optional[int]) -> None:
        self._payload = value""", """    def value(self, value: typing.Optional[int]) -> None:
        self.__dict__["__payload"] = value""", "R10.1")
F("C10", "_index_discard forgets the referent index", "module.py",
  """            if node.referent:
                symbol_set = self._symbol_referent_index[node.referent]
                symbol_set.discard(node)
                if not symbol_set:
                    del self._symbol_referent_index[node.referent]
""", "", "R10.2")
F("C10", "references consults the first module of the IR", "block.py",
  """        symbol_set = self.module._symbol_referent_index.get(self)""",
  """        symbol_set = self.ir.modules[0]._symbol_referent_index.get(self)""", "R10.4")
F("C10", "_index_add keyed by node.value", "module.py",
  """            if node.referent:
                self._symbol_referent_index[node.referent].add(node)""",
  """            if node.value:
                self._symbol_referent_index[node.value].add(node)""", "R10.2")
F("C10", "_NodeSet.add forgets the index", "module.py",
  """            v._module = self._node
            self._node._index_add(v)""", """            v._module = self._node""", "R10.3")
F("C10", "_NodeSet.discard forgets the index", "module.py",
  """            v._module = None
            self._node._index_discard(v)""", """            v._module = None""", "R10.3")
F("C10", "symbols_named reads the referent index", "module.py",
  """        symbols = self._symbol_name_index.get(name, None)""",
  """        symbols = self._symbol_referent_index.get(name, None)""", "R10.4")
F("C10", "payload notifies the IR", "symbol.py",
  """    _payload = _IndexedAttribute[typing.Optional[Payload]]()(
        lambda self: self.module
    )""", """    _payload = _IndexedAttribute[typing.Optional[Payload]]()(
        lambda self: self.ir
    )""", "R10.1")
F("C10", "name index shared between modules", "module.py",
  """        self._symbol_name_index: typing.MutableMapping[
            str, typing.Set[Symbol]
        ] = collections.defaultdict(set)""", """        self._symbol_name_index = _SHARED_NAME_INDEX""", None)
T("C10", "symbols_named as a filter over self.symbols", "module.py",
  """        symbols = self._symbol_name_index.get(name, None)
        if symbols:
            yield from symbols""", """        for s in self.symbols:
            if s.name == name:
                yield s""")

# ---------------------------------------------------------------------------
# C11
F("C11", "add without the absence guard", "cfg.py",
  """        if edge not in self:
            self._nxg.add_edge(edge.source, edge.target, label=edge.label)""",
  """        self._nxg.add_edge(edge.source, edge.target, label=edge.label)""", "R11.2")
F("C11", "discard removes an arbitrary parallel edge", "cfg.py",
  """            self._nxg.remove_edge(edge.source, edge.target, key=key)""",
  """            self._nxg.remove_edge(edge.source, edge.target)""", "R11.2")
F("C11", "_edge_key compares labels by identity", "cfg.py",
  """if "label" in e and e["label"] == edge.label:""", """if "label" in e and e["label"] is edge.label:""", "R11.2")
F("C11", "ProxyBlock in/out swapped", "block.py",
  """    @property
    def incoming_edges(self) -> typing.Iterator["Edge"]:
        ir = self.ir
        if ir is None:
            return iter(())
        return ir.cfg.in_edges(self)

    @property
    def outgoing_edges(self) -> typing.Iterator["Edge"]:
        ir = self.ir
        if ir is None:
            return iter(())
        return ir.cfg.out_edges(self)

    @property
    def ir(self)""", """    @property
    def incoming_edges(self) -> typing.Iterator["Edge"]:
        ir = self.ir
        if ir is None:
            return iter(())
        return ir.cfg.out_edges(self)

    @property
    def outgoing_edges(self) -> typing.Iterator["Edge"]:
        ir = self.ir
        if ir is None:
            return iter(())
        return ir.cfg.in_edges(self)

    @property
    def ir(self)""", "R11.4")
F("C11", "__len__ counts nodes", "cfg.py",
  """        return len(self._nxg.edges())""", """        return len(self._nxg.nodes())""", "R11.2")
F("C11", "in_edges yields reversed edges", "cfg.py",
  """            for s, t, l in self._nxg.in_edges(node, data="label"):
                yield Edge(s, t, l)""", """            for s, t, l in self._nxg.in_edges(node, data="label"):
                yield Edge(t, s, l)""", "R11.4")
F("C11", "add drops the label", "cfg.py",
  """            self._nxg.add_edge(edge.source, edge.target, label=edge.label)""",
  """            self._nxg.add_edge(edge.source, edge.target)""", "R11.2")
F("C11", "out_edges uses the in view", "cfg.py",
  """            for s, t, l in self._nxg.out_edges(node, data="label"):""",
  """            for s, t, l in self._nxg.in_edges(node, data="label"):""", "R11.4")
F("C11", "discard keyed by the first parallel edge", "cfg.py",
  """        key = self._edge_key(edge)
        if key is not None:""", """        key = 0
        if key is not None:""", "R11.2")
F("C11", "a helper mutates the multigraph behind the set", "cfg.py",
  """    def out_edges(self, node: CfgNode) -> Iterator[Edge]:""",
  """    def replace_node(self, old: CfgNode, new: CfgNode) -> None:
        self._nxg.add_node(new)
        self._nxg.remove_node(old)

    def out_edges(self, node: CfgNode) -> Iterator[Edge]:""", "R11.1")
F("C11", "EdgeLabel equality ignores direct", "cfg.py",
  """    def __repr__(self) -> str:
        return (
            "Edge.Label(""", """    def __eq__(self, other: object) -> bool:
        return isinstance(other, EdgeLabel) and self.type == other.type

    def __repr__(self) -> str:
        return (
            "Edge.Label(""", "R11.5")
T("C11", "add guarded through _edge_key", "cfg.py",
  """        if edge not in self:
            self._nxg.add_edge(edge.source, edge.target, label=edge.label)""",
  """        if self._edge_key(edge) is None:
            self._nxg.add_edge(edge.source, edge.target, label=edge.label)""")

# ---------------------------------------------------------------------------
# C12
F("C12", "events not cleared on the replay branch", "lazyintervaltree.py",
  """                    self._interval_index.discard(interval)
        self._interval_events.clear()
        return self._interval_index""",
  """                    self._interval_index.discard(interval)
            return self._interval_index
        self._interval_events.clear()
        return self._interval_index""", "R12.4")
F("C12", "add stores the value and builds the interval at replay time", "lazyintervaltree.py",
  """        interval = self._make_interval(value)
        if interval is not None:
            self._interval_events.append((_EventType.ADDED, interval))""",
  """        interval = value
        if interval is not None:
            self._interval_events.append((_EventType.ADDED, interval))""", "R12.3")
F("C12", "replay applies only ADDED events", "lazyintervaltree.py",
  """                if event == _EventType.ADDED:
                    self._interval_index.add(interval)
                else:
                    self._interval_index.discard(interval)""",
  """                if event == _EventType.ADDED:
                    self._interval_index.add(interval)""", "R12.4")
F("C12", "Section.size caches the tree on the section", "section.py",
  """        index = self._interval_index.get()
        if 0 < len(index) == len(self.byte_intervals):
            return index.span() - 1""",
  """        self._tree = self._interval_index.get()
        index = self._tree
        if 0 < len(index) == len(self.byte_intervals):
            return index.span() - 1""", None)
F("C12", "a lookup records the last query on the interval", "byteinterval.py",
  """        if self.address is None:
            return ()

        return _nodes_at_interval_tree(""", """        if self.address is None:
            return ()
        self._last_query = addrs

        return _nodes_at_interval_tree(""", "R12.1")
F("C12", "discard queued as ADDED", "lazyintervaltree.py",
  """            self._interval_events.append((_EventType.DISCARDED, interval))""",
  """            self._interval_events.append((_EventType.ADDED, interval))""", "R12.3")
F("C12", "replay walks the queue backwards", "lazyintervaltree.py",
  """            for event, interval in self._interval_events:""",
  """            for event, interval in reversed(self._interval_events):""", "R12.4")
F("C12", "get() skips replay when few events", "lazyintervaltree.py",
  """        else:
            # There are fewer updates than constructing a new tree would use.
            for event, interval in self._interval_events:""",
  """        elif len(self._interval_events) > 2:
            # There are fewer updates than constructing a new tree would use.
            for event, interval in self._interval_events:""", "R12.4")
F("C12", "first use replays instead of building", "lazyintervaltree.py",
  """        if self._interval_index is None:
            self._interval_index = IntervalTree(intervals())
        elif""", """        if self._interval_index is None:
            self._interval_index = IntervalTree()
        if""", None, allow_error=True)
F("C12", "the block tree is built over a copy of the block set", "byteinterval.py",
  """        self._interval_tree = LazyIntervalTree[int, ByteBlock](
            self.blocks, _offset_interval
        )""", """        self._interval_tree = LazyIntervalTree[int, ByteBlock](
            set(self.blocks), _offset_interval
        )""", None, allow_error=True)
T("C12", "changed replay/rebuild threshold", "lazyintervaltree.py",
  """        elif len(self._value_collection) <= len(self._interval_events):""",
  """        elif len(self._value_collection) * 2 <= len(self._interval_events):""")
T("C12", "queue reset by rebinding an empty list", "lazyintervaltree.py",
  """        self._interval_events.clear()
        return self._interval_index""", """        self._interval_events = []
        return self._interval_index""")

# ---------------------------------------------------------------------------
# C13
F("C13", "revert the alias-safe setter fix", "byteinterval.py",
  """        new_items = dict(value)
        self._symbolic_expressions.clear()
        self._symbolic_expressions.update(new_items)""",
  """        self._symbolic_expressions.clear()
        self._symbolic_expressions.update(value)""", "R13.2")
F("C13", "store on a plain dict", "byteinterval.py",
  """self._data: "SortedDict[int, SymbolicExpression]" = SortedDict()""",
  """self._data: "typing.Dict[int, SymbolicExpression]" = {}""", "R13.1")
F("C13", "setter rebinds to the caller's dict", "byteinterval.py",
  """        new_items = dict(value)
        self._symbolic_expressions.clear()
        self._symbolic_expressions.update(new_items)""",
  """        self._symbolic_expressions = value""", "R13.1")
F("C13", "step filter dropped", "byteinterval.py",
  """            if self.address + i in addrs:
                yield (self, i, self.symbolic_expressions[i])""",
  """            yield (self, i, self.symbolic_expressions[i])""", "R13.3")
F("C13", "closed upper bound", "byteinterval.py",
  """            addrs.stop - self.address,
            inclusive=(True, False),""", """            addrs.stop - self.address,
            inclusive=(True, True),""", "R13.3")
F("C13", "IR-level lookup chains sections of the first module only", "ir.py",
  """        return symbolic_expressions_at(self.modules, addrs)""",
  """        return symbolic_expressions_at(self.modules[:1], addrs)""", "R13.4")
F("C13", "lower bound forgets the interval address", "byteinterval.py",
  """            addrs.start - self.address,
            addrs.stop - self.address,""", """            addrs.start,
            addrs.stop - self.address,""", "R13.3")
F("C13", "offset variant filters on the address", "byteinterval.py",
  """            if i in offsets:
                yield (self, i, self.symbolic_expressions[i])""",
  """            if self.address is not None and self.address + i in offsets:
                yield (self, i, self.symbolic_expressions[i])""", "R13.3")
F("C13", "lookup without the no-address guard", "byteinterval.py",
  """        if self.address is None:
            return

        addrs = get_desired_range(addrs)""", """        addrs = get_desired_range(addrs)""", "R13.3")
F("C13", "Section asks the children for the offset variant", "section.py",
  """            yield from interval.symbolic_expressions_at(addrs)""",
  """            yield from interval.symbolic_expressions_at_offset(addrs)""", "R13.4")
F("C13", "yields the offset as an address", "byteinterval.py",
  """            if self.address + i in addrs:
                yield (self, i, self.symbolic_expressions[i])""",
  """            if self.address + i in addrs:
                yield (self, self.address + i, self.symbolic_expressions[i])""", "R13.3")
T("C13", "setter rebinding a fresh sorted mapping built from a copy", "byteinterval.py",
  """        new_items = dict(value)
        self._symbolic_expressions.clear()
        self._symbolic_expressions.update(new_items)""",
  """        self._symbolic_expressions = ByteInterval._SymbolicExprDict(
            self, dict(value)
        )""")

# ---------------------------------------------------------------------------
# C09
F("C09", "entry point accepted as any Block", "module.py",
  """            if not isinstance(entry_point, CodeBlock):""", """            if not isinstance(entry_point, Block):""", "R09.1",
  more=[("module.py", "from .block import ByteBlock, CfgNode, CodeBlock, DataBlock, ProxyBlock",
         "from .block import Block, ByteBlock, CfgNode, CodeBlock, DataBlock, ProxyBlock")])
F("C09", "ill-typed edge target silently kept", "cfg.py",
  """            target = ir.get_by_uuid(target_uuid)
            if not isinstance(target, CfgNode):
                raise DeserializationError(
                    "CFG: UUID %s is not a CfgNode" % target_uuid
                )
""", """            target = ir.get_by_uuid(target_uuid)
""", "R09.1")
F("C09", "symbols decoded before sections", "module.py",
  """        m.sections.update(
            Section._from_protobuf(s, ir) for s in proto_module.sections
        )
        # entry point is a code block, which depends on sections""",
  """        m.symbols.update(
            Symbol._from_protobuf(s, ir) for s in proto_module.symbols
        )
        m.sections.update(
            Section._from_protobuf(s, ir) for s in proto_module.sections
        )
        # entry point is a code block, which depends on sections""", "R09.2")
F("C09", "SymAddrConst builds a fresh Symbol for its reference", "symbolicexpression.py",
  """        symbol_uuid = UUID(bytes=proto_symaddrconst.symbol_uuid)
        symbol = get_by_uuid(symbol_uuid)
        if not isinstance(symbol, Symbol):
            raise DeserializationError(
                "SymAddrConst: UUID %s is not a Symbol" % symbol_uuid
            )
        return cls(proto_symaddrconst.offset, symbol)""",
  """        symbol_uuid = UUID(bytes=proto_symaddrconst.symbol_uuid)
        symbol = Symbol("", uuid=symbol_uuid)
        return cls(proto_symaddrconst.offset, symbol)""", "R09.1")
F("C09", "get_data decodes without a lookup function", "auxdata.py",
  """            self.raw_data, self.type_name, self.get_by_uuid
        )""", """            self.raw_data, self.type_name, None
        )""", "R09.4")
F("C09", "_from_protobuf returns a cached node of any class", "node.py",
  """            if isinstance(cached_node, cls):
                node = cached_node
            elif cached_node is not None:
                raise DeserializationError(
                    "got %s for UUID %s but expected %s"
                    % (type(cached_node).__name__, uuid, cls.__name__)
                )""", """            if cached_node is not None:
                node = cached_node""", "R09.1")
F("C09", "wrong kind raises ValueError instead of DeserializationError", "symbol.py",
  """                raise DeserializationError(
                    "Symbol: UUID %s is not a block" % referent_uuid
                )""", """                raise ValueError(
                    "Symbol: UUID %s is not a block" % referent_uuid
                )""", "R09.1")
F("C09", "CFG decoded before the modules", "ir.py",
  """        ir.modules.extend(
            Module._from_protobuf(m, ir) for m in proto_ir.modules
        )
        ir.cfg = CFG._from_protobuf(proto_ir.cfg.edges, ir)""",
  """        ir.cfg = CFG._from_protobuf(proto_ir.cfg.edges, ir)
        ir.modules.extend(
            Module._from_protobuf(m, ir) for m in proto_ir.modules
        )""", "R09.2")
F("C09", "module AuxData decoded before the symbols", "module.py",
  """        # symbols depend on blocks
        m.symbols.update(""", """        m.aux_data.update(
            AuxDataContainer._read_protobuf_aux_data(proto_module.aux_data, ir)
        )
        # symbols depend on blocks
        m.symbols.update(""", "R09.2")
F("C09", "Offset element only checked when displacement non-zero", "offset.py",
  """        if not element:
            raise DeserializationError(""", """        if not element and offset.displacement:
            raise DeserializationError(""", "R09.1")
F("C09", "lazy container bound to a stale lookup", "auxdata.py",
  """            aux_data.data, aux_data.type_name, ir.get_by_uuid
        )""", """            aux_data.data, aux_data.type_name, lambda u: None
        )""", "R09.4")
F("C09", "symbolic expressions decoded with a lookup that skips symbols", "byteinterval.py",
  """                return SymAddrConst._from_protobuf(
                    proto_expr.addr_const, ir.get_by_uuid
                )""", """                return SymAddrConst._from_protobuf(
                    proto_expr.addr_const, lambda u: None
                )""", None)
T("C09", "kind check inverted with else", "symbol.py",
  """            if not isinstance(referent, Block):
                raise DeserializationError(
                    "Symbol: UUID %s is not a block" % referent_uuid
                )
            symbol.referent = referent""", """            if isinstance(referent, Block):
                symbol.referent = referent
            else:
                raise DeserializationError(
                    "Symbol: UUID %s is not a block" % referent_uuid
                )""")

# ---------------------------------------------------------------------------
# C17
F("C17", "version compared only when non-zero", "ir.py",
  """        if version != PROTOBUF_VERSION:
            raise ValueError(
                "Attempt to decode IR of version %s (expected version %s)"
                % (version, PROTOBUF_VERSION)
            )

        ir = IR_pb2.IR()""", """        if version and version != PROTOBUF_VERSION:
            raise ValueError(
                "Attempt to decode IR of version %s (expected version %s)"
                % (version, PROTOBUF_VERSION)
            )

        ir = IR_pb2.IR()""", "R17.1")
F("C17", "magic check by prefix of four bytes", "ir.py",
  """        if magic != GTIRB_MAGIC_CHARS:""", """        if not magic.startswith(b"GTIR"):""", "R17.1")
F("C17", "message version not checked", "ir.py",
  """        if proto_ir.version != PROTOBUF_VERSION:
            raise ValueError(
                "Attempt to decode IR of version %s (expected version %s)"
                % (proto_ir.version, PROTOBUF_VERSION)
            )

        ir = cls(""", """        ir = cls(""", "R17.2")
F("C17", "bad edges are skipped", "cfg.py",
  """        return CFG(make_edge(ir, edge) for edge in edges)""",
  """        result = CFG()
        for edge in edges:
            try:
                result.add(make_edge(ir, edge))
            except DeserializationError:
                continue
        return result""", "R17.7")
F("C17", "missing else: raise in decode_block", "byteinterval.py",
  """            elif proto_block.HasField("data"):
                block = DataBlock._from_protobuf(proto_block.data, ir)
            else:
                raise TypeError(
                    "Unknown type inside proto block: %s"
                    % proto_block.WhichOneof("value")
                )
""", """            else:
                block = DataBlock._from_protobuf(proto_block.data, ir)
""", "R17.6")
F("C17", "interval decoder bypasses the size validation", "byteinterval.py",
  """            size=proto_interval.size,
            contents=proto_interval.contents,""", """            size=max(proto_interval.size, len(proto_interval.contents)),
            contents=proto_interval.contents,""", "R17.6")
F("C17", "constructor check after the assignments", "byteinterval.py",
  """        if initialized_size > size:
            raise ValueError("initialized_size must be <= size!")

        super().__init__(uuid=uuid)
        self._section: typing.Optional["Section"] = None""",
  """        super().__init__(uuid=uuid)
        self._section: typing.Optional["Section"] = None
        if initialized_size > size:
            raise ValueError("initialized_size must be <= size!")""", "R17.6")
F("C17", "decoder links a block to its interval directly", "byteinterval.py",
  """            block.offset = proto_block.offset
            return block""", """            block.offset = proto_block.offset
            block._byte_interval = None
            return block""", "R17.4")
F("C17", "version mismatch raises a custom error", "ir.py",
  """        if version != PROTOBUF_VERSION:
            raise ValueError(""", """        if version != PROTOBUF_VERSION:
            raise DeserializationError(""", "R17.1")
F("C17", "magic mismatch only warns", "ir.py",
  """        if magic != GTIRB_MAGIC_CHARS:
            raise ValueError("File missing GTIRB magic - not a GTIRB file?")""",
  """        if magic != GTIRB_MAGIC_CHARS:
            import warnings
            warnings.warn("File missing GTIRB magic - not a GTIRB file?")""", "R17.1")
T("C17", "header checks with == and else", "ir.py",
  """        if magic != GTIRB_MAGIC_CHARS:
            raise ValueError("File missing GTIRB magic - not a GTIRB file?")""",
  """        if magic == GTIRB_MAGIC_CHARS:
            pass
        else:
            raise ValueError("File missing GTIRB magic - not a GTIRB file?")""")

# ---------------------------------------------------------------------------
# C14
F("C14", "data setter keeps the raw bytes", "auxdata.py",
  """        self._data = value
        self._lazy_container = None""", """        self._data = value""", "R14.1")
F("C14", "raw reuse without the type-name comparison", "auxdata.py",
  """        if self._lazy_container is not None and (
            self.type_name == self._lazy_container.type_name
        ):""", """        if self._lazy_container is not None:""", "R14.2")
F("C14", "UnknownData built from the stream remainder", "serialization.py",
  """        try:
            return self._decode_tree(
                io.BytesIO(all_bytes), parse_tree, get_by_uuid
            )
        except UnknownCodecError:
            # we found an unknwon codec; the entire data structure can't be
            # parsed; return a blob of bytes
            return UnknownData(all_bytes)""",
  """        stream = io.BytesIO(all_bytes)
        try:
            return self._decode_tree(stream, parse_tree, get_by_uuid)
        except UnknownCodecError:
            return UnknownData(stream.read())""", "R14.4")
F("C14", "mapping codec returns a partial dict on unknown nested codec", "serialization.py",
  """        for _ in range(mapping_len):
            key = serialization._decode_tree(raw_bytes, key_type, get_by_uuid)
            val = serialization._decode_tree(raw_bytes, val_type, get_by_uuid)
            mapping[key] = val
        return mapping""", """        try:
            for _ in range(mapping_len):
                key = serialization._decode_tree(raw_bytes, key_type, get_by_uuid)
                val = serialization._decode_tree(raw_bytes, val_type, get_by_uuid)
                mapping[key] = val
        except UnknownCodecError:
            pass
        return mapping""", "R14.4")
F("C14", "saved type name taken from the container", "auxdata.py",
  """        proto_auxdata.type_name = self.type_name""",
  """        proto_auxdata.type_name = (
            self._lazy_container.type_name
            if self._lazy_container is not None
            else self.type_name
        )""", "R14.2")
F("C14", "getter keeps the container after decoding", "auxdata.py",
  """            self._data = self._lazy_container.get_data()
            self._lazy_container = None""", """            self._data = self._lazy_container.get_data()""", "R14.1")
F("C14", "re-encoding uses the private value", "auxdata.py",
  """            AuxData.serializer.encode(data_stream, self.data, self.type_name)""",
  """            AuxData.serializer.encode(data_stream, self._data, self.type_name)""", "R14.2")
F("C14", "loading decodes eagerly", "auxdata.py",
  """        return cls(
            data=None,
            type_name=aux_data.type_name,
            lazy_container=lazy_container,
        )""", """        return cls(
            data=lazy_container.get_data(),
            type_name=aux_data.type_name,
            lazy_container=None,
        )""", "R14.3")
F("C14", "UnknownData re-encoded through the type parser", "serialization.py",
  """        if isinstance(val, UnknownData):
            # it was a blob of bytes because of a decoding problem;
            # just write the whole thing out
            out.write(val)
            return
        parse_tree = Serialization._parse_type(type_name)""",
  """        parse_tree = Serialization._parse_type(type_name)
        if isinstance(val, UnknownData):
            out.write(val)
            return""", "R14.4")
F("C14", "a helper resets the container from outside", "module.py",
  """    def symbols_named(self, name: str)""", """    def _refresh_aux(self) -> None:
        for a in self.aux_data.values():
            a._lazy_container = None

    def symbols_named(self, name: str)""", "R14.1")
T("C14", "get_data does not release raw_data", "auxdata.py",
  """        self.raw_data = None
        return rv""", """        return rv""")
T("C14", "guards nested instead of and", "auxdata.py",
  """        if self._lazy_container is not None and (
            self.type_name == self._lazy_container.type_name
        ):
            proto_auxdata.data = self._lazy_container.get_raw_data()
        else:
            data_stream = BytesIO()
            AuxData.serializer.encode(data_stream, self.data, self.type_name)
            proto_auxdata.data = data_stream.getvalue()""",
  """        reuse = False
        if self._lazy_container is not None:
            if self.type_name == self._lazy_container.type_name:
                proto_auxdata.data = self._lazy_container.get_raw_data()
                return proto_auxdata
        data_stream = BytesIO()
        AuxData.serializer.encode(data_stream, self.data, self.type_name)
        proto_auxdata.data = data_stream.getvalue()""")

# ---------------------------------------------------------------------------
# C15
F("C15", "regex drops characters outside \\w", "serialization.py",
  """findall("[^<>,]+|<|>|,", type_name)""", """findall(r"\\w+|<|>|,", type_name)""", "R15.1")
F("C15", "comma missing from the negated class", "serialization.py",
  """findall("[^<>,]+|<|>|,", type_name)""", """findall("[^<>]+|<|>|,", type_name)""", "R15.1")
F("C15", "ValueError for a leading delimiter", "serialization.py",
  """            if first_token in {"<", ">", ","}:
                raise TypeNameError(type_name)""", """            if first_token in {"<", ">", ","}:
                raise ValueError(type_name)""", "R15.2")
F("C15", "root destructuring without the handler", "serialization.py",
  """        try:
            (parse_tree,) = parse(tokens, [])[0]
        except ValueError:
            raise TypeNameError(type_name)
        return parse_tree""", """        (parse_tree,) = parse(tokens, [])[0]
        return parse_tree""", "R15.2")
F("C15", "TypeNameError derives from ValueError", "serialization.py",
  """class TypeNameError(EncodeError):""", """class TypeNameError(EncodeError, ValueError):""", "R15.2")
F("C15", "empty token list destructured", "serialization.py",
  """            if len(tokens) == 0:
                raise TypeNameError(type_name)
            first_token, *tail = tokens""", """            first_token, *tail = tokens""", "R15.3")
F("C15", "capturing group in the tokeniser", "serialization.py",
  """findall("[^<>,]+|<|>|,", type_name)""", """findall("([^<>,]+)|<|>|,", type_name)""", "R15.1")
F("C15", "tokeniser strips whitespace", "serialization.py",
  """findall("[^<>,]+|<|>|,", type_name)""", """findall("[^<>, ]+|<|>|,", type_name)""", "R15.1")
F("C15", "unbalanced pop", "serialization.py",
  """                    if len(stack) == 0:
                        remaining_tokens.append(t)
                        continue
                    if t == "<":""", """                    if t == "<":""", "R15.3")
T("C15", "regex as a raw string", "serialization.py",
  """findall("[^<>,]+|<|>|,", type_name)""", """findall(r"[^<>,]+|[<>,]", type_name)""")

# ---------------------------------------------------------------------------
# C18
F("C18", "revert the DataBlock.deep_eq fix", "block.py",
  """    def deep_eq(self, other: object) -> bool:
        # Do not move __eq__. See docstring for Node.deep_eq for more info.
        if not isinstance(other, DataBlock):
            return False
        return super().deep_eq(other)
""", "", "R18.2")
F("C18", "rebase_delta dropped from the attribute tuple", "module.py",
  """            "preferred_addr",
            "rebase_delta",
        ):""", """            "preferred_addr",
        ):""", "R18.1")
F("C18", "offset compared with size", "block.py",
  """            self.offset == other.offset
            and self.uuid == other.uuid""", """            self.offset == other.size
            and self.uuid == other.uuid""", "R18.1")
F("C18", "module length test removed", "ir.py",
  """        if not len(self_modules) == len(other_modules):
            return False
""", "", "R18.3")
F("C18", "one side sorted by name", "ir.py",
  """        other_modules = sorted(other.modules, key=lambda m: m.uuid)""",
  """        other_modules = sorted(other.modules, key=lambda m: m.name)""", "R18.3")
F("C18", "Symbol.deep_eq ignores at_end", "symbol.py",
  """            self.name == other.name
            and self.at_end == other.at_end
            and self.uuid == other.uuid""", """            self.name == other.name
            and self.uuid == other.uuid""", "R18.1")
F("C18", "interval block-count test removed", "byteinterval.py",
  """            and len(self.blocks) == len(other.blocks)
""", "", "R18.3")
F("C18", "section compares intervals unsorted", "section.py",
  """                    sorted(self.byte_intervals, key=lambda bi: bi.uuid),
                    sorted(other.byte_intervals, key=lambda bi: bi.uuid),""",
  """                    self.byte_intervals,
                    other.byte_intervals,""", "R18.3")
F("C18", "entry point compared without the None case of the other side", "module.py",
  """        if self.entry_point is None:
            if other.entry_point is not None:
                return False
        else:
            if not self.entry_point.deep_eq(other.entry_point):
                return False""", """        if self.entry_point is not None:
            if not self.entry_point.deep_eq(other.entry_point):
                return False""", "R18.4")
F("C18", "CFG edge-count test removed", "cfg.py",
  """        if self._nxg.number_of_edges() != other._nxg.number_of_edges():
            return False
""", "", "R18.3")
F("C18", "IR.deep_eq ignores the version", "ir.py",
  """        return self.version == other.version and self.cfg.deep_eq(other.cfg)""",
  """        return self.cfg.deep_eq(other.cfg)""", "R18.1")
F("C18", "SymAddrAddr.deep_eq ignores symbol2", "symbolicexpression.py",
  """            and self.symbol1.deep_eq(other.symbol1)
            and self.symbol2.deep_eq(other.symbol2)
            and self.attributes == other.attributes
        )

    @property""", """            and self.symbol1.deep_eq(other.symbol1)
            and self.attributes == other.attributes
        )

    @property""", "R18.1")
F("C18", "ProxyBlock guard widened to CfgNode", "block.py",
  """        if not isinstance(other, ProxyBlock):
            return False
        return self.uuid == other.uuid""", """        if not isinstance(other, CfgNode):
            return False
        return self.uuid == other.uuid""", "R18.2")
T("C18", "length test written with !=", "ir.py",
  """        if not len(self_modules) == len(other_modules):
            return False""", """        if len(self_modules) != len(other_modules):
            return False""")

# ---------------------------------------------------------------------------
# C19
F("C19", "revert the size-truncation fix (setter no longer truncates)", "byteinterval.py",
  """        self._size = value
        if value < len(self.contents):
            self.contents = self.contents[:value]""", """        self._size = value""", "R19.3")
F("C19", "initialized_size cached in a field", "byteinterval.py",
  """        return len(self.contents)

    @initialized_size.setter""", """        return getattr(self, "_initialized_size", len(self.contents))

    @initialized_size.setter""", "R19.1")
F("C19", "constructor check after the assignments", "byteinterval.py",
  """        if initialized_size > size:
            raise ValueError("initialized_size must be <= size!")

        super().__init__(uuid=uuid)
        self._section: typing.Optional["Section"] = None""",
  """        super().__init__(uuid=uuid)
        self._section: typing.Optional["Section"] = None
        if initialized_size > size:
            raise ValueError("initialized_size must be <= size!")""", "R19.2")
F("C19", "block contents slice ends at size", "block.py",
  """            self.offset : self.offset + self.size""", """            self.offset : self.size""", "R19.4")
F("C19", "contains_offset closed on the upper bound", "block.py",
  """        return self.offset <= offset < (self.offset + self.size)""",
  """        return self.offset <= offset <= (self.offset + self.size)""", "R19.4")
F("C19", "block address ignores the offset", "block.py",
  """        return self.byte_interval.address + self.offset""", """        return self.byte_interval.address""", "R19.4")
F("C19", "initialized_size setter pads with spaces", "byteinterval.py",
  """            self.contents += b"\\0" * (value - len(self.contents))""",
  """            self.contents += b" " * (value - len(self.contents))""", "R19.1")
F("C19", "initialized_size setter never truncates", "byteinterval.py",
  """        elif value < len(self.contents):
            self.contents = self.contents[:value]

    @classmethod""", """

    @classmethod""", "R19.1")
F("C19", "size setter stores without notifying the section", "byteinterval.py",
  """        self._size = value
        if value < len(self.contents):""", """        self.__dict__["__size"] = value
        if value < len(self.contents):""", "R19.3")
F("C19", "contains_address forgets to rebase", "block.py",
  """                return self.contains_offset(address - base)""", """                return self.contains_offset(address)""", "R19.4")
F("C19", "constructor stores the caller's buffer", "byteinterval.py",
  """        self.contents = bytearray(contents)""", """        self.contents = contents  # type: ignore""", "R19.2")
T("C19", "size setter truncating through initialized_size", "byteinterval.py",
  """        if value < len(self.contents):
            self.contents = self.contents[:value]

    @property
    def initialized_size""", """        if value < len(self.contents):
            self.initialized_size = value

    @property
    def initialized_size""")
T("C19", "contains_offset as two comparisons", "block.py",
  """        return self.offset <= offset < (self.offset + self.size)""",
  """        return offset >= self.offset and offset < self.offset + self.size""")

# ---------------------------------------------------------------------------
# boundary logic (R05.7)
F("C05", "'on' keeps a block ending exactly at the query start", "util.py",
  """        if node_interval.end - 1 <= desired_range.start:""",
  """        if node_interval.end - 1 < desired_range.start:""", "R05.7")
F("C05", "'on' no longer excludes zero-sized blocks", "util.py",
  """        if not node_interval.length() - 1:
            continue
""", "", "R05.7")
F("C05", "'on' boundary filter compares with the query stop", "util.py",
  """        if node_interval.end - 1 <= desired_range.start:""",
  """        if node_interval.end - 1 <= desired_range.stop:""", "R05.7")
F("C05", "'at' tests the interval end", "util.py",
  """        if bounds.begin in desired_range:""", """        if bounds.end - 1 in desired_range:""", "R05.7")
F("C05", "'at' pre-filter starts one late", "util.py",
  """    for interval in tree.overlap(
        desired_range.start + adjustment, desired_range.stop + adjustment
    ):
        bounds = bounds_getter(interval.data)""", """    for interval in tree.overlap(
        desired_range.start + adjustment + 1, desired_range.stop + adjustment
    ):
        bounds = bounds_getter(interval.data)""", "R05.7")
F("C05", "'on' pre-filter forgets the adjustment on the upper bound", "util.py",
  """    for interval in tree.overlap(
        desired_range.start + adjustment, desired_range.stop + adjustment
    ):
        node = interval.data""", """    for interval in tree.overlap(
        desired_range.start + adjustment, desired_range.stop
    ):
        node = interval.data""", None, allow_error=True)
F("C06", "nodes_on treats the node range as closed", "util.py",
  """            node_range = range(node_addr, node_addr + node_size)""",
  """            node_range = range(node_addr, node_addr + node_size + 1)""", "R05.7")
F("C06", "nodes_at ignores the step", "util.py",
  """        if node_addr is not None and node_addr in desired_range:""",
  """        if node_addr is not None and desired_range.start <= node_addr < desired_range.stop:""", "R05.7")
T("C05", "'on' boundary filter written the other way round", "util.py",
  """        if node_interval.end - 1 <= desired_range.start:""",
  """        if desired_range.start >= node_interval.end - 1:""")
T("C05", "zero-size filter as an explicit comparison", "util.py",
  """        if not node_interval.length() - 1:""", """        if node_interval.length() - 1 == 0:""")


# ---------------------------------------------------------------------------
# round 8: one fault (and where it makes sense a twin) per rule added after the eighth round
F("C06", "byte_intervals_at rejects queries that start at the end of the extent", "section.py",
  """        return _nodes_at_interval_tree(self._interval_index.get(), addrs)""",
  """        if self.address is not None and self.size is not None:
            if self.address + self.size <= addrs.start:
                return ()
        return _nodes_at_interval_tree(self._interval_index.get(), addrs)""", "R06.1")
T("C06", "byte_intervals_on rejects queries that start at the end of the extent", "section.py",
  """        return _nodes_on_interval_tree(self._interval_index.get(), addrs)""",
  """        if self.address is not None and self.size is not None:
            if self.address + self.size <= addrs.start:
                return ()
        return _nodes_on_interval_tree(self._interval_index.get(), addrs)""")
F("C18", "ByteBlock.deep_eq tests the exact class", "block.py",
  """        if not isinstance(other, ByteBlock):
            return False
        return (
            self.offset == other.offset""",
  """        if type(other) is not type(self):
            return False
        return (
            self.offset == other.offset""", "R18.2")
F("C15", "type name rewritten before it is tokenised", "serialization.py",
  """        tokens = findall("[^<>,]+|<|>|,", type_name)""",
  """        type_name = type_name.strip()
        tokens = findall("[^<>,]+|<|>|,", type_name)""", "R15.1")
F("C17", "error message built with a computed format string", "symbol.py",
  """                    "Symbol: UUID %s is not a block" % referent_uuid""",
  """                    ("Symbol " + proto_symbol.name + ": UUID %s is not a block") % referent_uuid""", "R17.7")
T("C17", "error message built from two literal formats", "symbol.py",
  """                    "Symbol: UUID %s is not a block" % referent_uuid""",
  """                    ("Symbol %r" % proto_symbol.name) + (": UUID %s is not a block" % referent_uuid)""")
F("C19", "loader rejects blocks behind the stored bytes", "byteinterval.py",
  """            block.offset = proto_block.offset
            return block""",
  """            if proto_block.offset > len(result.contents):
                raise ValueError("block starts behind the bytes of its interval")
            block.offset = proto_block.offset
            return block""", "R19.6")
F("C12", "get() empties the queue before it rebuilds or replays", "lazyintervaltree.py",
  """        if self._interval_index is None:
            self._interval_index = IntervalTree(intervals())
        elif len(self._value_collection) <= len(self._interval_events):""",
  """        events, self._interval_events = self._interval_events, []
        self._interval_events = events
        if self._interval_index is None:
            self._interval_events = []
            self._interval_index = IntervalTree(intervals())
            return self._interval_index
        elif len(self._value_collection) <= len(self._interval_events):""", "R12.4")
F("C16", "_ModuleList.__setitem__ rejects slices with step 1", "ir.py",
  """    def __init__(
        self,
        *,
        modules""",
  """        def __setitem__(self, i, v):  # type: ignore
            if isinstance(i, slice) and i.step is not None:
                v = list(v)
                if len(v) != len(range(*i.indices(len(self)))):
                    raise ValueError("attempt to assign sequence to extended slice")
            super().__setitem__(i, v)

    def __init__(
        self,
        *,
        modules""", "R16.4")
T("C16", "_ModuleList.__setitem__ rejects extended slices of the wrong size up front", "ir.py",
  """    def __init__(
        self,
        *,
        modules""",
  """        def __setitem__(self, i, v):  # type: ignore
            if isinstance(i, slice) and i.step not in (None, 1):
                v = list(v)
                if len(v) != len(range(*i.indices(len(self)))):
                    raise ValueError("attempt to assign sequence to extended slice")
            super().__setitem__(i, v)

    def __init__(
        self,
        *,
        modules""")
F("C16", "SetWrapper.__le__ bound to a method of the store", "util.py",
  """                self.add(v)

    def __str__(self) -> str:""",
  """                self.add(v)

    def issubset(self, other):  # type: ignore
        return self._data.issubset(other)

    __le__ = issubset  # type: ignore

    def __str__(self) -> str:""", "R16.8")


# ---------------------------------------------------------------------------
# round 9: one fault (and where it makes sense a twin) per rule added after the ninth round
F("C02", "writer masks the symbol value to 64 bits", "symbol.py",
  """            proto_symbol.value = self.value""",
  """            proto_symbol.value = self.value & 0xFFFFFFFFFFFFFFFF""", "R02.2")
F("C04", "interval enters the store before it leaves its previous section", "section.py",
  """        def add(self, v: ByteInterval) -> None:
            if v._section is not None:
                v._section.byte_intervals.discard(v)
            self._node._index_add(v)
            v._section = self._node
            if self._node.ir is not None:
                v._add_to_uuid_cache(self._node.ir._local_uuid_cache)
            return super().add(v)""",
  """        def add(self, v: ByteInterval) -> None:
            super().add(v)
            if v._section is not None:
                v._section.byte_intervals.discard(v)
            self._node._index_add(v)
            v._section = self._node
            if self._node.ir is not None:
                v._add_to_uuid_cache(self._node.ir._local_uuid_cache)""", "R03.3")
F("C05", "get_desired_range memoised", "util.py",
  """def get_desired_range(addrs: typing.Union[int, range]) -> range:""",
  """import functools


@functools.lru_cache(maxsize=8)
def get_desired_range(addrs: typing.Union[int, range]) -> range:""", "R05.7")
F("C08", "StringCodec.encode converts its value with str()", "serialization.py",
  """        encoded = val.encode("utf-8")""",
  """        encoded = str(val).encode("utf-8")""", "R08.5")
F("C09", "module tables resolve in the module, not the IR", "module.py",
  """            AuxDataContainer._read_protobuf_aux_data(proto_module.aux_data, ir)""",
  """            AuxDataContainer._read_protobuf_aux_data(proto_module.aux_data, m)""", "R09.4")
F("C09", "deferred symbolic-expression pass only for modules with symbols", "module.py",
  """        for section in m.sections:
            for interval in section.byte_intervals:
                interval._decode_symbolic_expressions(ir)""",
  """        for section in (m.sections if m.symbols else ()):
            for interval in section.byte_intervals:
                if m.symbols:
                    interval._decode_symbolic_expressions(ir)""", "R09.2")
F("C11", "CFG.__bool__ counts vertices", "cfg.py",
  """    def __len__(self) -> int:
        return len(self._nxg.edges())""",
  """    def __bool__(self) -> bool:
        return self._nxg.number_of_nodes() != 0

    def __len__(self) -> int:
        return len(self._nxg.edges())""", "R11.3")
T("C11", "CFG.__bool__ that says what len() says", "cfg.py",
  """    def __len__(self) -> int:
        return len(self._nxg.edges())""",
  """    def __bool__(self) -> bool:
        return len(self) != 0

    def __len__(self) -> int:
        return len(self._nxg.edges())""")
F("C12", "collection asks its section for the extent in the middle of an edit", "section.py",
  """            self._node._index_add(v)
            v._section = self._node
            if self._node.ir is not None:
                v._add_to_uuid_cache(self._node.ir._local_uuid_cache)
            return super().add(v)""",
  """            self._node._index_add(v)
            v._section = self._node
            if self._node.size == 0:
                pass
            if self._node.ir is not None:
                v._add_to_uuid_cache(self._node.ir._local_uuid_cache)
            return super().add(v)""", "R12.6")
F("C15", "name position accepts '>'", "serialization.py",
  """            if first_token in {"<", ">", ","}:""",
  """            if first_token in {"<", ","}:""", "R15.7")
F("C16", "DictWrapper.clear rebinds the store", "util.py",
  """class DictWrapper(typing.MutableMapping[K, V]):""",
  """class DictWrapper(typing.MutableMapping[K, V]):
    def clear(self) -> None:
        self._data = {}
""", "R16.7")
