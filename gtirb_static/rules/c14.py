"""C14 — AuxData tables are never silently lost, staled or rewritten."""
from __future__ import annotations

import ast
from typing import List, Optional, Set

from ..cfg import CFG
from ..model import AnalysisError, attr_path, dotted, expand_path, local_aliases, unparse, walk_no_nested
from ..report import Check
from .c09 import _lazy_auxdata
from .codecs import codec_facts
from .purity import no_result_caches, value_passthrough, codec_state

RULES = {
    "R14.1": "typestate who-may-write: _data and _lazy_container are assigned only in __init__, "
             "the data getter's decode branch and the data setter; every (re)assignment of _data "
             "drops the raw bytes on the same path",
    "R14.2": "raw reuse guard: saved bytes are the loaded bytes only while they are still held "
             "AND the type name is unchanged; otherwise the current value is encoded (through the "
             "data property) under the current type name",
    "R14.3": "lazy decode uses the loaded bytes, the loaded type name and the loading IR's lookup",
    "R14.5": "the typestate has exactly three fields: AuxData, its lazy container and the "
             "serializer keep no other (cached) state that could feed the saved bytes",
    "R14.4": "unknown codecs: a missing codec anywhere in the type yields UnknownData of the "
             "complete input; UnknownData encodes verbatim before any type parsing",
}


def run(chk: Check) -> None:
    chk.explanation = (
        "A typestate over three fields of AuxData (raw bytes held or not, decoded value, type "
        "name): who may write them, pairing of the writes on every path (CFG), dominance of the "
        "raw-reuse assignment by both guards, and the shape of the unknown-codec fallback.  "
        "Byte-for-byte equality across generations then follows from protobuf bytes fidelity "
        "(assumed).")
    for k, v in RULES.items():
        chk.rule(k, v)
    repo = chk.repo
    ad = repo.cls("AuxData")
    _typestate(chk, ad)
    _to_protobuf(chk, ad)
    _from_protobuf(chk, ad)
    _lazy_auxdata(chk)
    for o in chk.obs:
        if o.rule == "R09.4":
            o.rule = "R14.3"
    _unknown(chk)
    _data_readers(chk)
    codec_state(chk, "R14.5", ("auxdata", "serialization"))
    no_result_caches(chk, "R14.5")
    # "re-encoded under the current type name" means through the codec of each type head
    from .c07 import _tree_dispatch
    from .codecs import codec_facts
    sub = chk.sub()
    _tree_dispatch(sub, codec_facts(chk.repo))
    chk.adopt(sub, None, "R14.2")
    from .c07 import run as _c07
    sub = chk.sub()
    _c07(sub)
    chk.adopt(sub, lambda o: o.rule in ("R07.1", "R07.2"), "R14.2")
    from .c09 import _no_decode_during_load
    sub = chk.sub()
    _no_decode_during_load(sub)
    chk.adopt(sub, None, "R14.6")


def _typestate(chk: Check, ad) -> None:
    repo = chk.repo
    funcs = list(ad.methods.values()) + [x for p in ad.props.values() for x in (p.getter, p.setter) if x]
    n_writes = 0
    for f in funcs:
        me = f.self_name
        if me is None:
            continue
        cfg = None
        for n in walk_no_nested(f.node):
            tgs = []
            if isinstance(n, ast.Assign):
                tgs = n.targets
            elif isinstance(n, (ast.AnnAssign, ast.AugAssign)):
                tgs = [n.target]
            for t in tgs:
                p = attr_path(t)
                if not p or p[0] != me or len(p) != 2 or p[1] not in ("_data", "_lazy_container"):
                    continue
                n_writes += 1
                chk.saw(f)
                is_getter = ad.props.get("data") is not None and f is ad.props["data"].getter
                is_setter = ad.props.get("data") is not None and f is ad.props["data"].setter
                allowed = f.name == "__init__" or is_getter or is_setter
                chk.ob("R14.1", "%s:writes(%s)" % (f.qualname + (".setter" if is_setter else ""), p[1]),
                       allowed, f.loc(n),
                       "%s assigns AuxData.%s; only __init__, the data getter's decode branch and "
                       "the data setter may" % (f.qualname, p[1]), 1)
                if p[1] == "_data" and f.name != "__init__":
                    cfg = cfg or CFG(f.node)
                    wn = cfg.node_of(n)
                    drops = cfg.nodes_where(lambda x: isinstance(x, ast.Assign) and any(
                        attr_path(tt) == (me, "_lazy_container") for tt in x.targets)
                        and isinstance(x.value, ast.Constant) and x.value.value is None)
                    wit = cfg.path_avoiding(wn, cfg.exit, drops - {wn})
                    pre = any(cfg.dominates(d, wn) for d in drops)
                    chk.ob("R14.1", "%s:drops-raw-bytes" % (f.qualname + (".setter" if is_setter else "")),
                           wit is None or pre, f.loc(n),
                           "%s (re)assigns the decoded value but can return while the raw bytes are "
                           "still held: a later save would write the stale loaded bytes instead of "
                           "the current value" % f.qualname, 3)
                    if is_getter:
                        # the decoded value comes from the container
                        al_g = local_aliases(f.node)
                        v_ = al_g.get(n.value.id, n.value) if isinstance(n.value, ast.Name) else n.value
                        ok = isinstance(v_, ast.Call) and \
                            expand_path(v_.func, al_g) == (me, "_lazy_container", "get_data")
                        chk.ob("R14.1", "AuxData.data:decodes-from-container", ok, f.loc(n),
                               "the data getter must decode through the held container (get_data)", 2)
    chk.floor("R14.1", "writes of _data/_lazy_container in AuxData", n_writes, 4)
    # nobody outside AuxData writes the two fields
    for f in repo.all_functions():
        if f.cls is ad:
            continue
        for n in walk_no_nested(f.node):
            if isinstance(n, ast.Attribute) and n.attr == "_lazy_container" and isinstance(n.ctx, (ast.Store, ast.Del)):
                chk.ob("R14.1", "%s:writes(_lazy_container)" % f.qualname, False, f.loc(n),
                       "%s writes AuxData._lazy_container from outside the class" % f.qualname, 1)
    # the getter returns the decoded value; reading marks the bytes as consumed
    g = ad.props["data"].getter if ad.props.get("data") else None
    if g is None:
        raise AnalysisError("anchor vanished: AuxData.data")
    rets = [r for r in walk_no_nested(g.node) if isinstance(r, ast.Return)]
    # self._data, or the local the decoded value was bound to before being stored there
    stored_from = {n.value.id for n in walk_no_nested(g.node) if isinstance(n, ast.Assign)
                   and isinstance(n.value, ast.Name) and n.value.id in local_aliases(g.node)
                   and any(attr_path(t) == (g.self_name, "_data") for t in n.targets)}
    ok = bool(rets) and all(r.value is not None and (
        attr_path(r.value) == (g.self_name, "_data") or
        (isinstance(r.value, ast.Name) and r.value.id in stored_from)) for r in rets)
    chk.ob("R14.1", "AuxData.data:returns-decoded", ok, g.loc(), "the data getter must return self._data", 1)
    # raw_data of the container
    lc = repo.cls("_LazyDataContainer")
    for f in repo.all_functions():
        for n in walk_no_nested(f.node):
            if isinstance(n, ast.Attribute) and n.attr == "raw_data" and isinstance(n.ctx, (ast.Store, ast.Del)):
                st = getattr(n, "_parent", None)
                v = getattr(st, "value", None)
                ok = f.cls is lc and (f.name == "__init__" or (isinstance(v, ast.Constant) and v.value is None))
                chk.ob("R14.1", "%s:writes(raw_data)" % f.qualname, ok, f.loc(n),
                       "the loaded bytes may only be set at construction and released (= None) "
                       "after a decode", 1)
    gr = lc.methods.get("get_raw_data")
    if gr is not None:
        chk.saw(gr)
        rets = [r for r in walk_no_nested(gr.node) if isinstance(r, ast.Return)]
        ok = len(rets) == 1 and attr_path(rets[0].value) == (gr.self_name, "raw_data")
        chk.ob("R14.1", "_LazyDataContainer.get_raw_data:returns-loaded-bytes", ok, gr.loc(),
               "get_raw_data must return the loaded bytes unchanged", 1)


def _neg(cfg: CFG, branches: Set[int]) -> Set[int]:
    """the opposite outcomes of the given branch nodes"""
    out: Set[int] = set()
    for b in branches:
        t = cfg.info[b].test
        for s_ in cfg.g.successors(t) if t is not None else []:
            if s_ != b and cfg.info[s_].kind == "branch":
                out.add(s_)
    return out


def _to_protobuf(chk: Check, ad) -> None:
    f = ad.methods.get("_to_protobuf")
    if f is None:
        raise AnalysisError("anchor vanished: AuxData._to_protobuf")
    chk.saw(f)
    me = f.self_name
    cfg = CFG(f.node)
    al = local_aliases(f.node)

    def ap(e: ast.AST):
        # attribute path with locals assigned once replaced by what they stand for
        return expand_path(e, al)
    data_writes = []
    tn_writes = []
    for n in walk_no_nested(f.node):
        if isinstance(n, ast.Assign) and isinstance(n.targets[0], ast.Attribute):
            if n.targets[0].attr == "data" and attr_path(n.targets[0].value) != (me,):
                data_writes.append(n)
            if n.targets[0].attr == "type_name" and attr_path(n.targets[0].value) != (me,):
                tn_writes.append(n)
    held: Set[int] = set()
    same: Set[int] = set()
    for n, i in cfg.info.items():
        if i.kind != "test" or not isinstance(i.ast, ast.Compare) or len(i.ast.ops) != 1:
            continue
        t = i.ast
        l, r = ap(t.left), ap(t.comparators[0])
        if isinstance(t.ops[0], (ast.Is, ast.IsNot)) and l == (me, "_lazy_container") and \
                isinstance(t.comparators[0], ast.Constant) and t.comparators[0].value is None:
            for b in cfg.g.successors(n):
                bi = cfg.info[b]
                if bi.kind == "branch" and bi.value == isinstance(t.ops[0], ast.IsNot):
                    held.add(b)
        if isinstance(t.ops[0], (ast.Eq, ast.NotEq)) and {l, r} == {(me, "type_name"), (me, "_lazy_container", "type_name")}:
            for b in cfg.g.successors(n):
                bi = cfg.info[b]
                if bi.kind == "branch" and bi.value == isinstance(t.ops[0], ast.Eq):
                    same.add(b)
    raw = [w for w in data_writes if isinstance(w.value, ast.Call)
           and ap(w.value.func) == (me, "_lazy_container", "get_raw_data")
           or (isinstance(w.value, ast.Attribute) and ap(w.value) == (me, "_lazy_container", "raw_data"))]
    enc = [w for w in data_writes if w not in raw]
    for w in raw:
        wn = cfg.node_of(w)
        ok1 = bool(held) and cfg.path_avoiding(cfg.entry, wn, held) is None
        ok2 = bool(same) and cfg.path_avoiding(cfg.entry, wn, same) is None
        chk.ob("R14.2", "AuxData._to_protobuf:raw-reuse-needs-held-bytes", ok1, f.loc(w),
               "the loaded bytes are written on a path that did not establish they are still held", 3)
        chk.ob("R14.2", "AuxData._to_protobuf:raw-reuse-needs-same-type-name", ok2, f.loc(w),
               "the loaded bytes are written although the type name may have been changed since "
               "loading: the table would be saved as old bytes under a new type name", 3)
    # ... and an unread table whose type name is unchanged is ALWAYS written back as loaded (never
    # re-encoded, which may rewrite it): the encoding branch is only reached when the bytes are
    # gone or the type name differs
    not_held = _neg(cfg, held) if held else set()
    differs = _neg(cfg, same) if same else set()
    for c in walk_no_nested(f.node):
        if isinstance(c, ast.Call) and isinstance(c.func, ast.Attribute) and c.func.attr == "encode" \
                and "serializer" in unparse(c.func.value):
            wit_ = cfg.path_avoiding(cfg.entry, cfg.node_of(c), not_held | differs)
            chk.ob("R14.2", "AuxData._to_protobuf:re-encodes-only-when-necessary", wit_ is None and bool(held) and bool(same),
                   f.loc(c), "a table whose loaded bytes are still held under an unchanged type name is re-encoded "
                   "on the path %s: the untouched table is rewritten (canonicalised) instead of written back "
                   "byte for byte" % (" -> ".join(cfg.describe_path(wit_)) if wit_ else "-"), 3)
    chk.ob("R14.2", "AuxData._to_protobuf:has-raw-and-encoded-branch", len(raw) == 1 and len(enc) >= 1,
           f.loc(), "AuxData._to_protobuf needs one branch reusing the loaded bytes and one encoding "
           "the current value (raw=%d, encoded=%d)" % (len(raw), len(enc)), 2)
    # the encoding branch: serializer.encode(stream, self.data, self.type_name)
    encs = [c for c in walk_no_nested(f.node) if isinstance(c, ast.Call)
            and isinstance(c.func, ast.Attribute) and c.func.attr == "encode"
            and "serializer" in unparse(c.func.value)]
    ok = len(encs) == 1 and len(encs[0].args) == 3 and attr_path(encs[0].args[1]) == (me, "data") and \
        attr_path(encs[0].args[2]) == (me, "type_name")
    chk.ob("R14.2", "AuxData._to_protobuf:encodes-current-value", ok, f.loc(),
           "the re-encoding branch must encode self.data (the property: it first decodes held bytes "
           "under their original type name) under self.type_name, got %s"
           % (unparse(encs[0]) if encs else "no encode call"), 3)
    if ok and enc:
        stream = attr_path(encs[0].args[0])
        okv = all(isinstance(w.value, ast.Call) and attr_path(w.value.func) == (stream[0], "getvalue")
                  for w in enc) if stream else False
        chk.ob("R14.2", "AuxData._to_protobuf:writes-encoded-stream", okv, f.loc(enc[0]),
               "the message data must be the bytes just encoded", 2)
        for w in enc:
            en = cfg.node_of(encs[0])
            chk.ob("R14.2", "AuxData._to_protobuf:encode-before-write", cfg.dominates(en, cfg.node_of(w)),
                   f.loc(w), "the value must be encoded before the stream is read", 1)
    ok = len(tn_writes) >= 1 and all(attr_path(w.value) == (me, "type_name") for w in tn_writes) and \
        cfg.path_avoiding(cfg.entry, cfg.exit, {cfg.node_of(w) for w in tn_writes}) is None
    chk.ob("R14.2", "AuxData._to_protobuf:type-name-is-current", ok, f.loc(),
           "the saved type name must be the table's current type_name on every path", 2)
    # every path assigns data
    wit = cfg.path_avoiding(cfg.entry, cfg.exit, {cfg.node_of(w) for w in data_writes})
    chk.ob("R14.2", "AuxData._to_protobuf:data-on-every-path", wit is None, f.loc(),
           "a path through AuxData._to_protobuf writes no data at all (the table is lost)", 2)


def _from_protobuf(chk: Check, ad) -> None:
    f = ad.methods.get("_from_protobuf")
    if f is None:
        raise AnalysisError("anchor vanished: AuxData._from_protobuf")
    chk.saw(f)
    proto = f.param_names()[1]
    ctor = [c for c in walk_no_nested(f.node) if isinstance(c, ast.Call)
            and (dotted(c.func) or ("",))[-1] == "_LazyDataContainer"]
    ok = len(ctor) == 1 and len(ctor[0].args) >= 2 and attr_path(ctor[0].args[0]) == (proto, "data") \
        and attr_path(ctor[0].args[1]) == (proto, "type_name")
    chk.ob("R14.3", "AuxData._from_protobuf:holds-loaded-bytes-and-type", ok, f.loc(),
           "the lazy container must hold the message's data and type_name as loaded", 3)
    mk = [c for c in walk_no_nested(f.node) if isinstance(c, ast.Call) and attr_path(c.func) == ("cls",)]
    ok = len(mk) == 1
    if ok:
        kw = {k.arg: k.value for k in mk[0].keywords}
        lc = kw.get("lazy_container")
        if isinstance(lc, ast.Name):
            lc = local_aliases(f.node).get(lc.id, lc)
        # the container is created for every table, whatever its payload (an empty payload is
        # still the payload to write back)
        unconditional = len(ctor) == 1 and lc is ctor[0] and \
            not [t for t, _v in CFG(f.node).facts_at(CFG(f.node).node_of(ctor[0])) if not isinstance(t, ast.stmt)]
        ok = attr_path(kw.get("type_name", ast.Constant(0))) == (proto, "type_name") and unconditional
    chk.ob("R14.3", "AuxData._from_protobuf:constructs-lazy", ok, f.loc(),
           "the loaded table must be constructed with the loaded type name and the lazy container "
           "(no eager decode)", 2)
    eager = [c for c in walk_no_nested(f.node) if isinstance(c, ast.Call)
             and isinstance(c.func, ast.Attribute) and c.func.attr in ("decode", "get_data")]
    chk.ob("R14.3", "AuxData._from_protobuf:no-eager-decode", not eager, f.loc(),
           "loading must not decode the table (unread tables are written back byte for byte)", 1)


def _unknown(chk: Check) -> None:
    cf = codec_facts(chk.repo)
    ser = cf.ser
    d = ser.methods.get("decode")
    e = ser.methods.get("encode")
    if d is None or e is None:
        raise AnalysisError("anchor vanished: Serialization.decode/encode")
    chk.saw(d)
    chk.saw(e)
    me = d.self_name
    tries = [t for t in walk_no_nested(d.node) if isinstance(t, ast.Try)]
    ok = False
    why = "no try/except UnknownCodecError around the whole decode"
    for t in tries:
        calls = [c for s in t.body for c in ast.walk(s) if isinstance(c, ast.Call)
                 and attr_path(c.func) == (me, "_decode_tree")]
        hs = [h for h in t.handlers if h.type is not None and (dotted(h.type) or ("",))[-1] == "UnknownCodecError"]
        if not calls or not hs:
            continue
        h = hs[0]
        rets = [r for r in ast.walk(h) if isinstance(r, ast.Return)]
        if len(rets) != 1 or not isinstance(rets[0].value, ast.Call) or \
                (dotted(rets[0].value.func) or ("",))[-1] != "UnknownData" or len(rets[0].value.args) != 1:
            why = "the handler does not return UnknownData(<bytes>)"
            continue
        arg = rets[0].value.args[0]
        if not isinstance(arg, ast.Name):
            why = "UnknownData is built from %s, not from the complete input buffer" % unparse(arg)
            continue
        # the variable must hold the complete input: bound before the stream was created,
        # from the parameter itself or from <param>.read()
        src = d.param_names()[1]
        binds = [n for n in walk_no_nested(d.node) if isinstance(n, ast.Assign)
                 and attr_path(n.targets[0]) == (arg.id,)]
        def whole(v: ast.AST) -> bool:
            # the parameter itself, everything read from it, a placeholder, or a choice of those
            if isinstance(v, ast.IfExp):
                return whole(v.body) and whole(v.orelse)
            return (isinstance(v, ast.Name) and v.id == src) or \
                (isinstance(v, ast.Call) and attr_path(v.func) == (src, "read") and not v.args) or \
                (isinstance(v, ast.Constant) and v.value is None)
        complete = bool(binds) and all(whole(b.value) for b in binds)
        # and the stream handed to _decode_tree is a fresh BytesIO over that variable
        al_d = local_aliases(d.node)

        def stream_of(e: ast.AST) -> ast.AST:
            return al_d.get(e.id, e) if isinstance(e, ast.Name) else e
        fresh = all(isinstance(stream_of(c.args[0]), ast.Call)
                    and (dotted(stream_of(c.args[0]).func) or ("",))[-1] == "BytesIO"
                    and attr_path(stream_of(c.args[0]).args[0]) == (arg.id,) for c in calls if c.args)
        ok = complete and fresh
        why = "buffer variable %s: complete=%s fresh-stream=%s" % (arg.id, complete, fresh)
    chk.ob("R14.4", "Serialization.decode:unknown-codec-keeps-all-bytes", ok, d.loc(),
           "when a codec is missing anywhere in the type, decode must return UnknownData of the "
           "complete input bytes (%s)" % why, 4)
    # no codec swallows UnknownCodecError
    for c in cf.classes:
        for f in c.methods.values():
            for t in walk_no_nested(f.node):
                if isinstance(t, ast.Try):
                    for h in t.handlers:
                        names = []
                        if h.type is None:
                            names = ["bare"]
                        elif isinstance(h.type, ast.Tuple):
                            names = [(dotted(x) or ("",))[-1] for x in h.type.elts]
                        else:
                            names = [(dotted(h.type) or ("",))[-1]]
                        bad = [x for x in names if x in ("UnknownCodecError", "CodecError", "Exception",
                                                         "BaseException", "bare")]
                        reraises = bool(h.body) and isinstance(h.body[-1], ast.Raise)
                        if bad:
                            chk.ob("R14.4", "%s:swallows(%s)" % (f.qualname, bad[0]), reraises, f.loc(h),
                                   "%s catches %s: an unknown codec nested in this container would "
                                   "yield a partial value instead of UnknownData for the whole table"
                                   % (f.qualname, bad[0]), 2)
    dt = ser.methods.get("_decode_tree")
    if dt is not None:
        raises = [r for r in walk_no_nested(dt.node) if isinstance(r, ast.Raise) and r.exc is not None
                  and (dotted(r.exc.func if isinstance(r.exc, ast.Call) else r.exc) or ("",))[-1] == "UnknownCodecError"]
        chk.ob("R14.4", "Serialization._decode_tree:raises-unknown-codec", bool(raises), dt.loc(),
               "_decode_tree must raise UnknownCodecError for a head without a codec", 2)
    # encode: UnknownData written verbatim before parsing the type
    mee = e.self_name
    cfg = CFG(e.node)
    val = e.param_names()[2]
    out = e.param_names()[1]
    isun: Set[int] = set()
    for n, i in cfg.info.items():
        if i.kind == "test" and isinstance(i.ast, ast.Call) and attr_path(i.ast.func) == ("isinstance",) \
                and attr_path(i.ast.args[0]) == (val,) and (dotted(i.ast.args[1]) or ("",))[-1] == "UnknownData":
            for b in cfg.g.successors(n):
                if cfg.info[b].kind == "branch" and cfg.info[b].value:
                    isun.add(b)
    writes = cfg.nodes_where(lambda n: isinstance(n, ast.Call) and attr_path(n.func) == (out, "write")
                             and len(n.args) == 1 and attr_path(n.args[0]) == (val,))
    parse = cfg.nodes_where(lambda n: isinstance(n, ast.Call) and isinstance(n.func, ast.Attribute)
                            and n.func.attr in ("_parse_type", "_encode_tree"))
    ok = bool(isun) and bool(writes)
    if ok:
        for b in isun:
            if any(b in cfg.reachable(pn) for pn in parse):
                ok = False      # the type name was already parsed before the blob test
            reach = cfg.reachable(b)
            if reach & parse:
                ok = False
            if cfg.path_avoiding(b, cfg.exit, writes) is not None:
                ok = False
    chk.ob("R14.4", "Serialization.encode:unknown-data-verbatim", ok, e.loc(),
           "UnknownData must be written back verbatim and returned before the type name is parsed "
           "or any codec runs", 3)
    ud = chk.repo.cls("UnknownData")
    chk.ob("R14.4", "UnknownData:is-bytes", ud.is_subclass_of("builtins.bytes"), ud.loc(),
           "UnknownData must remain a bytes subclass (it is written with out.write)", 1)


def _data_readers(chk: Check) -> None:
    """R14.6: reading .data drops the raw bytes (the table will be re-encoded on save), so
    inside the package only AuxData._to_protobuf's re-encoding branch and __repr__ may read it"""
    repo = chk.repo
    from ..types import TypeEnv
    types = TypeEnv(repo)
    n = 0
    for f in repo.all_functions():
        for x in walk_no_nested(f.node):
            hit = None
            if isinstance(x, ast.Attribute) and x.attr == "data" and isinstance(x.ctx, ast.Load):
                # is the receiver an AuxData?  resolved type, or a loop variable over *.aux_data
                ts = types.expr_types(x.value, f)
                is_aux = any(t.name == "AuxData" for t in ts)
                if not ts and isinstance(x.value, ast.Name):
                    for lp in walk_no_nested(f.node):
                        if isinstance(lp, (ast.For, ast.comprehension)) and "aux_data" in unparse(lp.iter) and \
                                any(isinstance(t, ast.Name) and t.id == x.value.id for t in ast.walk(lp.target)):
                            is_aux = True
                if not ts and isinstance(x.value, ast.Subscript) and "aux_data" in unparse(x.value.value):
                    is_aux = True
                if not is_aux:
                    continue
                hit = x
            elif isinstance(x, ast.Call) and isinstance(x.func, ast.Attribute) and x.func.attr == "get_data":
                hit = x
            if hit is None:
                continue
            n += 1
            allowed = f.cls is not None and f.cls.name == "AuxData" and (
                f.name in ("_to_protobuf", "__repr__") or (f.cls.props.get("data") is not None and
                                                          f in (f.cls.props["data"].getter, f.cls.props["data"].setter)))
            chk.ob("R14.6", "%s:reads-auxdata-value" % f.qualname, allowed, f.loc(hit),
                   "%s reads AuxData values (%s): a table that the user never read is decoded and will "
                   "be re-encoded (canonicalised) on save instead of being written back byte for byte"
                   % (f.qualname, unparse(hit)[:40]), 1)
    chk.rule("R14.6", "inside the package only AuxData._to_protobuf (re-encode branch), the data "
             "property itself and __repr__ read a table's value")
    chk.extra["auxdata_value_reads"] = n
