"""Rules one property borrows from another: a property cannot hold where a rule that a second
property rests on is violated *and* the violated rule is a necessary condition of the first
property too.  Each entry says why.  Applied after the property's own rules (called from
wellformed.check, which every runner calls)."""
from __future__ import annotations

import re

from ..report import Check

_ATTACH = re.compile(r"(\.update|\.add|\._add|\.insert[^:]*):(set-backptr|leave-previous-owner|"
                     r"leave-before-relink|table-add|table-add-target|store-add|add-hook)$")


def extra(chk: Check) -> None:
    if getattr(chk, "_shared_done", False):
        return
    chk._shared_done = True  # type: ignore[attr-defined]
    p = chk.prop
    repo = chk.repo
    if p in ("C17", "C09", "C07", "C08", "C03"):
        from .loader import uuid_parse_exact
        n = uuid_parse_exact(chk, {"C17": "R17.3", "C09": "R09.1", "C07": "R07.4", "C08": "R08.2", "C03": "R03.6"}[p],
                             codec_side=p in ("C07", "C08"))
        chk.floor("R00.0", "UUID(bytes=...) construction sites", n, 1)
    if p == "C07":
        # "UUID/Offset entries naming nodes of the given IR come back as those node objects":
        # a table decoded while the IR is still being loaded sees only the nodes loaded so far
        from .c09 import _no_decode_during_load
        sub = chk.sub()
        _no_decode_during_load(sub)
        chk.adopt(sub, None, "R07.7")
    if p == "C10":
        # the name and referent indexes are dicts of sets of symbols keyed by blocks: they work
        # by identity
        from .c04 import _identity
        from .ownership import ownership
        sub = chk.sub()
        _identity(sub, ownership(repo))
        chk.adopt(sub, lambda o: o.rule == "R04.6", "R10.5")
    if p in ("C05", "C12"):
        # size and offset of every block kind are the indexed attributes ByteBlock declares: a
        # subclass that redefines one bypasses the index notifications
        from .c19 import _block_views
        sub = chk.sub()
        _block_views(sub)
        chk.adopt(sub, lambda o: o.construct.endswith(":not-redefined") and (
            ".size:" in o.construct or ".offset:" in o.construct), "R05.9" if p == "C05" else "R12.7")
    if p == "C15":
        # every table that is written or read goes through Serialization.encode/decode with its
        # type name, i.e. through the parser: no path around it for some names
        from .c14 import _from_protobuf, _to_protobuf, _typestate
        sub = chk.sub()
        aux = repo.cls("AuxData")
        _typestate(sub, aux)
        _to_protobuf(sub, aux)
        _from_protobuf(sub, aux)
        chk.adopt(sub, None, "R15.8")
    if p == "C17":
        # the decoders attach what they build through the owning collections: the attach side of
        # every hook is on the load path (C03/C04 for the returned IR)
        from .ownership import ownership
        for _prop, rule, construct, ok, loc, msg, facts in ownership(repo).obs:
            if rule == "R03.3" and _ATTACH.search(construct) and "__setitem__" not in construct:
                chk.ob("R17.4", construct, ok, loc, msg, facts)
    if p == "C03":
        # a loaded IR is an IR: the duplicate-UUID detection of the loader keeps the table exact
        from .c17 import register_before_children
        register_before_children(chk, "R03.6")
    if p == "C17":
        # "... and can be saved again"
        from .c02 import writers_total
        writers_total(chk, "R17.6")
    if p == "C19":
        # "loading rejects more stored bytes than the interval's size": the rejection must reach
        # the caller
        from .c17 import _no_swallow
        sub = chk.sub()
        _no_swallow(sub)
        chk.adopt(sub, None, "R19.5")
    if p == "C19":
        # the stored bytes of one interval belong to that interval alone
        from .c04 import _ctor_copies
        sub = chk.sub()
        _ctor_copies(sub)
        chk.adopt(sub, lambda o: "ByteInterval" in o.construct or "ByteBlock" in o.construct, "R19.5")
    if p in ("C03", "C04", "C05", "C12", "C10"):
        # an operator / method of an owning collection that hands out its backing store lets the
        # caller change the collection behind the hooks (ownership, UUID table, indexes)
        from .c16 import run as _c16
        cache = repo.__dict__.setdefault("_prop_obs", {})
        if "C16" not in cache:
            sub16 = Check("C16", repo, chk.tier)
            _c16(sub16)
            cache["C16"] = sub16
        for o in cache["C16"].obs:
            if o.construct.endswith(":returns-store"):
                chk.ob({"C03": "R03.5", "C04": "R04.2", "C05": "R05.8", "C12": "R12.6", "C10": "R10.3"}[p], o.construct, o.ok, o.loc,
                       o.message, o.facts, o.undecided)
    if p == "C02":
        # the reader collects CFG edges through CFG.add: what the set keeps is what is loaded
        cache = repo.__dict__.setdefault("_prop_obs", {})
        if "C11" not in cache:
            from .c11 import run as _c11
            sub11 = Check("C11", repo, chk.tier)
            _c11(sub11)
            cache["C11"] = sub11
        for o in cache["C11"].obs:
            if o.rule in ("R11.1", "R11.6") and not o.ok:
                chk.ob("R02.3", o.construct, o.ok, o.loc, o.message, o.facts, o.undecided)
    if p == "C10":
        # the symbol indexes are kept by the same hooks that keep the UUID table: a cache method
        # that can fail half-way leaves a symbol indexed but not a member
        from .ownership import ownership
        for _prop, rule, construct, ok, loc, msg, facts in ownership(repo).obs:
            if rule == "R03.1" and ":param-use(" in construct:
                chk.ob("R10.3", construct, ok, loc, msg, facts)
    if p == "C13":
        # section, module and IR scope go through the section's interval index: its keys
        # (ByteInterval.address / size) must notify it, and the notification must not fail half-way
        from .lookups import index_key_rule, notify_protocol, tree_sites
        from .ownership import ownership
        for site in tree_sites(repo):
            if site.owner.name == "Section":
                index_key_rule(chk, site, ownership(repo), "R13.4")
        notify_protocol(chk, "R13.4")
    if p == "C18":
        # "changing any single compared field of one side makes it false": two nodes never share
        # a mutable attribute value
        from .c04 import _ctor_copies
        sub = chk.sub()
        _ctor_copies(sub)
        chk.adopt(sub, None, "R18.6")
    # ---- round 8 ------------------------------------------------------------------------------
    if p == "C02":
        # the readers build every node through its constructor: what a constructor makes of an
        # argument the reader leaves out (or passes empty) is what is loaded
        chk.adopt_property("C19", "R02.6", lambda o: ":default(" in o.construct)
        # every UUID the reader meets is resolved through the table of the IR being loaded, and
        # the edge / reference it belongs to is kept whatever else the message says
        chk.adopt_property("C09", "R02.6", lambda o: o.rule == "R09.1" and (
            "_from_protobuf" in o.construct or "_decode_protobuf" in o.construct))
    if p == "C03":
        # an index notification that can fail in the middle of an owner's edit leaves the node
        # registered in the UUID table but not a member (or the reverse)
        chk.adopt_property("C12", "R03.8", lambda o: o.construct.endswith(":only-queues"))
        # membership tests of the owning collections (``v not in self``) are identity tests: a node
        # class that defines equality makes add/discard act on a look-alike
        from .c04 import _identity
        from .ownership import ownership
        sub = chk.sub()
        _identity(sub, ownership(repo))
        chk.adopt(sub, lambda o: o.rule == "R04.6", "R03.8")
    if p == "C05":
        # section, module and IR scope reach the blocks through the section's interval index
        from .lookups import index_key_rule, tree_sites
        from .ownership import ownership
        for site in tree_sites(repo):
            if site.owner.name == "Section":
                index_key_rule(chk, site, ownership(repo), "R05.9")
    if p == "C09":
        # "UUID and Offset entries of AuxData tables name the attached objects": every decode of a
        # table's bytes goes through the container's lookup
        chk.adopt_property("C14", "R09.6", lambda o: o.construct.startswith("AuxData.data:"))
    if p == "C13":
        # the keys of the section index are the closed extent [address, address + size]: the
        # last byte of an interval is inside it
        chk.adopt_property("C05", "R13.4", lambda o: o.construct in (
            "_address_interval:closed-interval", "util._nodes_on_interval_tree_impl:bias"))
    if p in ("C13", "C12", "C05", "C06"):
        # the UUID-table hooks run between the index notification and the store of the owning set:
        # one that can fail leaves the index naming a non-member
        from .ownership import ownership
        rule_ = {"C13": "R13.4", "C12": "R12.6", "C05": "R05.8", "C06": "R06.6"}[p]
        for _prop, rule, construct, ok, loc, msg, facts in ownership(repo).obs:
            if rule == "R03.1" and ":param-use(" in construct:
                chk.ob(rule_, construct, ok, loc, msg, facts)
    if p == "C14":
        # "never silently lost": the writer emits every table of the container, the reader reads
        # every entry of the map
        from .c01 import _auxdata
        sub = chk.sub()
        _auxdata(sub, repo)
        chk.adopt(sub, lambda o: o.construct.endswith(":whole-map"), "R14.7")
    if p == "C09":
        # "... or load fails with the documented error": the message of that error is built with a
        # literal format string
        chk.adopt_property("C17", "R09.6", lambda o: ":literal-format(" in o.construct)
    if p in ("C19", "C02"):
        # "the interval can always be saved and loaded back" / save-then-load is the identity:
        # the decoders turn away nothing the API accepts
        from .loader import rejections_mirror_api
        rejections_mirror_api(chk, "R19.6" if p == "C19" else "R02.6",
                              {"byteinterval", "block"} if p == "C19" else None)
    if p == "C04":
        # "nodes not named in an operation are unaffected by it": decoded AuxData values are not
        # shared between the tables of different nodes through a result cache
        from .purity import no_result_caches
        no_result_caches(chk, "R04.7")
    if p in ("C05", "C06", "C13"):
        # a memoised function is looked up by equality of its arguments, and ranges are equal as
        # sequences: range(0, 10, 3) == range(0, 12, 3).  A query normalised or answered through a
        # cache keyed by a range gets the bounds of another query with the same members
        import ast as _ast
        from ..model import unparse as _unparse
        for f in repo.all_functions():
            decos = " ".join(_unparse(d) for d in f.node.decorator_list)
            if "lru_cache" not in decos and "functools.cache" not in decos and not decos.startswith("cache"):
                continue
            anns = " ".join(_unparse(a.annotation) for a in _ast.walk(f.node.args)
                            if isinstance(a, _ast.arg) and a.annotation is not None)
            takes_range = "range" in anns or any(a.arg in ("addrs", "offsets", "desired_range") for a in f.node.args.args)
            if takes_range:
                chk.saw(f)
                chk.ob({"C05": "R05.7", "C06": "R06.1", "C13": "R13.3"}[p], "%s:memoised-by-range" % f.qualname, False, f.loc(),
                       "%s is memoised and takes a range: ranges with the same members compare equal whatever "
                       "their stop, so one query is answered with the bounds of another" % f.qualname, 1)
    # ---- round 9 ------------------------------------------------------------------------------
    if p == "C01":
        # what is saved is the forest: a node that sits in two collections is written twice and
        # comes back under the wrong parent
        from .ownership import ownership
        for _prop, rule, construct, ok, loc, msg, facts in ownership(repo).obs:
            if rule == "R03.3" and construct.rsplit(":", 1)[-1] in (
                    "leave-previous-owner", "leave-before-relink", "member-guard", "store-discard", "store-add",
                    "store-after-leaving", "set-backptr", "clear-backptr"):
                chk.ob("R01.12", construct, ok, loc, msg, facts)
    if p == "C03":
        # a reader that cannot resolve a reference rejects the file: it does not make a node up
        # (which would be registered without being attached)
        chk.adopt_property("C09", "R03.8", lambda o: o.rule == "R09.1" and o.construct.endswith(":lookup"))
    if p == "C04":
        # ``x.sections -= y`` rebinds the attribute to what the operator returns
        cache = repo.__dict__.setdefault("_prop_obs", {})
        if "C16" in cache:
            for o in cache["C16"].obs:
                if o.construct.endswith(":returns-self"):
                    chk.ob("R04.2", o.construct, o.ok, o.loc, o.message, o.facts, o.undecided)
    if p == "C05":
        # the lookups re-check every hit against the block's own address
        chk.adopt_property("C19", "R05.4", lambda o: o.construct in ("ByteBlock.address:value", "ByteBlock.address:none"))
    if p == "C07":
        # "entries naming nodes of the given IR come back as those nodes": the UUID table the
        # decoder looks them up in follows every attach and detach
        from .ownership import ownership
        for _prop, rule, construct, ok, loc, msg, facts in ownership(repo).obs:
            if rule == "R03.3" and construct.rsplit(":", 1)[-1] in ("table-add", "table-remove", "table-add-target"):
                chk.ob("R07.7", construct, ok, loc, msg, facts)
    if p == "C12":
        # the owner's notification hooks hand every event on to the lazy tree, whatever the element
        chk.adopt_property("C05", "R12.6", lambda o: o.rule == "R05.2" and o.construct.endswith(":forwards"))
    if p == "C17":
        # "... and can be saved again": a table that was read keeps either its bytes or its value
        chk.adopt_property("C14", "R17.6", lambda o: o.construct.startswith("_LazyDataContainer.get_data:"))
    if p in ("C17", "C02"):
        # a partially linked IR is not coherent / not what was saved: the deferred pass is total
        chk.adopt_property("C09", "R17.5" if p == "C17" else "R02.3",
                           lambda o: o.construct.endswith(":deferred-pass-unconditional"))
