#!/bin/sh
# usage: mkscratch.sh <repo-or-worktree> <dest-dir>
# Builds an importable copy of <repo>/python/gtirb under <dest-dir>/gtirb by adding the
# generated modules (proto/*_pb2.py, version.py) from the installed package.  The pinned
# tree itself cannot be imported (those files are CMake products).  Remove <dest-dir> when done.
set -e
SRC=${1:-/repo}; DST=$2
[ -n "$DST" ] || { echo "usage: $0 <repo> <dest>"; exit 2; }
SP=/venv/lib/python3.12/site-packages/gtirb
rm -rf "$DST/gtirb"; mkdir -p "$DST"
cp -r "$SRC/python/gtirb" "$DST/gtirb"
cp $SP/proto/*_pb2.py "$DST/gtirb/proto/"
cp $SP/version.py "$DST/gtirb/version.py"
find "$DST" -name __pycache__ -prune -exec rm -rf {} +
echo "PYTHONPATH=$DST /venv/bin/python ..."
