"""C03 — UUID lookup finds exactly the nodes currently attached to that IR."""
from __future__ import annotations

import ast

from ..abc_model import AbcModel
from ..model import attr_path, walk_no_nested
from ..report import Check
from .ownership import ownership

RULES = {
    "R03.1": "who-may-write: the per-IR UUID table is created and self-registered in IR.__init__, "
             "read in IR.get_by_uuid, passed only to _add_to/_remove_from_uuid_cache; cache "
             "methods only store/delete cache[self.uuid] and forward to children",
    "R03.3": "pairing: every attach primitive registers the element's subtree in the owner's IR "
             "table on every path where the owner has an IR; every detach primitive removes it",
    "R03.4": "subtree recursion: cache methods cover own entry and exactly the owning collections",
    "R03.6": "loader registration: each node decoder registers the object it returns",
    "R03.7": "IR.get_by_uuid answers from the table of this IR only; Node._from_protobuf consults it",
}


def run(chk: Check) -> None:
    chk.explanation = (
        "History quantifier discharged by ownership: the UUID table and the containment links "
        "change only inside a few primitives, each of which changes them together on every path "
        "(CFG must-pass-through with guard-aware excuses).  Decides the structural necessary "
        "conditions, not the behaviour for particular histories.")
    for k, v in RULES.items():
        chk.rule(k, v)
    own = ownership(chk.repo)
    for f in own.functions:
        chk.functions.add(f)
    n = 0
    for prop, rule, construct, ok, loc, msg, facts in own.obs:
        if prop == "C03":
            chk.ob(rule, construct, ok, loc, msg, facts)
            n += 1
        elif prop == "C04" and rule in ("R03.2", "R03.3", "R03.5"):
            # the table half of every pairing relies on the containment half being sound
            chk.ob(rule, construct, ok, loc, msg, facts)
    chk.floor("R03.1", "uses of _local_uuid_cache", own.counts.get("table_uses", 0), 12)
    chk.floor("R03.3", "attach primitives", own.counts.get("attach_primitives", 0), 3)
    chk.floor("R03.3", "detach primitives", own.counts.get("detach_primitives", 0), 3)
    chk.floor("R03.6", "loader registrations", own.counts.get("loader_registrations", 0), 4)

    from .lookups import truthiness_safe
    truthiness_safe(chk, "R03.3")
    # a decoder that swallows a structural error leaves registered-but-unattached nodes behind;
    # hooks run over a live iterable register nodes that are then not placed
    from .c17 import _no_swallow
    from .c16 import _materialised
    from ..types import TypeEnv
    sub = chk.sub()
    _no_swallow(sub)
    _materialised(sub, TypeEnv(chk.repo))
    chk.adopt(sub, None, "R03.6")
    from .c04 import Containment, _accessors
    sub = chk.sub()
    _accessors(sub, own, Containment(own))
    chk.adopt(sub, lambda o: o.construct.endswith(".ir"), "R03.3")
    from .c16 import _list_hooks
    sub = chk.sub()
    _list_hooks(sub, TypeEnv(chk.repo))
    chk.adopt(sub, lambda o: o.rule == "R16.4c", "R03.3")
    # R03.7 get_by_uuid / _from_protobuf
    repo = chk.repo
    ir = repo.cls("IR")
    g = ir.methods.get("get_by_uuid")
    if g is None:
        chk.ob("R03.7", "IR.get_by_uuid", False, ir.loc(), "IR.get_by_uuid vanished")
    else:
        chk.saw(g)
        rets = [r for r in walk_no_nested(g.node) if isinstance(r, ast.Return)]
        ok = len(rets) == 1
        if ok:
            v = rets[0].value
            ok = isinstance(v, ast.Call) and isinstance(v.func, ast.Attribute) and \
                v.func.attr == "get" and attr_path(v.func.value) == (g.self_name, "_local_uuid_cache") \
                and len(v.args) == 1 and isinstance(v.args[0], ast.Name) \
                and v.args[0].id == g.param_names()[1] and not v.keywords
        chk.ob("R03.7", "IR.get_by_uuid:reads-own-table", ok, g.loc(),
               "IR.get_by_uuid must return self._local_uuid_cache.get(<uuid>) — the table of this "
               "IR, keyed by the argument, None on a miss", 2)
    nf = repo.cls("Node").methods.get("_from_protobuf")
    if nf is None:
        chk.ob("R03.7", "Node._from_protobuf", False, repo.cls("Node").loc(), "vanished")
    else:
        chk.saw(nf)
        calls = [c for c in walk_no_nested(nf.node) if isinstance(c, ast.Call)
                 and isinstance(c.func, ast.Attribute) and c.func.attr == "get_by_uuid"]
        chk.ob("R03.7", "Node._from_protobuf:consults-table", bool(calls), nf.loc(),
               "Node._from_protobuf no longer consults ir.get_by_uuid before decoding: a node "
               "already attached under that UUID would be decoded twice", 1)
