"""E10 sensitivity audit: seeded faults must be reported, refactoring twins
must not.  Variants are held in memory (an overlay over the working tree);
nothing is executed and no scratch tree is written.
"""
from __future__ import annotations

import importlib
from typing import Any, Dict, List, Optional, Tuple

from .model import AnalysisError, Repo
from .report import Check, load_known


def _variant(repo_root, edits: List[Tuple[str, str, str]]) -> Optional[Dict[str, str]]:
    """edits: (relpath, old, new).  None if an edit does not apply exactly once."""
    overlay: Dict[str, str] = {}
    base = Repo(repo_root) if False else None
    from .model import repo_root as rr
    root = rr()
    for rel, old, new in edits:
        p = root / rel
        if rel in overlay:
            text = overlay[rel]
        elif p.is_file():
            text = p.read_text(errors="replace")
        else:
            return None
        if text.count(old) != 1:
            return None
        overlay[rel] = text.replace(old, new)
    return overlay


def _violations(prop: str, overlay: Dict[str, str]) -> Tuple[List[Tuple[str, str]], Optional[str]]:
    mod = importlib.import_module("gtirb_static.rules.%s" % prop.lower())
    # caches keyed by repo identity: a fresh Repo per variant
    try:
        repo = Repo(overlay=overlay)
        from .runner import run_rules
        chk = run_rules(prop, repo, "quick")
    except AnalysisError as e:
        return [], "ANALYSIS-ERROR: %s" % e
    known = load_known()
    out = [(v.rule, v.construct) for v in chk.violations()
           if (prop, v.rule, v.construct) not in known]
    if not out and chk.undecided():
        u = chk.undecided()[0]
        return [], "ANALYSIS-ERROR: cannot decide %s %s" % (u.rule, u.construct)
    if not out and chk.floor_failures:
        return [], "ANALYSIS-ERROR: %s" % chk.floor_failures[0]
    return out, None


def run_audit(props: List[str], quiet: bool = True) -> Dict[str, Any]:
    from .audit_catalogue import FAULTS, TWINS
    res: Dict[str, Any] = {"faults_applied": 0, "faults_detected": 0, "faults_skipped": 0,
                           "twins_applied": 0, "twins_silent": 0, "twins_skipped": 0,
                           "undetected": [], "twin_alarms": [], "detected": []}
    base: Dict[str, List[Tuple[str, str]]] = {}
    for prop in props:
        b, err = _violations(prop, {})
        if err:
            raise AnalysisError("audit baseline for %s: %s" % (prop, err))
        base[prop] = b
    for f in FAULTS:
        if f["property"] not in props:
            continue
        ov = _variant(None, f["edits"])
        if ov is None:
            res["faults_skipped"] += 1
            if not quiet:
                print("skip   fault %-4s %s (edit does not apply to this tree)" % (f["property"], f["name"]))
            continue
        res["faults_applied"] += 1
        v, err = _violations(f["property"], ov)
        new = [x for x in v if x not in base[f["property"]]]
        want = f.get("rule")
        hit = [x for x in new if want is None or x[0] == want]
        if hit or (err and f.get("allow_error")):
            res["faults_detected"] += 1
            res["detected"].append({"property": f["property"], "fault": f["name"],
                                    "reported": ["%s %s" % x for x in hit][:3] or [err]})
            if not quiet:
                print("ok     fault %-4s %s -> %s" % (f["property"], f["name"],
                                                     ", ".join("%s %s" % x for x in hit[:2]) or err))
        else:
            res["undetected"].append("%s: %s%s" % (f["property"], f["name"],
                                                   " (%s)" % err if err else ""))
            if not quiet:
                print("MISSED fault %-4s %s %s %s" % (f["property"], f["name"], err or "", new[:3]))
    for t in TWINS:
        if t["property"] not in props:
            continue
        ov = _variant(None, t["edits"])
        if ov is None:
            res["twins_skipped"] += 1
            if not quiet:
                print("skip   twin  %-4s %s" % (t["property"], t["name"]))
            continue
        res["twins_applied"] += 1
        v, err = _violations(t["property"], ov)
        new = [x for x in v if x not in base[t["property"]]]
        if new or err:
            res["twin_alarms"].append("%s: %s -> %s" % (t["property"], t["name"], err or new[:3]))
            if not quiet:
                print("ALARM  twin  %-4s %s -> %s" % (t["property"], t["name"], err or new[:3]))
        else:
            res["twins_silent"] += 1
            if not quiet:
                print("ok     twin  %-4s %s" % (t["property"], t["name"]))
    if not quiet:
        print("audit: %d/%d faults detected (%d skipped), %d/%d twins silent (%d skipped)"
              % (res["faults_detected"], res["faults_applied"], res["faults_skipped"],
                 res["twins_silent"], res["twins_applied"], res["twins_skipped"]))
    return res
