"""E3 schema model: a small proto3 parser for ``proto/*.proto``."""
from __future__ import annotations

import re
from pathlib import Path
from typing import Dict, List, Optional, Tuple

from .model import AnalysisError, Repo

SCALARS = {"double", "float", "int32", "int64", "uint32", "uint64", "sint32",
           "sint64", "fixed32", "fixed64", "sfixed32", "sfixed64", "bool",
           "string", "bytes"}
INT_SCALARS = {"int32", "int64", "uint32", "uint64", "sint32", "sint64",
               "fixed32", "fixed64", "sfixed32", "sfixed64"}


class Field:
    def __init__(self, name: str, number: int, type: str, label: str = "",
                 oneof: Optional[str] = None, key_type: Optional[str] = None,
                 line: int = 0):
        self.name = name
        self.number = number
        self.type = type          # scalar name, message name or enum name
        self.label = label        # '', 'repeated', 'map'
        self.oneof = oneof
        self.key_type = key_type  # for maps
        self.line = line

    def __repr__(self) -> str:
        return "<field %s %s %s>" % (self.label, self.type, self.name)


class Message:
    def __init__(self, name: str, file: str, line: int):
        self.name = name
        self.file = file
        self.line = line
        self.fields: Dict[str, Field] = {}
        self.oneofs: Dict[str, List[str]] = {}
        self.reserved_names: List[str] = []


class Enum:
    def __init__(self, name: str, file: str, line: int):
        self.name = name
        self.file = file
        self.line = line
        self.constants: Dict[str, int] = {}


class Schema:
    def __init__(self, repo: Repo):
        self.messages: Dict[str, Message] = {}
        self.enums: Dict[str, Enum] = {}
        self.files: List[str] = []
        d = repo.root / "proto"
        if not d.is_dir():
            raise AnalysisError("anchor vanished: proto/")
        for p in sorted(d.glob("*.proto")):
            rel = "proto/" + p.name
            self.files.append(rel)
            self._parse(repo.read_text(rel), rel)
        if not self.messages:
            raise AnalysisError("no messages parsed from proto/*.proto")

    # ------------------------------------------------------------------
    def _tokens(self, text: str) -> List[Tuple[str, int]]:
        toks: List[Tuple[str, int]] = []
        line = 1
        i = 0
        n = len(text)
        while i < n:
            c = text[i]
            if c == "\n":
                line += 1
                i += 1
            elif c.isspace():
                i += 1
            elif text.startswith("//", i):
                j = text.find("\n", i)
                i = n if j < 0 else j
            elif text.startswith("/*", i):
                j = text.find("*/", i)
                if j < 0:
                    raise AnalysisError("unterminated comment in proto")
                line += text.count("\n", i, j)
                i = j + 2
            elif c == '"':
                j = i + 1
                while j < n and text[j] != '"':
                    j += 2 if text[j] == "\\" else 1
                toks.append((text[i:j + 1], line))
                i = j + 1
            elif c.isalnum() or c in "_.-":
                j = i
                while j < n and (text[j].isalnum() or text[j] in "_.-"):
                    j += 1
                toks.append((text[i:j], line))
                i = j
            else:
                toks.append((c, line))
                i += 1
        return toks

    def _parse(self, text: str, rel: str) -> None:
        toks = self._tokens(text)
        pos = 0

        def peek() -> str:
            return toks[pos][0] if pos < len(toks) else ""

        def nxt() -> Tuple[str, int]:
            nonlocal pos
            if pos >= len(toks):
                raise AnalysisError("unexpected end of %s" % rel)
            t = toks[pos]
            pos += 1
            return t

        def expect(s: str) -> None:
            t, ln = nxt()
            if t != s:
                raise AnalysisError("%s:%d: expected %r, got %r" % (rel, ln, s, t))

        def skip_stmt() -> None:
            while nxt()[0] != ";":
                pass

        def parse_enum() -> None:
            name, ln = nxt()
            e = Enum(name, rel, ln)
            expect("{")
            while peek() != "}":
                t, _ = nxt()
                if t in ("option", "reserved"):
                    skip_stmt()
                    continue
                if t == ";":
                    continue
                expect("=")
                val, _ = nxt()
                if peek() == "[":
                    while nxt()[0] != "]":
                        pass
                expect(";")
                e.constants[t] = int(val, 0)
            expect("}")
            self.enums[name] = e

        def parse_field(m: Message, first: str, ln: int, oneof: Optional[str]) -> None:
            label = ""
            typ = first
            key_type = None
            if first in ("repeated", "optional"):
                label = "repeated" if first == "repeated" else ""
                typ, _ = nxt()
            if typ == "map":
                expect("<")
                key_type, _ = nxt()
                expect(",")
                typ, _ = nxt()
                expect(">")
                label = "map"
            name, _ = nxt()
            expect("=")
            num, _ = nxt()
            if peek() == "[":
                while nxt()[0] != "]":
                    pass
            expect(";")
            typ = typ.split(".")[-1]
            m.fields[name] = Field(name, int(num), typ, label, oneof, key_type, ln)
            if oneof:
                m.oneofs.setdefault(oneof, []).append(name)

        def parse_message() -> None:
            name, ln = nxt()
            m = Message(name, rel, ln)
            expect("{")
            while peek() != "}":
                t, tl = nxt()
                if t == ";":
                    continue
                if t == "reserved":
                    while True:
                        x, _ = nxt()
                        if x == ";":
                            break
                        if x.startswith('"'):
                            m.reserved_names.append(x.strip('"'))
                    continue
                if t == "option":
                    skip_stmt()
                    continue
                if t == "oneof":
                    oname, _ = nxt()
                    expect("{")
                    while peek() != "}":
                        ft, fl = nxt()
                        if ft == ";":
                            continue
                        parse_field(m, ft, fl, oname)
                    expect("}")
                    continue
                if t == "enum":
                    parse_enum()
                    continue
                if t == "message":
                    parse_message()
                    continue
                parse_field(m, t, tl, None)
            expect("}")
            self.messages[name] = m

        while pos < len(toks):
            t, ln = nxt()
            if t in ("syntax", "package", "option", "import"):
                skip_stmt()
            elif t == "message":
                parse_message()
            elif t == "enum":
                parse_enum()
            elif t == ";":
                continue
            else:
                raise AnalysisError("%s:%d: unexpected token %r" % (rel, ln, t))

    # ------------------------------------------------------------------
    def reachable(self, root: str = "IR") -> List[str]:
        seen: List[str] = []
        stack = [root]
        while stack:
            n = stack.pop()
            if n in seen or n not in self.messages:
                continue
            seen.append(n)
            for f in self.messages[n].fields.values():
                if f.type in self.messages:
                    stack.append(f.type)
        return seen

    def field_count(self, msgs: List[str]) -> int:
        return sum(len(self.messages[m].fields) for m in msgs)


def protobuf_version(repo: Repo) -> int:
    txt = repo.read_text("version.txt")
    m = re.search(r"^VERSION_PROTOBUF\s+(\d+)\s*$", txt, re.M)
    if not m:
        raise AnalysisError("anchor vanished: VERSION_PROTOBUF in version.txt")
    return int(m.group(1))
