#!/bin/sh
# usage: try_mutation.sh <patch.diff> [PROP ...]
# Applies the patch to a scratch worktree of /repo (never to /repo itself), runs the quick checks
# of the given properties (default: all) against it with VERIF_REPO, prints which report a
# violation, and removes the worktree.  Evidence files are rewritten by these runs: re-run the
# checks on /repo afterwards (tools/run_all.sh) before committing evidence.
set -u
PATCH=$(readlink -f "$1"); shift
PROPS=${*:-"C01 C02 C03 C04 C05 C06 C07 C08 C09 C10 C11 C12 C13 C14 C15 C16 C17 C18 C19"}
WT=$(mktemp -d /tmp/wt-eval-XXXXXX)
git -C /repo worktree add -q --detach "$WT" HEAD || exit 2
if ! git -C "$WT" apply "$PATCH"; then echo "PATCH DOES NOT APPLY"; git -C /repo worktree remove --force "$WT"; exit 2; fi
cd /verif
for p in $PROPS; do
  out=$(VERIF_REPO="$WT" /venv/bin/python -m gtirb_static check $p 2>&1); rc=$?
  if [ $rc -eq 1 ]; then echo "== $p: VIOLATION"; echo "$out" | grep -v '^VIOLATION\|^KNOWN' | grep -v "^$p:" | cut -c1-260 | head -4
  elif [ $rc -ne 0 ]; then echo "== $p: rc=$rc"; echo "$out" | tail -2 | cut -c1-300; fi
done
git -C /repo worktree remove --force "$WT"
