"""E4 schema-typed dataflow: attribute every read / write of a protobuf
message field in the package to a (Message, field) pair.
"""
from __future__ import annotations

import ast
from typing import Any, Dict, Iterable, List, Optional, Set, Tuple

from .model import (AnalysisError, ClassInfo, FuncInfo, Repo, attr_path, const_str, dotted,
                    unparse, walk_no_nested)
from .proto_schema import Field, Message, Schema

PType = tuple   # ('msg', M) ('rep', M) ('map', K, M) ('repscalar', M, f) ('scalar', M, f)
                # ('mapitems', K, M) ('nodemsg',)


class Access:
    def __init__(self, msg: str, field: str, f: FuncInfo, node: ast.AST, how: str,
                 value: Optional[ast.AST] = None, key: Optional[ast.AST] = None,
                 base: Optional[ast.AST] = None):
        self.msg = msg
        self.field = field
        self.f = f
        self.node = node
        self.how = how
        self.value = value
        self.key = key
        self.base = base      # the expression denoting the message object

    @property
    def loc(self) -> str:
        return self.f.loc(self.node)

    def __repr__(self) -> str:
        return "<%s %s.%s in %s>" % (self.how, self.msg, self.field, self.f.qualname)


class FuncFlow:
    def __init__(self, f: FuncInfo, env: Dict[str, PType]):
        self.f = f
        self.env = env


class ProtoFlow:
    def __init__(self, repo: Repo, schema: Schema):
        self.repo = repo
        self.schema = schema
        self.writes: List[Access] = []
        self.reads: List[Access] = []
        # message type -> accesses whose field name is computed (getattr(msg, name), HasField(var))
        self.dynamic: Dict[str, List[Access]] = {}
        self.envs: Dict[str, Dict[str, PType]] = {}
        self.attr_types: Dict[Tuple[str, str], PType] = {}
        self._instance_attr_types()
        for f in repo.all_functions():
            if f.outer is not None:
                continue
            self._function(f, {})
        self._passed_writes()

    # ------------------------------------------------------------------
    def _ann_ptype(self, ann: Optional[ast.AST]) -> Optional[PType]:
        if ann is None:
            return None
        if isinstance(ann, ast.Constant) and isinstance(ann.value, str):
            try:
                return self._ann_ptype(ast.parse(ann.value, mode="eval").body)
            except SyntaxError:
                return None
        d = dotted(ann) if isinstance(ann, (ast.Attribute, ast.Name)) else None
        if d:
            if len(d) >= 2 and d[-2].endswith("_pb2") and d[-1] in self.schema.messages:
                return ("msg", d[-1])
            if d[-1] == "_NodeMessage":
                return ("nodemsg",)
            return None
        if isinstance(ann, ast.Subscript):
            head = dotted(ann.value)
            sl = ann.slice
            elts = list(sl.elts) if isinstance(sl, ast.Tuple) else [sl]
            h = head[-1] if head else ""
            if h in ("Optional", "Union"):
                for e in elts:
                    t = self._ann_ptype(e)
                    if t:
                        return t
                return None
            if h in ("Iterable", "Iterator", "Sequence", "List", "RepeatedCompositeFieldContainer"):
                t = self._ann_ptype(elts[0])
                if t and t[0] == "msg":
                    return ("rep", t[1])
                return None
            if h in ("MessageMap", "Mapping", "Dict", "MutableMapping") and len(elts) == 2:
                t = self._ann_ptype(elts[1])
                if t and t[0] == "msg":
                    return ("map", "?", t[1])
                return None
        return None

    def _instance_attr_types(self) -> None:
        for c in self.repo.classes.values():
            for f in c.methods.values():
                me = f.self_name
                if me is None:
                    continue
                for n in walk_no_nested(f.node):
                    if isinstance(n, ast.AnnAssign) and attr_path(n.target) and \
                            attr_path(n.target)[0] == me and len(attr_path(n.target)) == 2:
                        t = self._ann_ptype(n.annotation)
                        if t:
                            self.attr_types[(c.qualname, attr_path(n.target)[1])] = t

    def _field_ptype(self, m: str, fld: Field) -> PType:
        if fld.label == "map":
            if fld.type in self.schema.messages:
                return ("map", fld.key_type or "?", fld.type)
            return ("mapscalar", m, fld.name)
        if fld.label == "repeated":
            if fld.type in self.schema.messages:
                return ("rep", fld.type, m, fld.name)
            return ("repscalar", m, fld.name)
        if fld.type in self.schema.messages:
            return ("msg", fld.type, m, fld.name)
        return ("scalar", m, fld.name)

    def _scoped(self, e: ast.Name, env: Dict[str, PType], f: FuncInfo) -> Optional[PType]:
        """type of a name bound by an enclosing comprehension / for loop"""
        cur = getattr(e, "_parent", None)
        prev: ast.AST = e
        while cur is not None and not isinstance(cur, (ast.FunctionDef, ast.Lambda)):
            gens: List[Any] = []
            if isinstance(cur, (ast.GeneratorExp, ast.ListComp, ast.SetComp, ast.DictComp)):
                gens = list(cur.generators)
            elif isinstance(cur, ast.For) and prev is not cur.iter:
                gens = [cur]
            for g in gens:
                names = [n.id for n in ast.walk(g.target) if isinstance(n, ast.Name)]
                if e.id in names and not any(n is e for n in ast.walk(g.iter)):
                    it = self.ptype(g.iter, env, f)
                    if it is None:
                        return ("unknown",)
                    if it[0] == "rep" and isinstance(g.target, ast.Name):
                        return ("msg", it[1])
                    if it[0] == "repscalar" and isinstance(g.target, ast.Name):
                        return ("scalar", it[1], it[2])
                    if it[0] == "mapitems" and isinstance(g.target, ast.Tuple) and len(g.target.elts) == 2 \
                            and isinstance(g.target.elts[1], ast.Name) and g.target.elts[1].id == e.id:
                        return ("msg", it[2])
                    return ("unknown",)
            prev, cur = cur, getattr(cur, "_parent", None)
        return None

    def ptype(self, e: ast.AST, env: Dict[str, PType], f: FuncInfo) -> Optional[PType]:
        if isinstance(e, ast.Name):
            sc = self._scoped(e, env, f)
            if sc is not None:
                return None if sc[0] == "unknown" else sc
            t = env.get(e.id)
            return None if t is not None and t[0] == "fn" else t
        if isinstance(e, ast.Attribute):
            base = self.ptype(e.value, env, f)
            if base and base[0] == "msg":
                m = self.schema.messages[base[1]]
                if e.attr in m.fields:
                    return self._field_ptype(m.name, m.fields[e.attr])
                return None
            if base and base[0] == "nodemsg" and e.attr == "uuid":
                return ("scalar", "*", "uuid")
            if isinstance(e.value, ast.Name) and f.self_name == e.value.id and f.cls is not None:
                for k in f.cls.mro_classes():
                    t = self.attr_types.get((k.qualname, e.attr))
                    if t:
                        return t
            return None
        if isinstance(e, ast.Call):
            d = dotted(e.func)
            if d and len(d) >= 2 and d[-2].endswith("_pb2") and d[-1] in self.schema.messages \
                    and not e.args:
                return ("msg", d[-1])
            if isinstance(e.func, ast.Name) and env.get(e.func.id, ("",))[0] == "fn":
                return env[e.func.id][1]
            if isinstance(e.func, ast.Attribute):
                base = self.ptype(e.func.value, env, f)
                if base and base[0] == "map" and e.func.attr == "items":
                    return ("mapitems", base[1], base[2])
                if base and base[0] == "map" and e.func.attr == "values":
                    return ("rep", base[2])
            return None
        if isinstance(e, ast.Subscript):
            base = self.ptype(e.value, env, f)
            if base and base[0] == "map":
                return ("msg", base[2])
            if base and base[0] == "rep":
                return ("msg", base[1])
            return None
        return None

    # ------------------------------------------------------------------
    def _function(self, f: FuncInfo, outer_env: Dict[str, PType]) -> None:
        env: Dict[str, PType] = dict(outer_env)
        for a in f.params:
            t = self._ann_ptype(a.annotation)
            if t:
                env[a.arg] = t
            elif a.arg in env and a.arg != (f.self_name or ""):
                # parameter shadows an outer name
                if a.annotation is not None:
                    del env[a.arg]
        for g in _direct_nested(f):
            rt = self._ann_ptype(g.node.returns)
            if rt:
                env[g.name] = ("fn", rt)
        # two passes so that later bindings can depend on earlier ones
        for _ in range(3):
            for n in walk_no_nested(f.node):
                if isinstance(n, (ast.Assign, ast.AnnAssign)):
                    tg = n.targets[0] if isinstance(n, ast.Assign) else n.target
                    val = n.value
                    if isinstance(tg, ast.Name) and val is not None:
                        t = self.ptype(val, env, f)
                        if t and t[0] in ("msg", "rep", "map"):
                            env[tg.id] = t[:3] if t[0] == "map" else t[:2]
                elif isinstance(n, ast.Assert):
                    c = n.test
                    if isinstance(c, ast.Call) and attr_path(c.func) == ("isinstance",) and len(c.args) == 2 \
                            and isinstance(c.args[0], ast.Name):
                        t = self._ann_ptype(c.args[1])
                        if t:
                            env[c.args[0].id] = t
                elif isinstance(n, (ast.For, ast.comprehension)):
                    it = self.ptype(n.iter, env, f)
                    if it is None:
                        continue
                    if it[0] == "rep" and isinstance(n.target, ast.Name):
                        env[n.target.id] = ("msg", it[1])
                    elif it[0] == "repscalar" and isinstance(n.target, ast.Name) and n.target.id not in env:
                        env[n.target.id] = ("scalar", it[1], it[2])
                    elif it[0] == "mapitems" and isinstance(n.target, ast.Tuple) and len(n.target.elts) == 2 \
                            and isinstance(n.target.elts[1], ast.Name):
                        env[n.target.elts[1].id] = ("msg", it[2])
        self.envs[f.qualname] = env
        self._collect(f, env)
        for g in _direct_nested(f):
            self._function(g, env)

    def _collect(self, f: FuncInfo, env: Dict[str, PType]) -> None:
        write_bases: Set[int] = set()     # ids of Attribute nodes that are write targets
        from .model import local_aliases
        al = local_aliases(f.node)

        def deref(e: ast.AST) -> ast.AST:
            """a local bound once to a field of a message stands for that field
            (``exprs = proto_interval.symbolic_expressions``)"""
            k = 0
            while isinstance(e, ast.Name) and isinstance(al.get(e.id), ast.Attribute) and k < 4:
                e = al[e.id]
                k += 1
            return e

        def field_of(e: ast.AST) -> Optional[Tuple[str, str, PType]]:
            e = deref(e)
            if isinstance(e, ast.Attribute):
                base = self.ptype(e.value, env, f)
                if base and base[0] == "msg" and e.attr in self.schema.messages[base[1]].fields:
                    return base[1], e.attr, self._field_ptype(base[1], self.schema.messages[base[1]].fields[e.attr])
                if base and base[0] == "nodemsg" and e.attr == "uuid":
                    return "*", "uuid", ("scalar", "*", "uuid")
            return None

        for n in walk_no_nested(f.node):
            if isinstance(n, (ast.Assign, ast.AugAssign, ast.AnnAssign)):
                tgs = n.targets if isinstance(n, ast.Assign) else [n.target]
                for tg in tgs:
                    fo = field_of(tg) if not isinstance(tg, ast.Name) else None
                    if fo:
                        write_bases.add(id(tg))
                        self.writes.append(Access(fo[0], fo[1], f, n, "assign", n.value, base=tg.value))
                        # x.f.sub = v  also writes x.f
                        inner = tg.value
                        fo2 = field_of(inner)
                        if fo2:
                            write_bases.add(id(inner))
                            self.writes.append(Access(fo2[0], fo2[1], f, n, "sub", None, base=inner.value))
                    elif isinstance(tg, ast.Subscript):
                        fo3 = field_of(tg.value)
                        if fo3 and fo3[2][0] in ("map", "mapscalar"):
                            write_bases.add(id(deref(tg.value)))
                            self.writes.append(Access(fo3[0], fo3[1], f, n, "mapitem", n.value,
                                                      key=tg.slice, base=deref(tg.value).value))
            elif isinstance(n, ast.Call) and isinstance(n.func, ast.Attribute):
                meth = n.func.attr
                recv = deref(n.func.value)
                if meth in ("extend", "append", "add", "MergeFrom") and n.args:
                    fo = field_of(recv)
                    if fo and fo[2][0] in ("rep", "repscalar"):
                        write_bases.add(id(recv))
                        self.writes.append(Access(fo[0], fo[1], f, n, meth, n.args[0], base=recv.value))
                elif meth == "CopyFrom" and n.args:
                    fo = field_of(recv)
                    if fo:
                        write_bases.add(id(recv))
                        self.writes.append(Access(fo[0], fo[1], f, n, "copyfrom", n.args[0], base=recv.value))
                    elif isinstance(recv, ast.Subscript):
                        fo = field_of(recv.value)
                        if fo and fo[2][0] == "map":
                            write_bases.add(id(deref(recv.value)))
                            self.writes.append(Access(fo[0], fo[1], f, n, "mapitem", n.args[0],
                                                      key=recv.slice, base=deref(recv.value).value))
                elif meth == "HasField" and n.args:
                    s = const_str(n.args[0])
                    b = self.ptype(recv, env, f)
                    if s and b and b[0] == "msg" and s in self.schema.messages[b[1]].fields:
                        self.reads.append(Access(b[1], s, f, n, "hasfield", base=recv))
                elif meth == "WhichOneof" and n.args:
                    s = const_str(n.args[0])
                    b = self.ptype(recv, env, f)
                    if s and b and b[0] == "msg":
                        for alt in self.schema.messages[b[1]].oneofs.get(s, []):
                            self.reads.append(Access(b[1], alt, f, n, "whichoneof", base=recv))
                elif meth in ("HasField", "WhichOneof", "ClearField") and n.args and const_str(n.args[0]) is None:
                    b = self.ptype(recv, env, f)
                    if b and b[0] == "msg":
                        self.dynamic.setdefault(b[1], []).append(Access(b[1], "*", f, n, "dynamic", base=recv))
                elif meth == "ClearField" and n.args:
                    s = const_str(n.args[0])
                    b = self.ptype(recv, env, f)
                    if s and b and b[0] == "msg":
                        self.writes.append(Access(b[1], s, f, n, "clear", base=recv))
        # getattr / setattr with a computed name on a message: which field is touched is data
        for n in walk_no_nested(f.node):
            if isinstance(n, ast.Call) and isinstance(n.func, ast.Name) and n.func.id in ("getattr", "setattr", "hasattr") \
                    and len(n.args) >= 2 and const_str(n.args[1]) is None:
                b = self.ptype(deref(n.args[0]), env, f)
                if b and b[0] == "msg":
                    self.dynamic.setdefault(b[1], []).append(Access(b[1], "*", f, n, "dynamic", base=n.args[0]))
        for n in walk_no_nested(f.node):
            if isinstance(n, ast.Attribute) and isinstance(n.ctx, ast.Load) and id(n) not in write_bases:
                fo = field_of(n)
                if fo:
                    self.reads.append(Access(fo[0], fo[1], f, n, "load", base=n.value))

    def _passed_writes(self) -> None:
        """a map/repeated field handed to a function whose parameter is written
        there (``self._write_protobuf_aux_data(proto_ir.aux_data)``)"""
        writers: Dict[str, List[Tuple[FuncInfo, str]]] = {}
        for f in self.repo.all_functions():
            env = self.envs.get(f.qualname, {})
            for n in walk_no_nested(f.node):
                if isinstance(n, ast.Call) and isinstance(n.func, ast.Attribute) and n.func.attr == "CopyFrom":
                    r = n.func.value
                    if isinstance(r, ast.Subscript) and isinstance(r.value, ast.Name) \
                            and r.value.id in f.param_names() and env.get(r.value.id, ("",))[0] == "map":
                        writers.setdefault(f.name, []).append((f, r.value.id))
        new: List[Access] = []
        for r in list(self.reads):
            if r.how != "load":
                continue
            par = getattr(r.node, "_parent", None)
            if isinstance(par, ast.Call) and r.node in par.args and isinstance(par.func, ast.Attribute) \
                    and par.func.attr in writers:
                new.append(Access(r.msg, r.field, r.f, par, "passed", None, base=r.base))
                self.reads.remove(r)
        self.writes.extend(new)

    # ------------------------------------------------------------------
    def written(self, msg: str, field: str) -> List[Access]:
        return [w for w in self.writes if w.msg == msg and w.field == field and w.how != "clear"]

    def read(self, msg: str, field: str) -> List[Access]:
        out = [r for r in self.reads if r.msg == msg and r.field == field]
        if field == "uuid":
            out += [r for r in self.reads if r.msg == "*" and r.field == "uuid"]
        return out


def _direct_nested(f: FuncInfo) -> List[FuncInfo]:
    out: List[FuncInfo] = []

    def rec(n: ast.AST) -> None:
        for ch in ast.iter_child_nodes(n):
            if isinstance(ch, ast.FunctionDef):
                out.append(FuncInfo(ch, f.module, f.cls, f))
            elif not isinstance(ch, ast.ClassDef):
                rec(ch)
    rec(f.node)
    return out
