"""one stored patch, analysed in a process of its own (``python -m gtirb_static.corpus_one <kind>
<patch> <property>...``): prints the result of ``corpus._one`` as one JSON line.  The corpus audit
runs every patch this way, so that no state of one analysis can reach the next and a runaway
analysis is cut off by the caller's timeout."""
from __future__ import annotations

import json
import sys

from .corpus import _one


def main() -> int:
    kind, path, props = sys.argv[1], sys.argv[2], sys.argv[3:]
    _k, _p, res = _one((kind, path, props))
    print("RESULT " + json.dumps(res))
    return 0


if __name__ == "__main__":
    sys.exit(main())
