#!/venv/bin/python
"""store_seeds.py <round> : copy confirmed sub-agent mutations from /tmp/wt-CXX/out into
/verif/seeded/<round>-CXX-<n>/ (patch.diff, demo.py, note.txt, meta.json with what was run and
which checks report it)."""
import json, subprocess, sys, shutil, re
from pathlib import Path
rnd = sys.argv[1]
wtsuffix = sys.argv[2] if len(sys.argv) > 2 else ""
subdir = sys.argv[3] if len(sys.argv) > 3 else "out"
props = {json.loads(l)["id"]: json.loads(l) for l in open("/verif/properties.jsonl")}
only = set(sys.argv[4].split(",")) if len(sys.argv) > 4 else None
for pid in sorted(props):
    if only and pid not in only:
        continue
    out = Path("/tmp/wt%s-%s/%s" % (wtsuffix, pid, subdir))
    for d in sorted(out.glob("mut*.diff")):
        n = re.search(r"mut(\d+)", d.name).group(1)
        demo, note = out / ("demo%s.py" % n), out / ("note%s.txt" % n)
        if not demo.exists():
            continue
        conf = subprocess.run(["/verif/tools/confirm_seed.sh", str(d), str(demo)], capture_output=True, text=True).stdout.strip().splitlines()[-1]
        if "demo_clean_rc=0" not in conf or "demo_mutated_rc=0" in conf or not re.search(r"'1\d\d passed", conf) \
                or "failed" in conf or "error" in conf:
            print("NOT CONFIRMED", pid, n, conf); continue
        # which checks report it: the rules run in-process on an overlay of the patched files
        det = subprocess.run(["/verif/tools/eval_patches.py", "-v", str(d)], capture_output=True, text=True).stdout
        reports = {}
        for line in det.splitlines():
            m = re.match(r"^\s+\[(C\d+)\] (\S+) (R\S+) (.*)$", line)
            if m:
                reports.setdefault(m.group(1), []).append(("%s %s %s" % (m.group(2), m.group(3), m.group(4)))[:220])
        caught = sorted(reports)
        for line in det.splitlines():
            # the summary line lists every reporting property (-v shows each rule instance once)
            if line.startswith(str(d) + ":"):
                caught = sorted(set(caught) | {w for w in line.split(":", 1)[1].split() if re.fullmatch(r"C\d+", w)})
        sid = "%s-%s-%s" % (rnd, pid, n)
        dst = Path("/verif/seeded") / sid
        dst.mkdir(parents=True, exist_ok=True)
        shutil.copy(d, dst / "patch.diff"); shutil.copy(demo, dst / "demo.py")
        if note.exists(): shutil.copy(note, dst / "note.txt")
        meta = {"id": sid, "breaks_property": pid, "title": props[pid]["title"],
                "needs_to_manifest": (note.read_text().strip() if note.exists() else ""),
                "origin": "independent sub-agent given only the property text and a scratch worktree (round %s)" % rnd,
                "confirmed": {"how": "tools/confirm_seed.sh patch.diff demo.py (scratch worktree; repo tests run against the changed sources; demo run with and without the change)", "result": conf},
                "detected_by_checks": caught, "own_property_check_detects": pid in caught,
                "first_reports": {k: v[:2] for k, v in reports.items()},
                "apply": "git -C /repo apply /verif/seeded/%s/patch.diff ; run checks ; git -C /repo checkout -- ." % sid}
        (dst / "meta.json").write_text(json.dumps(meta, indent=1))
        print(sid, "caught by", caught)
