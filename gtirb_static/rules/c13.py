"""C13 — Symbolic-expression lookup by address equals a fresh scan."""
from __future__ import annotations

import ast
from typing import Dict, List, Optional, Set, Tuple

from ..abc_model import AbcModel
from ..cfg import CFG
from ..model import AnalysisError, attr_path, dotted, expand_path, local_aliases, unparse, walk_no_nested
from ..report import Check
from ..terms import OutsideFragment, function_term, show
from .lookups import _lin, delegation
from .ownership import MUTATORS, direct_store_mutations

RULES = {
    "R13.1": "the store is its own sorted index: a SortedDict mutated only by the inherited "
             "__setitem__/__delitem__; every other mutator of the mapping API is an abc mixin",
    "R13.2": "whole-mapping assignment is alias-safe: in a setter whose getter returns the storage "
             "object itself, no destructive operation on the storage precedes the last read of "
             "the parameter",
    "R13.3": "lookup shape: no address -> nothing; irange over [start-address, stop-address) "
             "half-open; step filter on address+i; yields (self, i, expression at i)",
    "R13.4": "scope composition: Section unions the same lookup over its intervals; Module and IR "
             "chain it over sections / modules",
}


def run(chk: Check) -> None:
    chk.explanation = (
        "The per-interval store is its own index (a sorted mapping), so 'index equals a fresh "
        "scan' reduces to who-may-mutate the store, the alias safety of whole-mapping "
        "assignment, the shape of the two range iterations (linear forms of the irange bounds, "
        "half-open inclusivity, step filter) and the composition over scopes.  Arithmetic "
        "exactness of the range logic beyond these shape facts is not decided.")
    for k, v in RULES.items():
        chk.rule(k, v)
    repo = chk.repo
    abc = AbcModel()
    bi = repo.cls("ByteInterval")
    sd = repo.cls("ByteInterval._SymbolicExprDict")

    # R13.1 ----------------------------------------------------------------
    init = sd.methods.get("__init__")
    ok = False
    loc = sd.loc()
    if init is not None:
        chk.saw(init)
        for n in walk_no_nested(init.node):
            tgt = val = None
            if isinstance(n, ast.AnnAssign):
                tgt, val = n.target, n.value
            elif isinstance(n, ast.Assign) and len(n.targets) == 1:
                tgt, val = n.targets[0], n.value
            if tgt is not None and attr_path(tgt) == (init.self_name, "_data"):
                loc = init.loc(n)
                ok = isinstance(val, ast.Call) and (dotted(val.func) or ("",))[-1] == "SortedDict" and not val.args
        if any(isinstance(n, ast.Call) and isinstance(n.func, ast.Attribute) and n.func.attr == "__init__"
               and isinstance(n.func.value, ast.Call) and attr_path(n.func.value.func) == ("super",)
               for n in walk_no_nested(init.node)):
            ok = False
    chk.ob("R13.1", "ByteInterval._SymbolicExprDict:sorted-store", ok, loc,
           "the symbolic-expression mapping must keep its items in a fresh SortedDict: the range "
           "lookups use irange and must yield in increasing offset order", 2)
    n_mut = 0
    for k in sd.mro_classes():
        for f in k.methods.values():
            if f.name == "__init__":
                continue
            muts = direct_store_mutations(f, "_data")
            if muts:
                n_mut += 1
                chk.saw(f)
                chk.ob("R13.1", "%s:store-mutation" % f.qualname, f.name in ("__setitem__", "__delitem__"),
                       f.loc(muts[0]), "%s mutates the sorted store directly; only __setitem__/"
                       "__delitem__ may" % f.qualname, 2)
    chk.floor("R13.1", "store mutators of the mapping", n_mut, 2)
    for nm in ("pop", "popitem", "setdefault", "update", "clear"):
        prov = sd.find_method(nm)
        if prov is None:
            m = abc.resolve("abc.MutableMapping", nm)
            chk.ob("R13.1", "_SymbolicExprDict.%s:mixin" % nm, m is not None, sd.loc(),
                   "mapping API method %s resolves to nothing" % nm, 1)
    # the attribute holding the mapping is created from _SymbolicExprDict and only the setter rebinds it
    binit = bi.methods["__init__"]
    created = False
    for n in walk_no_nested(binit.node):
        if isinstance(n, (ast.Assign, ast.AnnAssign)):
            tg = n.targets[0] if isinstance(n, ast.Assign) else n.target
            if attr_path(tg) == (binit.self_name, "_symbolic_expressions"):
                v = n.value
                created = isinstance(v, ast.Call) and (dotted(v.func) or ("",))[-1] == "_SymbolicExprDict"
    chk.ob("R13.1", "ByteInterval.__init__:creates-sorted-mapping", created, binit.loc(),
           "ByteInterval._symbolic_expressions must be a _SymbolicExprDict", 2)
    for f in repo.all_functions():
        for n in walk_no_nested(f.node):
            if isinstance(n, ast.Attribute) and n.attr == "_symbolic_expressions" and isinstance(n.ctx, ast.Store):
                if f.cls is bi and f.name == "__init__":
                    continue
                st = getattr(n, "_parent", None)
                v = getattr(st, "value", None)
                ok = f.cls is bi and isinstance(v, ast.Call) and (dotted(v.func) or ("",))[-1] == "_SymbolicExprDict"
                chk.ob("R13.1", "%s:rebinds(_symbolic_expressions)" % f.qualname, ok, f.loc(n),
                       "%s rebinds the symbolic-expression store to something that is not a "
                       "_SymbolicExprDict (lookups would lose irange / sorted order)" % f.qualname, 2)

    # R13.2 ----------------------------------------------------------------
    n_set = 0
    for c in repo.classes.values():
        for pname, prop in c.props.items():
            g, s = prop.getter, prop.setter
            if g is None or s is None:
                continue
            rets = [r for r in walk_no_nested(g.node) if isinstance(r, ast.Return) and r.value is not None]
            if len(rets) != 1:
                continue
            store = attr_path(rets[0].value)
            if not store or len(store) != 2 or store[0] != g.self_name:
                continue
            # does the setter operate destructively on that storage object?
            me = s.self_name
            prm = s.param_names()[1] if len(s.param_names()) > 1 else None
            if prm is None:
                continue
            cfg = CFG(s.node)
            destructive = cfg.nodes_where(
                lambda n: isinstance(n, ast.Call) and isinstance(n.func, ast.Attribute)
                and n.func.attr in ("clear", "pop", "popitem", "discard", "remove", "__delitem__")
                and attr_path(n.func.value) == (me, store[1])) | cfg.nodes_where(
                lambda n: isinstance(n, ast.Delete) and any(
                    isinstance(t, ast.Subscript) and attr_path(t.value) == (me, store[1]) for t in n.targets))
            if not destructive:
                continue
            n_set += 1
            chk.saw(s)
            reads = cfg.nodes_where(lambda n: isinstance(n, ast.Name) and n.id == prm and isinstance(n.ctx, ast.Load))
            late = [r for r in reads if any(r in cfg.reachable(d) and r != d for d in destructive)]
            # identity short-cut: ``if value is self._store: return`` makes late reads safe
            ident = cfg.nodes_where(lambda n: isinstance(n, ast.Compare) and len(n.ops) == 1
                                    and isinstance(n.ops[0], (ast.Is, ast.IsNot))
                                    and {unparse(n.left), unparse(n.comparators[0])} ==
                                    {prm, "%s.%s" % (me, store[1])})
            ok = not late or bool(ident)
            chk.ob("R13.2", "%s.%s:alias-safe-assignment" % (c.qualname, pname), ok, s.loc(),
                   "the %s setter empties the storage object and only afterwards reads its argument: "
                   "'x.%s = x.%s' (the getter returns that very object) loses every entry"
                   % (pname, pname, pname), 3)
    sp0 = bi.props.get("symbolic_expressions")
    if sp0 is not None and sp0.setter is not None:
        s0 = sp0.setter
        me0 = s0.self_name
        cfg0 = CFG(s0.node)
        clears = cfg0.nodes_where(lambda n: isinstance(n, ast.Call) and attr_path(n.func) in (
            (me0, "_symbolic_expressions", "clear"),)) | cfg0.nodes_where(
            lambda n: isinstance(n, ast.Assign) and attr_path(n.targets[0]) == (me0, "_symbolic_expressions"))
        fills = cfg0.nodes_where(lambda n: isinstance(n, ast.Call) and attr_path(n.func) in (
            (me0, "_symbolic_expressions", "update"),)) | cfg0.nodes_where(
            lambda n: isinstance(n, ast.Assign) and attr_path(n.targets[0]) == (me0, "_symbolic_expressions")
            and isinstance(n.value, ast.Call) and len(n.value.args) >= 2)
        ok0 = bool(clears) and bool(fills) and cfg0.path_avoiding(cfg0.entry, cfg0.exit, clears) is None \
            and cfg0.path_avoiding(cfg0.entry, cfg0.exit, fills) is None
        chk.ob("R13.2", "ByteInterval.symbolic_expressions:assignment-replaces", ok0, s0.loc(),
               "assigning a whole mapping must drop the old entries and store the new ones on every "
               "path (clear/rebind, then update)", 2)
    sp = bi.props.get("symbolic_expressions")
    chk.ob("R13.2", "ByteInterval.symbolic_expressions:assignable", sp is not None and sp.setter is not None,
           bi.loc(), "whole-mapping assignment of symbolic_expressions must be supported", 1)
    chk.extra["destructive_setters_analysed"] = n_set

    # R13.3 ----------------------------------------------------------------
    for nm, by_addr in (("symbolic_expressions_at", True), ("symbolic_expressions_at_offset", False)):
        f = bi.methods.get(nm)
        key = "ByteInterval.%s" % nm
        if f is None:
            chk.ob("R13.3", key, False, bi.loc(), "lookup vanished")
            continue
        chk.saw(f)
        _range_lookup(chk, f, key, by_addr)

    from .bounds import range_helpers
    range_helpers(chk, "R13.3")
    # R13.4 ----------------------------------------------------------------
    # section scope goes through byte_intervals_on: the lazy section index must be sound
    from .c12 import _capture, _get, _ownership
    lt = repo.cls("LazyIntervalTree")
    sub = chk.sub()
    _ownership(sub, lt)
    _capture(sub, lt)
    _get(sub, lt)
    chk.adopt(sub, None, "R13.4")
    from .ownership import ownership
    for prop_, rule_, construct_, ok_, loc_, msg_, facts_ in ownership(repo).obs:
        if rule_ in ("R05.3", "R03.5") or (rule_ == "R03.3" and "leave-previous-owner" in construct_):
            chk.ob("R13.4", construct_, ok_, loc_, msg_, facts_)
    from .lookups import truthiness_safe
    truthiness_safe(chk, "R13.4")
    sec = repo.cls("Section")
    delegation(chk, sec, "symbolic_expressions_at",
               [("attr", ("self",), "byte_intervals"),
                ("call", ("attr", ("self",), "byte_intervals_on"), ("$param",))], "R13.4")
    uf = repo.function("util", "symbolic_expressions_at")
    chk.saw(uf)
    try:
        t = function_term(uf)
        ps = uf.param_names()
        ok = t[0] == "union" and t[1] == ("param", ps[0]) and \
            t[3] == ("call", ("attr", ("var", t[2]), "symbolic_expressions_at"), (("param", ps[1]),))
        why = show(t)
    except OutsideFragment as e:
        ok, why = False, str(e)
    chk.ob("R13.4", "util.symbolic_expressions_at:chains", ok, uf.loc(),
           "util.symbolic_expressions_at must chain node.symbolic_expressions_at(addrs) over all "
           "nodes: %s" % why, 2)
    for cname, child in (("Module", "sections"), ("IR", "modules")):
        c = repo.cls(cname)
        f = c.methods.get("symbolic_expressions_at")
        key = "%s.symbolic_expressions_at" % cname
        if f is None:
            chk.ob("R13.4", key, False, c.loc(), "lookup vanished")
            continue
        chk.saw(f)
        try:
            t = function_term(f)
        except OutsideFragment as e:
            chk.ob("R13.4", key, False, f.loc(), str(e), undecided=True)
            continue
        p = f.param_names()[1]
        ok = (t == ("call", ("name", "symbolic_expressions_at"), (("attr", ("self",), child), ("param", p)))) or \
            (t[0] == "union" and t[1] == ("attr", ("self",), child) and
             t[3] == ("call", ("attr", ("var", t[2]), "symbolic_expressions_at"), (("param", p),)))
        chk.ob("R13.4", key + ":composes", ok, f.loc(),
               "%s must be the union of the same lookup over self.%s with the same argument: %s"
               % (key, child, show(t)), 2)


def _range_lookup(chk: Check, f, key: str, by_addr: bool) -> None:
    me = f.self_name
    al = local_aliases(f.node)
    param = f.param_names()[1]
    cfg = CFG(f.node)
    # the normalised range variable: ``addrs = get_desired_range(addrs)`` rebinds the parameter
    rng_names = {param}
    for n in walk_no_nested(f.node):
        if isinstance(n, ast.Assign) and isinstance(n.targets[0], ast.Name) and isinstance(n.value, ast.Call) \
                and attr_path(n.value.func) == ("get_desired_range",):
            rng_names.add(n.targets[0].id)
    loops = [n for n in walk_no_nested(f.node) if isinstance(n, ast.For) and isinstance(n.iter, ast.Call)
             and isinstance(n.iter.func, ast.Attribute) and n.iter.func.attr == "irange"]
    # every yielded triple comes from an order-preserving walk of the sorted store
    ordered = True
    for lp0 in walk_no_nested(f.node):
        if isinstance(lp0, ast.For) and any(isinstance(y, ast.Yield) for y in ast.walk(lp0)):
            it = lp0.iter
            src_ok = False
            if isinstance(it, ast.Call) and isinstance(it.func, ast.Attribute) and \
                    it.func.attr in ("irange", "items", "keys", "irange_key", "islice"):
                base = attr_path(it.func.value)
                src_ok = bool(base) and base[-1] in ("_data", "symbolic_expressions", "_symbolic_expressions")
            elif isinstance(it, ast.Call) and attr_path(it.func) == ("sorted",):
                src_ok = True
            elif attr_path(it) and attr_path(it)[-1] in ("_data", "symbolic_expressions", "_symbolic_expressions"):
                src_ok = True
            ordered = ordered and src_ok
            if not src_ok:
                chk.ob("R13.3", key + ":increasing-offset-order", False, f.loc(lp0),
                       "%s yields from %s, which does not walk the sorted store in key order: results "
                       "must come in increasing offset order" % (key, unparse(it)[:50]), 2)
    if ordered:
        chk.ob("R13.3", key + ":increasing-offset-order", True, f.loc(), "yields walk the sorted store", 2)
    if len(loops) != 1:
        # a plain scan over the mapping is equally acceptable
        scan = any(isinstance(n, ast.For) and "symbolic_expressions" in unparse(n.iter)
                   for n in walk_no_nested(f.node))
        chk.ob("R13.3", key + ":iterates-store", scan, f.loc(),
               "%s neither range-iterates the sorted store nor scans the mapping" % key, 1)
        return
    lp = loops[0]
    call = lp.iter
    recv = attr_path(call.func.value)
    chk.ob("R13.3", key + ":own-store", recv == (me, "_symbolic_expressions", "_data"), f.loc(lp),
           "%s must iterate this interval's own sorted store, got %s" % (key, unparse(call.func.value)), 2)
    i = lp.target.id if isinstance(lp.target, ast.Name) else None
    lo = _lin(call.args[0], al) if len(call.args) > 0 else None
    hi = _lin(call.args[1], al) if len(call.args) > 1 else None

    def bound_ok(b, attr: str) -> bool:
        if b is None or b[1] != 0:
            return False
        d = dict(b[0])
        starts = [k for k in d if k.split(".")[0] in rng_names and k.endswith("." + attr)]
        if len(starts) != 1 or d.pop(starts[0]) != 1:
            return False
        if by_addr:
            return d == {"%s.address" % me: -1}
        return d == {}
    chk.ob("R13.3", key + ":lower-bound", bound_ok(lo, "start"), f.loc(lp),
           "the lower irange bound must be range.start%s, got %s"
           % (" - self.address" if by_addr else "", unparse(call.args[0]) if call.args else "none"), 3)
    chk.ob("R13.3", key + ":upper-bound", bound_ok(hi, "stop"), f.loc(lp),
           "the upper irange bound must be range.stop%s, got %s"
           % (" - self.address" if by_addr else "", unparse(call.args[1]) if len(call.args) > 1 else "none"), 3)
    inc = None
    for k in call.keywords:
        if k.arg == "inclusive":
            inc = k.value
    if inc is None and len(call.args) > 2:
        inc = call.args[2]
    inc_ok = isinstance(inc, ast.Tuple) and len(inc.elts) == 2 and \
        isinstance(inc.elts[0], ast.Constant) and inc.elts[0].value is True and \
        isinstance(inc.elts[1], ast.Constant) and inc.elts[1].value is False
    chk.ob("R13.3", key + ":half-open", inc_ok, f.loc(lp),
           "the range is half-open: inclusive=(True, False), got %s" % (unparse(inc) if inc else "default (True, True)"), 2)
    if any(k.arg == "reverse" for k in call.keywords):
        chk.ob("R13.3", key + ":increasing-order", False, f.loc(lp), "results must come in increasing offset order", 1)
    # the step filter and the yielded triple
    ys = [y for y in ast.walk(lp) if isinstance(y, ast.Yield)]
    ok_y = len(ys) == 1 and isinstance(ys[0].value, ast.Tuple) and len(ys[0].value.elts) == 3
    if ok_y:
        a, b, c = ys[0].value.elts
        ok_y = attr_path(a) == (me,) and attr_path(b) == (i,) and isinstance(c, ast.Subscript) and \
            attr_path(c.slice) == (i,) and attr_path(c.value) in ((me, "symbolic_expressions"),
                                                                  (me, "_symbolic_expressions"),
                                                                  (me, "_symbolic_expressions", "_data"))
    chk.ob("R13.3", key + ":yields-triple", ok_y, f.loc(lp),
           "%s must yield (self, offset, the expression stored at that offset)" % key, 2)
    if ys:
        yn = cfg.node_of(ys[0])
        member: Set[int] = set()
        for n, inf in cfg.info.items():
            if inf.kind == "test" and isinstance(inf.ast, ast.Compare) and len(inf.ast.ops) == 1 and \
                    isinstance(inf.ast.ops[0], (ast.In, ast.NotIn)) and attr_path(inf.ast.comparators[0]) and \
                    attr_path(inf.ast.comparators[0])[0] in rng_names:
                l = _lin(inf.ast.left, al)
                want = {"%s.address" % me: 1, i: 1} if by_addr else {i: 1}
                if l is not None and l[1] == 0 and l[0] == want:
                    for bnode in cfg.g.successors(n):
                        # the outcome "is a member", whichever way round the test is written
                        if cfg.info[bnode].kind == "branch" and \
                                cfg.info[bnode].value == isinstance(inf.ast.ops[0], ast.In):
                            member.add(bnode)
        head = cfg.by_ast[id(lp)]
        ok = bool(member) and cfg.path_avoiding(head, yn, member) is None
        chk.ob("R13.3", key + ":step-filter", ok, f.loc(lp),
               "every yielded offset must pass '%s in <requested range>' (a range with a step "
               "excludes addresses between its members)" % ("self.address + i" if by_addr else "i"), 3)
    early = [r_ for r_ in walk_no_nested(f.node) if isinstance(r_, ast.Return)]
    n_allowed = 1 if by_addr else 0
    extra = []
    for r_ in early:
        par_ = getattr(r_, "_parent", None)
        is_guard = isinstance(par_, ast.If) and isinstance(par_.test, ast.Compare) and \
            attr_path(par_.test.left) == (me, "address") and isinstance(par_.test.ops[0], ast.Is)
        # "the store holds nothing": not <store> / len(<store>) == 0 (the store is the mapping the
        # loop walks, or its backing SortedDict)
        STORES = ((me, "symbolic_expressions"), (me, "_symbolic_expressions"), (me, "_symbolic_expressions", "_data"))
        empty_store = False
        if isinstance(par_, ast.If) and par_.body and par_.body[0] is r_ or isinstance(par_, ast.If) and r_ in par_.body:
            t_ = par_.test
            if isinstance(t_, ast.UnaryOp) and isinstance(t_.op, ast.Not):
                v_ = al.get(t_.operand.id) if isinstance(t_.operand, ast.Name) and t_.operand.id in al else t_.operand
                empty_store = attr_path(v_) in STORES
            elif isinstance(t_, ast.Compare) and len(t_.ops) == 1 and isinstance(t_.ops[0], ast.Eq) \
                    and isinstance(t_.left, ast.Call) and attr_path(t_.left.func) == ("len",) and t_.left.args \
                    and isinstance(t_.comparators[0], ast.Constant) and t_.comparators[0].value == 0:
                v_ = t_.left.args[0]
                v_ = al.get(v_.id) if isinstance(v_, ast.Name) and v_.id in al else v_
                empty_store = attr_path(v_) in STORES
        if not is_guard and not empty_store:
            extra.append(r_)
    chk.ob("R13.3", key + ":no-other-early-exit", not extra, f.loc(extra[0]) if extra else f.loc(),
           "%s returns early on a condition other than 'the interval has no address' (%s): stored "
           "expressions that qualify are skipped" % (
               key, unparse(getattr(extra[0], "_parent", extra[0]))[:60] if extra else ""), 2)
    if by_addr:
        guard = cfg.nodes_where(lambda n: isinstance(n, ast.Compare) and len(n.ops) == 1 and
                                isinstance(n.ops[0], (ast.Is, ast.IsNot)) and
                                attr_path(n.left) == (me, "address"))
        hn = cfg.by_ast[id(lp)]
        known: Set[int] = set()
        for gnode in guard:
            t = cfg.info[gnode].ast
            for bnode in cfg.g.successors(gnode):
                bi_ = cfg.info[bnode]
                if bi_.kind == "branch" and bi_.value == isinstance(t.ops[0], ast.IsNot):
                    known.add(bnode)
        ok = bool(known) and cfg.path_avoiding(cfg.entry, hn, known) is None
        chk.ob("R13.3", key + ":no-address-guard", ok, f.loc(),
               "%s must yield nothing for an interval without an address" % key, 2)
