#!/venv/bin/python
"""usage: eval_patches.py [-v] [-p C01,C02] <patch.diff> ...
Analyses each patch applied to a scratch copy of /repo's python/gtirb + proto (under /tmp, removed
afterwards; /repo itself is never touched) with all rule sets in-process, without writing
evidence.  Prints, per patch, the properties that report and (with -v) every violated obligation.
Development aid only; the registered checks never use it."""
import importlib
import multiprocessing as mp
import os
import shutil
import subprocess
import sys
import tempfile

sys.path.insert(0, os.path.join(os.path.dirname(os.path.abspath(__file__)), ".."))
PROPS = ["C%02d" % i for i in range(1, 20)]


def one(args):
    patch, props = args
    tmp = tempfile.mkdtemp(prefix="evalp-", dir="/tmp")
    try:
        os.makedirs(tmp + "/python")
        for e in os.listdir("/repo"):
            if e not in (".git", "python"):
                os.symlink("/repo/" + e, tmp + "/" + e)
        for e in os.listdir("/repo/python"):
            if e != "gtirb":
                os.symlink("/repo/python/" + e, tmp + "/python/" + e)
        shutil.copytree("/repo/python/gtirb", tmp + "/python/gtirb")
        # only the hunks for python/gtirb are applied (the rest of the tree is symlinked)
        keep, cur, use = [], [], False
        for line in open(patch):
            if line.startswith("diff --git "):
                if use:
                    keep.extend(cur)
                cur, use = [], ("python/gtirb/" in line)
            cur.append(line)
        if use or not any(l.startswith("diff --git ") for l in keep + cur):
            keep.extend(cur)
        fp = tmp + "/the.patch"
        open(fp, "w").write("".join(keep))
        r = subprocess.run(["patch", "-s", "-p1", "-d", tmp, "-i", fp],
                           capture_output=True, text=True)
        if r.returncode != 0:
            return patch, [("-", "PATCH", "does not apply", r.stdout + r.stderr, "")]
        os.environ["VERIF_REPO"] = tmp
        from gtirb_static.model import AnalysisError, Repo
        from gtirb_static.report import Check, load_known
        from gtirb_static.runner import run_rules
        known = load_known()
        out = []
        try:
            repo = Repo()
        except AnalysisError as e:
            return patch, [("*", "EXIT2", "Repo", str(e), "")]
        for p in props:
            try:
                chk = run_rules(p, repo, "quick")
                v = [x for x in chk.violations() if (p, x.rule, x.construct) not in known]
                for x in v:
                    out.append((p, x.rule, x.construct, x.message, x.loc.replace(tmp + "/", "")))
                if not v and chk.undecided():
                    u = chk.undecided()[0]
                    out.append((p, "EXIT2", "undecided", "%s %s: %s" % (u.rule, u.construct, u.message), u.loc.replace(tmp + "/", "")))
                elif not v and chk.floor_failures:
                    out.append((p, "EXIT2", "floor", "; ".join(chk.floor_failures), ""))
            except AnalysisError as e:
                out.append((p, "EXIT2", "analysis", str(e), ""))
            except Exception as e:
                import traceback
                out.append((p, "CRASH", type(e).__name__, traceback.format_exc()[-600:], ""))
        return patch, out
    finally:
        shutil.rmtree(tmp, ignore_errors=True)


def main():
    argv = sys.argv[1:]
    verbose = "-v" in argv
    if verbose:
        argv.remove("-v")
    props = PROPS
    if "-p" in argv:
        i = argv.index("-p")
        props = argv[i + 1].split(",")
        del argv[i:i + 2]
    with mp.Pool(min(16, max(1, len(argv)))) as pool:
        res = pool.map(one, [(a, props) for a in argv], chunksize=1)
    for patch, out in res:
        ps = sorted({o[0] + ("(%s)" % o[1] if o[1] in ("EXIT2", "CRASH", "PATCH") else "") for o in out})
        print("%s: %s" % (patch, " ".join(ps) if ps else "silent"))
        if verbose:
            seen = set()
            for p, rule, construct, msg, loc in out:
                if (rule, construct) in seen:
                    continue
                seen.add((rule, construct))
                print("    [%s] %s %s %s: %s" % (p, loc, rule, construct, msg[:300]))


if __name__ == "__main__":
    main()
